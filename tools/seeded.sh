#!/bin/bash
# usage: tools/seeded.sh <dir with patch.diff demo.py> <check ids...>
# Confirms the demonstration (exit 0 clean / 1 patched) and runs the checks against a patched scratch copy (VERIF_REPO).
d=$1; shift
name=$(echo $d | tr '/' '_')
M=/tmp/seed$name
rm -rf $M; mkdir -p $M; cp -r /repo/src $M/src
( cd $M && patch -p1 -s < $d/patch.diff ) || { echo "PATCH FAILED"; rm -rf $M; exit 2; }
( cd /tmp && PYTHONPATH=/repo/src timeout 600 /venv/bin/python $d/demo.py > /tmp/seed$name.clean.log 2>&1 ); c=$?
( cd /tmp && PYTHONPATH=$M/src timeout 600 /venv/bin/python $d/demo.py > /tmp/seed$name.patched.log 2>&1 ); p=$?
echo "DEMO $d clean=$c patched=$p"
for chk in "$@"; do
  # the evidence file of a run against a patched copy must not replace the one of the last run against /repo
  cp /verif/evidence/$chk.json /tmp/seed$name.$chk.evidence.bak 2>/dev/null
  VERIF_REPO=$M timeout 2400 /verif/check $chk > /tmp/seed$name.$chk.log 2>&1; rc=$?
  [ -f /tmp/seed$name.$chk.evidence.bak ] && mv /tmp/seed$name.$chk.evidence.bak /verif/evidence/$chk.json
  echo "SEEDED $d check $chk exit=$rc violations=$(grep -c '^VIOLATION' /tmp/seed$name.$chk.log): $(grep -A1 '^VIOLATION' /tmp/seed$name.$chk.log | grep clause= | head -3 | cut -c1-170 | tr '\n' '|')"
done
rm -rf $M
