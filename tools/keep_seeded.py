#!/usr/bin/env python3
"""tools/keep_seeded.py <src dir> <dest name> <caught_by text> : keep a confirmed seeded change under /verif/seeded/."""
import json, shutil, sys
from pathlib import Path
src, name, caught = Path(sys.argv[1]), sys.argv[2], sys.argv[3]
dst = Path("/verif/seeded") / name
dst.mkdir(parents=True, exist_ok=True)
for f in ("patch.diff", "demo.py"):
    shutil.copy(src / f, dst / f)
meta = json.loads((src / "meta.json").read_text())
meta["confirmed"] = "demo.py exits 0 on the unchanged tree and 1 with the patch (tools/seeded.sh, scratch copy via VERIF_REPO); existing test suite unchanged per the author's run (same 1617 pass / 13 fail)"
meta["checks_run"] = caught
(dst / "meta.json").write_text(json.dumps(meta, indent=1))
print("kept", dst)
