#!/usr/bin/env python3
"""Prints the DESIGN.md table of seeded changes from /verif/seeded/*/meta.json."""
import json
from pathlib import Path
rows = []
for d in sorted(Path("/verif/seeded").iterdir()):
    m = json.loads((d / "meta.json").read_text())
    summ = m["summary"].replace("|", "/").replace("\n", " ")
    needs = m.get("needs", "").replace("|", "/").replace("\n", " ")
    rows.append(f"| {d.name} | {summ[:230]} | {needs[:200]} | {m['checks_run'].replace('|', '/')[:330]} |")
print("| seeded change | what it does | what it needs to manifest | result |\n|---|---|---|---|")
print("\n".join(rows))
