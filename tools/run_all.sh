#!/bin/bash
# Runs every claimed check's quick (or $1) tier against /repo, three at a time; prints one line per check.
tier=${1:-quick}
cd "$(dirname "$0")/.."
ids=$(python3 -c "import json; print(' '.join(c['property_id'] for c in json.load(open('MANIFEST.json'))['checks']))")
run() { s=$(date +%s); timeout 6000 ./check $1 --tier $tier > /tmp/runall_$1.log 2>&1; rc=$?; e=$(date +%s); echo "$1 exit=$rc $((e-s))s $(grep -c '^VIOLATION' /tmp/runall_$1.log) violations; $(tail -1 /tmp/runall_$1.log | cut -c1-160)"; }
export -f run; export tier
echo $ids | tr ' ' '\n' | xargs -P 3 -I{} bash -c 'run {}'
