#!/bin/bash
# Runs the X-series checks (specification coverage beyond the listed properties) against /repo; one line per check.
tier=${1:-quick}
cd "$(dirname "$0")/.."
for x in $(ls harness/x[0-9][0-9].py | sed 's#harness/x\([0-9]*\).py#X\1#'); do
  s=$(date +%s); timeout 3600 ./check $x --tier $tier > /tmp/runextra_$x.log 2>&1; rc=$?; e=$(date +%s)
  echo "$x exit=$rc $((e-s))s $(grep -c '^VIOLATION' /tmp/runextra_$x.log) violations; $(tail -1 /tmp/runextra_$x.log | cut -c1-160)"
done
