#!/bin/bash
# usage: tools/mutant.sh <name> <check ids...> -- <python snippet editing files under $M/src/pyopenapi_gen>
# Copies /repo to a scratch dir, applies the edit, runs the checks with VERIF_REPO pointing at the copy, removes the copy.
name=$1; shift
checks=()
while [ "$1" != "--" ]; do checks+=("$1"); shift; done; shift
M=/tmp/mut_$name
rm -rf $M; mkdir -p $M; cp -r /repo/src $M/src
( cd $M && M=$M python3 -c "$1" ) || { echo "edit failed"; rm -rf $M; exit 2; }
diff -r /repo/src/pyopenapi_gen $M/src/pyopenapi_gen | grep -v "^Only in\|__pycache__" | head -12
for c in "${checks[@]}"; do
  cp /verif/evidence/$c.json /tmp/mut_$name.$c.evidence.bak 2>/dev/null
  VERIF_REPO=$M timeout 1500 /verif/check $c > /tmp/mut_$name.$c.log 2>&1; rc=$?
  [ -f /tmp/mut_$name.$c.evidence.bak ] && mv /tmp/mut_$name.$c.evidence.bak /verif/evidence/$c.json
  echo "MUTANT $name check $c exit=$rc  $(grep -c '^VIOLATION' /tmp/mut_$name.$c.log) violations: $(grep -A1 '^VIOLATION' /tmp/mut_$name.$c.log | grep clause= | head -3 | cut -c1-160 | tr '\n' '|')"
done
rm -rf $M
