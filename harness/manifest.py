"""Regenerates /verif/MANIFEST.json from the table below (python3 -m harness.manifest)."""
import json
from pathlib import Path

VERIF = Path(__file__).resolve().parent.parent
BASELINE = "cd /repo && /venv/bin/python -m pytest -ra -q -p no:cacheprovider --timeout=900 --continue-on-collection-errors"

# id -> (level category, engine, technique, level text, level note, design ref)
CLAIMS = {
    "C04": ("model_checking", "Wire,MC_Wire,Gen_Wire,Trace_Wire",
            "TLC model checking of Wire.tla (argument binding -> request, as-is and fixed variants) + TLC-generated operations called on real generated clients over httpx.MockTransport; TLA+ trace monitor (ExpectedRequest)",
            "Wire.tla defines ExpectedRequest(op, args) and an implementation-shaped binding machine (path/query/header/cookie/body, multi-content dispatch); the design run lists the specification-level deviations, the fixed variant satisfies RequestOK; ~1.5k stratified operations (methods x parameter location/type/name shape/level x body kinds) are generated, every method is called with distinct-token arguments for up to 8 subsets of the optional arguments and the captured requests are judged by Trace_Wire.tla",
            "trusts TLC, httpx.MockTransport as the wire, folded-name + value-flow mapping of python arguments to declared parameters",
            "DESIGN.md section 4 C04; docs/C04_NOTES.md"),
    "C05": ("model_checking", "Reply,MC_Reply,Gen_Reply,Trace_Reply",
            "TLC model checking of Reply.tla (primary-response selection in both code copies, per-status / per-content-type dispatch; as-is and fixed variants) + TLC-generated scenarios served to real generated clients by a fake server; TLA+ trace monitor (ExpectedReply)",
            "Reply.tla defines ExpectedReply and mirrors response_strategy / response_handler_generator; declared sets x content types x body shapes are enumerated, generated, and each declared 2xx response is served (JSON, text, bytes, SSE, NDJSON, chunked) to the generated method; returned values / stream items are re-serialised independently and judged by Trace_Reply.tla",
            "trusts TLC, httpx.MockTransport as server, independent re-serialisation in obs_wire.jsonable",
            "DESIGN.md section 4 C05; docs/C05_NOTES.md"),
    "C07": ("model_checking", "Surface,MC_Surface,Gen_Surface,Trace_Surface",
            "TLC model checking of the tag-grouping rules (MC_Surface, as-is vs fixed) + TLC-generated documents (tags x operationId shapes x strategies x renderings); methods mapped to operations by the request they send; TLA+ monitor (ExpectedClients)",
            "Surface.tla defines ExpectedClients; ~1.5k documents (<=4 operations, tag assignments incl. spelling variants and reserved names, operationId shapes incl. colliding / pre-suffixed / FastAPI style, 3 strategies, JSON and YAML with bare numeric keys) are generated; every client method is called once and mapped to the (method, path) it requests; Trace_Surface.tla judges reachability, uniqueness, collapse, naming and silent drops",
            "trusts TLC, wire behaviour as method-operation mapping, warnings captured from generation",
            "DESIGN.md section 4 C07; docs/C07_C13_NOTES.md"),
    "C13": ("model_checking", "Surface,MC_Surface,Gen_Surface,Trace_Surface",
            "same document family and design model as C07; client / Protocol / mock surfaces compared by inspect.signature and ast; mocks called; TLA+ monitor (Parity)",
            "for every generated package the tag clients, their Protocols and mocks are compared method by method (names, parameter sequence, kinds, defaults, annotations, return annotation, coroutine / async-generator nature), mocks are called (NotImplementedError), MockAPIClient properties are compared with APIClient's, isinstance against the runtime-checkable Protocols is evaluated; Trace_Surface.tla (Prop = C13) judges",
            "trusts TLC, inspect/ast as observers; packages whose mocks do not import are skipped (C01)",
            "DESIGN.md section 4 C13; docs/C07_C13_NOTES.md"),
    "C14": ("model_checking", "UnionCodec,MC_Union,Trace_Union",
            "TLC model checking of UnionCodec.tla (code-shaped ImplChoose against the reference ChooseVariant over all unions of 2..3 variants x payloads) + the same pairs replayed on the real converter (make_dataclass and generated aliases); TLA+ trace monitor",
            "UnionCodec.tla enumerates object variants over fields {a,b,c} x {absent, optional, required}, primitive / list / map / nullable variants, unions in every order with / without discriminator and mapping, and conforming payloads of every variant; the design check yields the lossy / coercion relation; ~89k (union, payload) pairs are decoded by the real converter as field, list item and top-level type (plus ~200 unions from real generation) and judged by Trace_Union.tla",
            "trusts TLC, make_dataclass variants in the shape the generator emits, fresh converter state per union",
            "DESIGN.md section 4 C14; docs/C14_NOTES.md"),
    "C11": ("model_checking", "SharedCore,Gen_SharedCore,Trace_SharedCore",
            "TLC model checking of SharedCore.tla (exception registry across generation histories) + the tree of all histories replayed with real generations into one sandbox project, imports checked after every step; TLA+ trace monitor",
            "SharedCore.tla (registry, aliases, needs, generated; SharedDetected = the code's path heuristic) is model-checked for 3 clients x code sets x force x core depth 0..3 x histories <=4 (Served / NeverShrinksNeeded per depth); every history <=3 over 2 clients (thorough <=4 over 3) is replayed with real generate calls; after each step a generator-less interpreter imports every client generated so far and resolves every name its endpoints take from the core; Trace_SharedCore.tla judges and the projected real state is compared with the specification's successor state",
            "trusts TLC; the per-step fresh interpreter is a fork of a zygote with only httpx/cattrs loaded, cross-checked against a newly exec'ed interpreter on a sample of steps",
            "DESIGN.md section 4 C11; docs/C11_NOTES.md"),
    "C03": ("exploration", "Gen_Models,Trace_RoundTrip",
            "TLC-enumerated object schemas and conforming instances; round trip through the EMITTED converter of each generated package; TLA+ monitor with the property's tolerance (RoundTripOK, KeysBijective)",
            "every single-property schema over 20 property types x required/optional x 11 key styles and two-property schemas over 7 types x style pairs (TLC Gen_Models), each with every presence subset of optional properties x 2 values per leaf; each instance is structured and unstructured by the generated package's own converter with the generator blocked; Trace_RoundTrip.tla compares tagged JSON trees and checks the emitted Meta maps are inverse bijections",
            "trusts TLC, the tagged-tree encoding, instants/uuid normalisation in harness/c03.py; schemas without `default`",
            "DESIGN.md section 4 C03"),
    "C19": ("exploration", "Render,Trace_Render,Gen_Graphs",
            "TLC enumerates rendering / permutation variants of one abstract document (Render.tla); each variant generated and imported next to the reference; manifests and bytes compared; TLA+ monitor (Render!Clause)",
            "~45 documents (single-feature, a feature mix, schema graphs over plain and prefix-related names) x variants {JSON, YAML block, YAML flow, YAML bare numeric keys} x permutations of schemas / paths / properties; models->fields, clients->signatures and the operation set must be equal, pure re-renderings byte-identical",
            "trusts pyyaml as renderer, import + introspection as manifest, document families free of name collisions",
            "DESIGN.md section 4 C19"),
    "C18": ("model_checking", "StreamCore,Stream,StreamFamily,MC_Stream,Gen_Stream,Trace_Stream",
            "TLC model checking of the incremental decoder Stream.tla (ChunkIndependent over every chunking) + the same (stream, chunking) pairs replayed on the real iter_sse / iter_ndjson / iter_bytes; TLA+ trace monitor",
            "Stream.tla (UTF-8 carry, pending CR, line / block accumulation, flush) is checked against the whole-stream meaning Events(bytes) for every subset of cut points of streams <=12 bytes and <=2 cuts beyond (162k pairs quick, 2.2M thorough); every pair is replayed on the real helpers over httpx.Response with an async chunk iterator and judged against the unsplit run and the specification",
            "trusts TLC, httpx.Response(content=async iterator) as chunk source; comment-only SSE blocks are out of scope",
            "DESIGN.md section 4 C18; docs/C18_NOTES.md"),
    "C06": ("model_checking", "DispatchCore,Dispatch,MC_Dispatch,Gen_Dispatch,Trace_Dispatch",
            "TLC model checking of Dispatch.tla (transport contract + generated match statement) over declared-response sets x status classes x transports; every scenario generated and called once per status under the bundled and a pass-through transport; TLA+ trace monitor",
            "Dispatch.tla mirrors what HttpxTransport raises and what the generated match emits per declared / range / default / catch-all case (as-is variant yields the specification-level counterexamples, fixed variant satisfies the property); 200+ generated packages are called for 15 status representatives (all of 100..599 for a sample; everything in thorough) under both transports and judged by Trace_Dispatch.tla",
            "trusts TLC, httpx.MockTransport as server, exception class identity by name+module in the emitted package",
            "DESIGN.md section 4 C06; docs/C06_NOTES.md"),
    "C15": ("exploration", "TextSink,Trace_TextSink",
            "TLC enumerates hostile payloads and the lexical-context transitions they exercise (TextSink.tla); transition-covering payloads placed in every text-bearing position; AST skeleton + literal comparison against a benign baseline; TLA+ monitor",
            "23 text-bearing positions x a payload set covering every transition of the Python lexical-context automaton of TextSink.tla (thorough: all 1110 payloads of length <=3 over 10 hostile classes); each hostile document is generated next to a benign baseline; every emitted file must parse, keep its AST skeleton, and meaningful literals must evaluate to the original text",
            "trusts ast as the judge of structure; positions are the ones the base document exposes; culprit attribution of multi-character payloads is statistical",
            "DESIGN.md section 4 C15"),
    "C16": ("model_checking", "Codec,MC_Codec,Gen_Codec,Gen_CodecGraphs,Trace_Codec",
            "TLC model checking of the converter's hook-registry state machine (history independence) + TLC-generated type trees / instances / call histories replayed on the bundled converter; TLA+ trace monitor",
            "Codec.tla defines the type language, conformance, reference Decode/Encode and the registry machine; TLC checks HistoryIndependent over all call histories <=4 over <=3 types and emits type trees (depth <=3), instances, mutated (non-conforming) inputs and cyclic instance graphs; every one is run on the real cattrs converter / DataclassSerializer in fresh interpreters and judged by Trace_Codec.tla",
            "trusts TLC, dataclasses.make_dataclass as stand-in for generated models, the tagged-tree encoding of JSON; UUID/time leaves excluded (C03)",
            "DESIGN.md section 4 C16; docs/C16_NOTES.md"),
    "C17": ("model_checking", "TransportCore,Transport,Trace_Transport",
            "TLC model checking of Transport.tla (defaults -> per-request -> plug-ins -> send) against the reference fold; every scenario replayed on the real HttpxTransport over httpx.MockTransport; TLA+ trace monitor",
            "Transport.tla is checked over every ordered subset of <=2 (thorough 3) auth plug-ins x wrappings x header-overlap patterns x caller params/cookies, in an as-is variant (mirrors the code; its deviations are the specification-level findings) and a fixed variant (reference satisfiable); all 26k scenarios are sent through the real transport and the captured requests judged by Trace_Transport.tla",
            "trusts TLC, httpx.MockTransport as the wire, injection by wrapping httpx.AsyncClient.__init__",
            "DESIGN.md section 4 C17; docs/C17_NOTES.md"),
    "C20": ("model_checking", "Naming,MC_Naming,Gen_Names,Gen_Alloc,Trace_Naming",
            "TLC model checking of the namespace allocator (Naming.tla) + exhaustive short-string enumeration through the real sanitisers + allocation-order documents through real generation; TLA+ trace monitor",
            "Naming.tla's allocator invariants (ValidIdent, Injective, Total, Stable) are model-checked for the loop and counter de-collision policies; all 11k strings of length <=4 over a 10-symbol alphabet (+ keyword variants) go through every derivation on the generation path; all sequences <=3 from colliding families are placed in each namespace kind of real generated packages and read back by introspection; Trace_Naming.tla judges",
            "trusts TLC, harness-side XID classification of code points, introspection (dataclasses.fields, inspect.signature, Enum.__members__) as the read-back channel",
            "DESIGN.md section 4 C20; docs/C20_NOTES.md"),
    "C10": ("model_checking", "GenRun,MC_GenRun,Trace_GenRun",
            "TLC model checking of GenRun.tla (stages x modes x fault points over an abstract file system); every behaviour replayed as a real generation under an audit hook with injected faults; TLA+ trace monitor",
            "GenRun.tla is checked exhaustively (1248 behaviours: existing tree x force x core layout x cwd x post-processing x fault at each of 12 stages) and each behaviour is replayed with the real generator in a sentinel-seeded sandbox; Trace_GenRun.tla judges every recorded file-system operation and the before/after snapshot against Untouched / Contained / FaultsSurface and the outcome half of the statement (on a match it succeeds, on a difference it raises); concrete variants per behaviour: which file is missing / edited, missing package markers, prefix-related package names, temporary directory below a dot-directory, one large document",
            "trusts TLC, sys.addaudithook + snapshots as complete observation of file-system effects, fault injection from the audit hook as model of 'failure part-way'; one document per run family",
            "DESIGN.md section 4 C10"),
    "C09": ("model_checking", "GenRun,MC_GenRun,Trace_GenRun,Trace_Det",
            "GenRun.tla behaviours generate;generate(no force) over mutated existing trees replayed with real generations; history-of-runs determinism monitor (Trace_Det.tla) over hash seeds / warm process / roots / clock",
            "the non-force behaviours of GenRun.tla over existing trees {equal, edited, file missing, emptied, non-.py changed, stale extra} x core layouts x post-processing x temporary-directory location are replayed with real generations and judged (Idem, Complete), the plain `equal tree` behaviour for every catalogue document; the Det invariant is judged over 5 environments for the catalogue documents",
            "trusts TLC, sha256 tree snapshots; determinism environments are hash seed, process warmth, output root, shifted time.time()",
            "DESIGN.md section 4 C09"),
    "C01": ("model_checking", "PyImport,Gen_Features,Trace_Load",
            "TLC explores every entry module of each emitted package's import graph (PyImport.tla, CPython partial-initialisation semantics); real compile + import in a generator-less interpreter; TLA+ monitor",
            "documents = every feature of the catalogue in harness/features.py (about 80 features, incl. two-feature interactions on one operation, case-variant and numeric-looking names, size steps) alone and in pairs (TLC Gen_Features) x layouts (incl. prefix-related, repeated-component and core-is-client-tail package names) x naming strategies; every emitted file is compiled and every module imported with the generator blocked; PyImport.tla (TLC) explores all entry modules and each predicted failure is confirmed in a fresh interpreter; Trace_Load.tla judges syntax / import / export / entry-order clauses",
            "trusts TLC, ast-based fact extraction, the feature catalogue as the document family; PyImport is my model of CPython's import protocol (alarms only after real confirmation)",
            "DESIGN.md section 4 C01"),
    "C12": ("exploration", "Gen_Features,Trace_Load",
            "TLC-enumerated feature documents; every import statement of every emitted file judged by a TLA+ closure monitor (PyImport!Closed); runtime files compared with the shipped ones",
            "same document family as C01; for every accepted document each import statement at any depth is checked for membership in stdlib+httpx+cattrs+package+core by Trace_Load.tla, all modules are imported with the generator blocked, and the 8 runtime files are compared byte-for-byte with the tree under test (with and without post-processing, incl. one 600-schema document and a tampered shared core history)",
            "trusts sys.stdlib_module_names, ast import extraction, the sys.meta_path blocker as model of 'generator not installed'",
            "DESIGN.md section 4 C12"),
    "C08": ("model_checking", "CycleTracker,Trace_CycleTracker,Gen_Graphs,Gen_Chains",
            "TLC design model checking of the cycle tracker + state-graph edge replay on the real tracker + TLC trace validation of real parser runs",
            "TLC checks the tracker design (rest state under LIFO use, depth accounting, limit) exhaustively for small name sets; every edge of the dumped state graphs is replayed on the real UnifiedCycleContext; traces of the real parser over every graph with <=2 edges (9 edge kinds, all orders, 3 name sets, names that change under sanitisation) and chains / nestings around three depth limits and far beyond them (300, 420 levels) are validated by a total TLA+ monitor; a load that raises on a valid document is a verdict (C08.load_raised)",
            "trusts TLC, the wrappers around unified_enter_schema/unified_exit_schema as observation points, and the concretiser; bounds: 2-3 names, <=2-3 edges, depth limits {3,10,150}",
            "DESIGN.md section 4 C08"),
    "C02": ("model_checking", "Docs,Gen_Graphs,Trace_Fidelity",
            "TLC-enumerated schema graphs, real parser IR + imported dataclasses judged by a TLA+ reference resolver (Docs!ExpectedFields)",
            "every schema graph over 2 names with <=2 edges of 9+ kinds in both declaration orders, for plain, prefix-related and 'Item'-named name sets, is parsed (IR) and, for one family, generated and imported; further families: colliding property keys, two declared names deriving one class name (models recognised by a content marker), typeless / at-least-one-of object styles, long names with a long common prefix, an accumulation document under a small depth limit; a TLC monitor compares observed fields (key, required flag, structural kind) with the reference resolver; SchemaParse.tla is run on the same documents and compared call by call (incl. AnswersOwnNode)",
            "trusts TLC, the projection of annotations to structural kinds (harness/c02.py norm_kind) and identification of models by class name (by content marker in the name-collision family); alias-only schemas and documents with cyclic allOf are outside the judged family",
            "DESIGN.md section 4 C02"),
}


def main() -> None:
    props = [json.loads(l) for l in (VERIF / "properties.jsonl").read_text().splitlines() if l.strip()]
    checks = []
    na = []
    for p in props:
        pid = p["id"]
        if pid in CLAIMS:
            cat, engine, tech, text, note, ref = CLAIMS[pid]
            checks.append({
                "property_id": pid,
                "quick_cmd": f"./check {pid} --tier quick",
                "thorough_cmd": f"./check {pid} --tier thorough",
                "evidence_file": f"/verif/evidence/{pid}.json",
                "replay_cmd_template": f"./check {pid} --replay {{path}}",
                "engine": engine,
                "level_claimed": {"category": cat, "text": text, "design_ref": ref},
                "level_note": note,
                "technique": tech,
            })
        else:
            na.append({"property_id": pid, "reason": "check not built yet (framework under construction; see DESIGN.md Appendix D build order)"})
    m = {
        "version": 1,
        "setup_cmd": "./check --setup",
        "hooks": {
            "guard": "PYOPENAPI_GEN_VERIF",
            "enable": "harness-side instrumentation only (module-attribute wrappers, audit hooks, MockTransport); no source patches",
            "baseline_off_cmd": BASELINE,
            "source_commits": [],
            "add_only": True,
        },
        "engines": [
            {"name": "tlc-design", "path": "specs/", "serves_properties": sorted(CLAIMS), "kind_free_text": "TLC exhaustive model checking of implementation-shaped TLA+ modules"},
            {"name": "tlc-generate", "path": "specs/Gen_*.tla", "serves_properties": sorted(CLAIMS), "kind_free_text": "TLC as exhaustive scenario/behaviour generator"},
            {"name": "tlc-monitor", "path": "specs/Trace_*.tla", "serves_properties": sorted(CLAIMS), "kind_free_text": "total TLA+ monitors validating traces recorded from the real code"},
            {"name": "replay-harness", "path": "harness/", "serves_properties": sorted(CLAIMS), "kind_free_text": "Python drivers/observers binding the specifications to /repo's working tree"},
            # specification coverage beyond the listed properties (run with ./check X<nn> or tools/run_extras.sh; same contract, own findings files)
            {"name": "x01-pagination", "path": "harness/x01.py", "serves_properties": [], "kind_free_text": "Pagination.tla: paginate_by_next, safety + liveness, every bounded server replayed on the real helper"},
            {"name": "x02-writers", "path": "harness/x02.py", "serves_properties": ["C15"], "kind_free_text": "Writer.tla / RenderAst.tla: CodeWriter / LineWriter as a state machine (18 actions, every edge replayed), PythonConstructRenderer output read back with ast"},
            {"name": "x03-imports", "path": "harness/x03.py", "serves_properties": ["C01", "C12"], "kind_free_text": "Imports.tla: ImportCollector / RenderContext import arithmetic judged against Python's own name resolution (TLA+ Resolve cross-checked with the real importer)"},
            {"name": "x05-operation-loader", "path": "harness/x05.py", "serves_properties": ["C04", "C05", "C06", "C07"], "kind_free_text": "OpLoad.tla: document -> IR of operations; Meaning(doc) (override rule, transitive $ref, response table) vs the real load_ir_from_spec; NoCrossTalk, RefTransparent"},
            {"name": "x06-enum-pipeline", "path": "harness/x06.py", "serves_properties": ["C02", "C03", "C20"], "kind_free_text": "EnumPipe.tla: enum keywords and discriminator mappings -> emitted Enum classes; Values, Members, RightEnum, Shared, Named, RoundTrip, Stable"},
            {"name": "x04-type-resolution", "path": "harness/x04.py", "serves_properties": ["C02", "C03"], "kind_free_text": "TypeResolve.tla: schema -> annotation; Admits(shape) vs Denotes(annotation), imports closed, stable, total"},
        ],
        "checks": checks,
        "not_applicable": na,
        "notes": "Exit 2 of a check = machinery failure (never a VIOLATION). Known findings live in findings/*.jsonl.",
    }
    (VERIF / "MANIFEST.json").write_text(json.dumps(m, indent=1))


if __name__ == "__main__":
    main()
