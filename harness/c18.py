"""C18 - stream decoders are independent of how the bytes are chunked.

(A) MC_Stream: TLC checks the incremental design (Stream.tla: UTF-8 carry, pending CR, partial line, block
    accumulation, blank-line dispatch, final flush) against the whole-stream meaning (StreamCore!Events / Records)
    for EVERY (stream, chunking) pair of the family (StreamFamily.tla) - invariant ChunkIndependent.
(B) Gen_Stream: TLC emits the same (stream, chunking) pairs as JSON scenarios (same operators, same bounds).
(C) harness/w_stream.py drives the real iter_sse / iter_sse_events_text / iter_ndjson / iter_bytes over
    httpx.Response(200, content=<async chunk iterator>) for every pair; Trace_Stream.tla (TLC) judges.
"""

from __future__ import annotations

import json
import re
from typing import Any

from . import core
from .core import Check, run_tlc

LEVEL = "model_checking"

BOUNDS = {
    "quick": {"tier": 1, "full": 12, "cuts": 2},
    "thorough": {"tier": 2, "full": 14, "cuts": 3},
}
# cut kinds that must be present by construction (counted, not assumed)
MUST_KINDS = ("in_char", "cr_lf", "between_lines", "before_blank", "in_line")
BATCH_PAIRS = 400_000  # (stream, chunking) pairs per monitor run


def consts(b: dict, with_streams: bool) -> str:
    s = "CONSTANTS\n"
    if with_streams:
        s += " Streams <- MCStreams\n"
    return s + f" Tier = {b['tier']}\n MaxFullLen = {b['full']}\n MaxCuts = {b['cuts']}\n"


MC_CFG = (
    "INVARIANT TypeOK\nINVARIANT ChunkIndependent\nINVARIANT BytesConcat\nINVARIANT FlushedClean\n"
    "PROPERTY Monotone\nPROPERTY FlushDelivers\nCHECK_DEADLOCK FALSE\n"
)


def design(chk: Check, b: dict) -> tuple[int, int]:
    """Returns (pairs, distinct states) of the full design run (0, 0 when the design itself is refuted)."""
    # (i) per-action coverage on reduced bounds (-coverage costs a factor 3 on the full family)
    small = {"tier": b["tier"], "full": 6, "cuts": 0}
    r = run_tlc(chk.scratch, "MC_Stream", "SPECIFICATION Spec\n" + consts(small, True) + MC_CFG, coverage=True, allow_violation=True, timeout=1500)
    chk.add_tlc(f"MC_Stream[coverage run: tier={small['tier']},full<={small['full']},cuts<={small['cuts']}]", r)
    if not r.violated:
        for act in ("Deliver", "Close"):
            chk.require(r.coverage.get(act, (0, 0))[1] > 0, f"vacuous design run: action {act} never taken")
    # (ii) the full family; non-vacuity through the state-count identity checked in run()
    r = run_tlc(chk.scratch, "MC_Stream", "SPECIFICATION Spec\n" + consts(b, True) + MC_CFG, allow_violation=True, timeout=1500)
    chk.add_tlc(f"MC_Stream[tier={b['tier']},full<={b['full']},cuts<={b['cuts']}]", r)
    if r.violated:
        # the modelled incremental design itself is chunk-dependent: a specification-level counterexample
        chk.fail("C18.design_invariant", {"invariant": r.violated[0]}, {"bounds": b}, r.out[-2500:])
        return 0, 0
    m = re.search(r"Finished computing initial states: (\d+) distinct state", r.out)
    chk.require(m is not None, "cannot read the number of initial states of the design run")
    pairs = int(m.group(1))  # one initial state per (stream, chunking) pair
    chk.cov["design_pairs_checked"] = pairs
    chk.clause("Stream!ChunkIndependent", pairs)
    return pairs, r.distinct


def generate(chk: Check, b: dict) -> list[dict]:
    cfg = "SPECIFICATION Spec\n" + consts(b, False) + "CHECK_DEADLOCK FALSE\n"
    r = run_tlc(chk.scratch, "Gen_Stream", cfg, timeout=1500)
    chk.add_tlc("Gen_Stream", r)
    scen = r.printed.get("SCEN", [])
    chk.require(len(scen) > 0, "Gen_Stream produced no scenario")
    scen.sort(key=lambda s: (s["mode"], s["bytes"]))
    for i, s in enumerate(scen):
        s["id"] = f"{s['mode']}{i:05d}"
        s["chunkings"] = sorted(s["chunkings"], key=lambda c: (len(c), c))
        chk.require(s["chunkings"][0] == [], "the unsplit stream is not part of the chunkings")
        chk.require(all(0 <= x <= 255 for x in s["bytes"]), "byte out of range")
    return scen


def observe(chk: Check, scen: list[dict]) -> list[dict]:
    jobs = [{"id": s["id"], "mode": s["mode"], "bytes": s["bytes"], "chunkings": s["chunkings"]} for s in scen]
    order = sorted(jobs, key=lambda j: -len(j["chunkings"]) * (3 if j["mode"] == "sse" else 2))
    res = {r["id"]: r for r in core.parallel_py(chk.scratch, "harness.w_stream", order)}
    traces = []
    for s in scen:
        r = res[s["id"]]
        for a in r["absent"]:
            chk.cov.setdefault("helpers_absent", [])
            if a not in chk.cov["helpers_absent"]:
                chk.cov["helpers_absent"].append(a)
        chk.require(any(d["name"] != "iter_bytes" for d in r["dec"]), f"no event/record helper to drive for mode {s['mode']}")
        chk.cov["helper_runs"] = chk.cov.get("helper_runs", 0) + r["runs"]
        chk.cov["iter_bytes_boundaries_preserved"] = chk.cov.get("iter_bytes_boundaries_preserved", 0) + r.get("same_chunks", 0)
        traces.append({"id": s["id"], "mode": s["mode"], "bytes": s["bytes"], "chunkings": s["chunkings"], "dec": r["dec"]})
    return traces


def text_of(bs: list[int]) -> str:
    return bytes(bs).decode("utf-8", "backslashreplace").encode("unicode_escape").decode("ascii")


def judge(chk: Check, traces: list[dict], label: str) -> None:
    by_id = {t["id"]: t for t in traces}
    batches: list[list[dict]] = [[]]
    size = 0
    for t in traces:
        if batches[-1] and size + len(t["chunkings"]) > BATCH_PAIRS:
            batches.append([])
            size = 0
        batches[-1].append(t)
        size += len(t["chunkings"])
    for lo, part in enumerate(batches):
        d = chk.scratch.sub("str")
        tf = d / "traces.ndjson"
        with tf.open("w") as f:
            for t in part:
                f.write(json.dumps(t, separators=(",", ":")) + "\n")
        r = run_tlc(chk.scratch, "Trace_Stream", "SPECIFICATION Spec\nCHECK_DEADLOCK FALSE\n", env={"TRACE_FILE": str(tf)}, timeout=1500)
        chk.add_tlc(f"Trace_Stream[{label}:{lo}]", r)
        vs = r.printed.get("VERDICT", [])
        chk.require(len(vs) == len(part) and {v["id"] for v in vs} == {t["id"] for t in part}, f"monitor produced {len(vs)} verdicts for {len(part)} traces")
        tf.unlink()
        for v in vs:
            t = by_id[v["id"]]
            ndec = len(t["dec"])
            chk.cov["traces_validated_against_impl"] += v["nruns"] * ndec
            chk.count(v["nruns"])
            chk.cov["pairs_replayed"] = chk.cov.get("pairs_replayed", 0) + v["nruns"]
            for j in range(v["inner"]):
                chk.nontrivial(f"{v['id']}#{j}")
            kc = chk.cov.setdefault("pairs_with_cut_kind", {})
            for k, n in v["byKind"].items():
                kc[k] = kc.get(k, 0) + n
            for dd in t["dec"]:
                if dd["name"] == "iter_bytes":
                    chk.clause("C18.bytes_concat", v["nruns"])
                else:
                    chk.clause("C18.differs_from_unsplit", v["nruns"] - 1)
                    chk.clause("C18.differs_from_spec", 1)
                    chk.clause("C18.order", v["nruns"] if v["nitems"] > 1 else 0)
                    chk.clause("C18.last_event_lost", v["nruns"] if v["lastopen"] else 0)
            if v["commentOnly"]:
                key = "comment_only_block_streams_delivering_empty_event" if v["commentOnlyDelivered"] else "comment_only_block_streams_delivering_nothing"
                chk.cov[key] = chk.cov.get(key, 0) + 1
            for fl in (f for per_helper in v["fails"] for f in per_helper):
                loc: dict[str, Any] = {"helper": fl["dec"], "relative_to": fl["rel"], "error": fl["err"]}
                if fl["rel"] == "unsplit":
                    loc["cut_kinds"] = sorted(fl["kinds"])
                else:
                    loc["differs_in"] = fl["field"]
                scen = {"mode": t["mode"], "bytes": t["bytes"], "text": text_of(t["bytes"]), "cuts": fl["cuts"], "helper": fl["dec"]}
                dd = next(x for x in t["dec"] if x["name"] == fl["dec"])
                got = dd["outs"][dd["idx"][t["chunkings"].index(fl["cuts"])] - 1]
                ref = "the unsplit run" if fl["rel"] == "unsplit" else "the whole-stream meaning (StreamCore.tla)"
                chk.fail(fl["clause"], loc, scen, f"{fl['dec']} on {text_of(t['bytes'])!r} cut at {fl['cuts']} yielded {show(got)}; {ref} gives {show({'items': fl['exp'], 'err': 'none'})}")
    if traces:
        t = traces[len(traces) // 2]
        chk.sample({"stream": text_of(t["bytes"]), "mode": t["mode"], "bytes": t["bytes"], "chunkings": len(t["chunkings"]), "example_chunking": t["chunkings"][-1], "observed": {d["name"]: {"distinct_outputs": len(d["outs"]), "unsplit": show(d["outs"][d["idx"][0] - 1])} for d in t["dec"]}})


def show(o: dict) -> str:
    def txt(x: Any) -> Any:
        if isinstance(x, list) and all(isinstance(c, int) for c in x):
            return "<none>" if x == [-1] else "".join(chr(c) if 0 <= c < 0x110000 else "?" for c in x)
        if isinstance(x, dict):
            return {k: txt(v) for k, v in x.items()}
        return x

    items = [txt(i) for i in o["items"]]
    return json.dumps({"items": items, "err": o["err"]}, ensure_ascii=True)[:400]


def run(chk: Check) -> None:
    b = BOUNDS[chk.tier]
    chk.cov["rule"] = (
        f"streams from the grammar of specs/StreamFamily.tla (Tier={b['tier']}: SSE 1-3 blocks x block shapes x payloads incl. empty, "
        f"{'2/3' if b['tier'] == 1 else '2/3/4'}-byte characters, trailing blank x LF/CRLF{'/alternating' if b['tier'] > 1 else ''} x last block closed / line-terminated / cut; NDJSON 1-3 records x LF/CRLF x "
        f"blank line between x last record terminated or not); chunkings: every subset of cut points for streams <= {b['full']} bytes, "
        f"every chunking with <= {b['cuts']} cuts beyond; each pair is (i) an initial state of the TLC design check and (ii) replayed on the "
        "real helpers; non-trivial = (stream, chunking) pair with at least one cut strictly inside an event / record "
        "(StreamCore!CutKind # at_rest), distinct because streams and cut sets are sets"
    )
    chk.assumptions += [
        "streams are valid UTF-8 with LF / CRLF terminators (bare CR, BOM, invalid UTF-8, other Unicode line separators are outside the property's statement)",
        "comment-only blocks: the monitor accepts both 'empty event delivered' and 'nothing delivered' (the property fixes only blocks with >= 1 field line); which one the code does is recorded",
        "NDJSON values are compared through their canonical JSON text (family records are canonical under json.dumps(ensure_ascii=False, separators=(',',':')))",
        "iter_bytes is judged on the concatenation of what it yields; whether chunk boundaries are preserved is recorded, not judged",
    ]
    pairs_mc, states_mc = design(chk, b)
    scen = generate(chk, b)
    npairs = sum(len(s["chunkings"]) for s in scen)
    chk.cov["streams"] = len(scen)
    chk.cov["streams_by_mode"] = {m: sum(1 for s in scen if s["mode"] == m) for m in ("sse", "ndjson")}
    chk.cov["pairs_generated"] = npairs
    if pairs_mc:
        chk.require(pairs_mc == npairs, f"design check explored {pairs_mc} pairs but the generator emitted {npairs}")
        # every pair contributes its initial state, one Deliver per chunk and one Close: the design run is not vacuous
        # exactly when it found that many distinct states
        want = sum(len(c) + 3 for s in scen for c in s["chunkings"])
        chk.require(states_mc == want, f"design run found {states_mc} distinct states, {want} expected (one Deliver per chunk and one Close per pair)")
    traces = observe(chk, scen)
    judge(chk, traces, "family")
    kc = chk.cov.get("pairs_with_cut_kind", {})
    for k in MUST_KINDS:
        chk.require(kc.get(k, 0) > 0, f"no chunking with a cut of kind {k}: the family does not exercise the mechanism")
    chk.require(chk.cov.get("pairs_replayed", 0) == npairs, "not every generated pair was replayed and judged")
    chk.cov["exhaustive"] = True


def replay(chk: Check, path: str) -> None:
    rec = json.loads(open(path).read())
    sc = rec["scenario"]
    if "bytes" not in sc:
        raise core.MachineryError("replay file carries no stream (design-level counterexamples are re-run by the full check)")
    chunkings = [[]] + ([sc["cuts"]] if sc.get("cuts") else [])
    s = {"id": "replay", "mode": sc["mode"], "bytes": sc["bytes"], "chunkings": chunkings}
    traces = observe(chk, [s])
    for d in traces[0]["dec"]:
        for c, i in zip(chunkings, d["idx"]):
            print(f"REPLAY {d['name']} cuts={c} -> {show(d['outs'][i - 1])}")
    judge(chk, traces, "replay")
    for f in chk.fails:
        print("REPLAY-FAIL", f["clause"], json.dumps(f["locus"]), f["detail"][:300])
