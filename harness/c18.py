"""C18 - stream decoders are independent of how the bytes are chunked.

(A) MC_Stream: TLC checks the incremental design (Stream.tla: UTF-8 carry, pending CR, partial line, block
    accumulation, blank-line dispatch, final flush; decode step parameterised by the declared charset) against the
    whole-stream meaning (StreamCore!Events / Records) for EVERY (stream, charset, chunking) of the family
    (StreamFamily.tla) - invariant ChunkIndependent.
    MC_StreamPair: two decoders with their own state under every interleaving of their chunks (and with stream 1
    abandoned mid-event) - invariant StreamsIndependent; the same run prints every schedule.
(B) Gen_Stream / MC_StreamPair: TLC emits the (stream, chunking) pairs and the two-stream schedules as JSON.
(C) harness/w_stream.py drives the real iter_sse / iter_sse_events_text / iter_ndjson / iter_bytes over
    httpx.Response(200, headers=<Content-Type dimension>, content=<async chunk iterator>) for every scenario
    (two asyncio tasks whose chunk iterators follow the schedule for the pairs); Trace_Stream.tla (TLC) judges.
"""

from __future__ import annotations

import json
import re
from typing import Any

from . import core
from .core import Check, run_tlc

LEVEL = "model_checking"

# depth: transition-cover depth for the mixed-terminator streams (rule "cover", StreamCore!CoverSets)
# full / cuts: chunkings of the default response (no Content-Type); afull / acuts: chunkings replayed under every other
# Content-Type; pcuts: cuts per stream in two-stream schedules; combos: helper pairs for SSE+SSE schedules
BOUNDS = {
    "quick": {"tier": 1, "full": 12, "cuts": 2, "afull": 7, "acuts": 1, "pcuts": 1, "combos": 2, "depth": 3},
    "thorough": {"tier": 2, "full": 14, "cuts": 3, "afull": 10, "acuts": 2, "pcuts": 2, "combos": 3, "depth": 3},
}
# cut kinds that must be present by construction (counted, not assumed)
MUST_KINDS = ("in_char", "cr_lf", "between_lines", "before_blank", "in_line")
# (stream, chunking) pairs per monitor run (a two-stream schedule counts 3: it carries more values); measured to fit the
# 3g heap: quick's whole family (398k units) in one run, thorough in batches of 300k
BATCH_PAIRS = {"quick": 420_000, "thorough": 300_000}
HEAP = "3g"
# FeedAll / DecFrom recurse once per character and TLC's interpreter needs many Java frames per level: with the default
# thread stack a 50-character chunk occasionally ended in a StackOverflowError (before the JIT had compiled the
# evaluator, and always with -coverage), i.e. a flaky machinery failure.  Worker threads get a bigger stack.
JVM = {"JAVA_TOOL_OPTIONS": "-Xss64m"}

BASE_CT = {"sse": "text/event-stream", "ndjson": "application/x-ndjson"}
# (name, Content-Type suffix or None for "no header", decode-step parameter of the model, is the whole-stream meaning a
#  property clause under this header?, which chunking set)
HEADERS = [
    ("none", None, "utf8", True, "chunkings"),
    ("no-charset", "", "utf8", True, "alt"),
    ("utf-8", "; charset=utf-8", "utf8", True, "alt"),
    ("ISO-8859-1", ";charset=ISO-8859-1", "latin1", False, "alt"),
    ("latin-1", "; charset=latin-1", "latin1", False, "alt"),
    ("unknown", "; charset=x-unknown-9", "utf8", False, "alt"),
]


def consts(b: dict, with_streams: bool) -> str:
    s = "CONSTANTS\n"
    if with_streams:
        s += " Streams <- MCStreams\n"
    return s + f" Tier = {b['tier']}\n MaxFullLen = {b['full']}\n MaxCuts = {b['cuts']}\n AltFullLen = {b['afull']}\n AltMaxCuts = {b['acuts']}\n CoverDepth = {b['depth']}\n"


MC_CFG = (
    "INVARIANT TypeOK\nINVARIANT ChunkIndependent\nINVARIANT BytesConcat\nINVARIANT FlushedClean\n"
    "PROPERTY Monotone\nPROPERTY FlushDelivers\nCHECK_DEADLOCK FALSE\n"
)


def design(chk: Check, b: dict) -> tuple[int, int]:
    """Returns (scenarios, distinct states) of the full design run (0, 0 when the design itself is refuted)."""
    # (i) per-action coverage on reduced bounds (-coverage costs a factor 3 on the full family)
    small = dict(b, full=6, cuts=0, afull=4, acuts=0, depth=0)
    r = run_tlc(chk.scratch, "MC_Stream", "SPECIFICATION Spec\n" + consts(small, True) + MC_CFG, coverage=True, allow_violation=True, timeout=1500, heap=HEAP, env=JVM)
    chk.add_tlc(f"MC_Stream[coverage run: tier={small['tier']},full<={small['full']},cuts<={small['cuts']}]", r)
    if not r.violated:
        for act in ("Deliver", "Close"):
            chk.require(r.coverage.get(act, (0, 0))[1] > 0, f"vacuous design run: action {act} never taken")
    # (ii) the full family; non-vacuity through the state-count identity checked in run()
    r = run_tlc(chk.scratch, "MC_Stream", "SPECIFICATION Spec\n" + consts(b, True) + MC_CFG, allow_violation=True, timeout=1500, heap=HEAP, env=JVM)
    chk.add_tlc(f"MC_Stream[tier={b['tier']},full<={b['full']},cuts<={b['cuts']},alt full<={b['afull']},alt cuts<={b['acuts']}]", r)
    if r.violated:
        # the modelled incremental design itself is chunk-dependent: a specification-level counterexample
        chk.fail("C18.design_invariant", {"invariant": r.violated[0]}, {"bounds": b}, r.out[-2500:])
        return 0, 0
    m = re.search(r"Finished computing initial states: (\d+) distinct state", r.out)
    chk.require(m is not None, "cannot read the number of initial states of the design run")
    n = int(m.group(1))  # one initial state per (stream, charset, chunking)
    chk.cov["design_scenarios_checked"] = n
    chk.clause("Stream!ChunkIndependent", n)
    return n, r.distinct


def generate(chk: Check, b: dict) -> list[dict]:
    cfg = "SPECIFICATION Spec\n" + consts(b, False) + "CHECK_DEADLOCK FALSE\n"
    r = run_tlc(chk.scratch, "Gen_Stream", cfg, timeout=1500, heap=HEAP, env=JVM)
    chk.add_tlc("Gen_Stream", r)
    scen = r.printed.get("SCEN", [])
    chk.require(len(scen) > 0, "Gen_Stream produced no scenario")
    scen.sort(key=lambda s: (s["mode"], s["bytes"]))
    for i, s in enumerate(scen):
        s["id"] = f"{s['mode']}{i:05d}"
        for k in ("chunkings", "alt"):
            s[k] = sorted(s[k], key=lambda c: (len(c), c))
            chk.require(s[k][0] == [], "the unsplit stream is not part of the chunkings")
        chk.require(all(0 <= x <= 255 for x in s["bytes"]), "byte out of range")
    # transition cover actually achieved (labels computed by TLC: StreamCore!CutClass = <<kind, byte before, byte after>>)
    singles: set = set()
    pairs: set = set()
    triples: set = set()
    stale = 0
    for s in scen:
        cl = ["/".join(c) for c in s["classes"]]
        for c in s["chunkings"]:
            k = [cl[x - 1] for x in c]
            singles.update(k)
            if len(k) <= 3:  # (all-subset chunkings of short streams are not itemised)
                pairs.update((k[i], k[j]) for i in range(len(k)) for j in range(i + 1, len(k)))
                triples.update((k[i], k[j], k[m]) for i in range(len(k)) for j in range(i + 1, len(k)) for m in range(j + 1, len(k)))
            # a cut right after a bare CR (next byte not LF) followed by a later cut right before an LF that is not part of a CRLF
            a = [i for i, x in enumerate(c) if s["classes"][x - 1][1] == "cr" and s["classes"][x - 1][2] != "lf"]
            if a and any(s["classes"][x - 1][2] == "lf" and s["classes"][x - 1][1] != "cr" for x in c[a[0] + 1 :]):
                stale += 1
    chk.cov["cut_classes_covered"] = {"single": len(singles), "ordered_pairs": len(pairs), "ordered_triples": len(triples)}
    chk.cov["chunkings_cut_after_bare_cr_then_before_lf"] = stale
    chk.cov["streams_by_rule"] = {r: sum(1 for s in scen if s["rule"] == r) for r in ("bounded", "cover")}
    chk.require(stale > 0, "no chunking cuts after a bare CR and later before an LF: the mixed-terminator family does not exercise the mechanism")
    return scen


def ctype_of(mode: str, suffix: str | None) -> str | None:
    return None if suffix is None else BASE_CT[mode] + suffix


def observe(chk: Check, scen: list[dict], headers: list[tuple] = HEADERS) -> list[dict]:
    """One trace per (stream, Content-Type)."""
    jobs = []
    meta = {}
    for s in scen:
        for name, suffix, charset, judge_spec, which in headers:
            jid = f"{s['id']}/{name}"
            jobs.append({"id": jid, "mode": s["mode"], "bytes": s["bytes"], "ctype": ctype_of(s["mode"], suffix), "chunkings": s[which]})
            meta[jid] = (s, name, charset, judge_spec)
    order = sorted(jobs, key=lambda j: -len(j["chunkings"]) * (3 if j["mode"] == "sse" else 2))
    res = {r["id"]: r for r in core.parallel_py(chk.scratch, "harness.w_stream", order)}
    traces = []
    for j in jobs:
        r = res[j["id"]]
        s, name, charset, judge_spec = meta[j["id"]]
        note_absent(chk, r["absent"])
        chk.require(any(d["name"] != "iter_bytes" for d in r["dec"]), f"no event/record helper to drive for mode {s['mode']}")
        chk.cov["helper_runs"] = chk.cov.get("helper_runs", 0) + r["runs"]
        chk.cov["iter_bytes_boundaries_preserved"] = chk.cov.get("iter_bytes_boundaries_preserved", 0) + r.get("same_chunks", 0)
        traces.append({"id": j["id"], "kind": "single", "mode": s["mode"], "bytes": s["bytes"], "header": name, "ctype": j["ctype"] or "", "charset": charset, "judgeSpec": judge_spec, "chunkings": j["chunkings"], "dec": r["dec"]})
    return traces


def note_absent(chk: Check, names: list[str]) -> None:
    for a in names:
        lst = chk.cov.setdefault("helpers_absent", [])
        if a not in lst:
            lst.append(a)


# ---------------------------------------------------------------------------------------------
# two streams in one process


def pair_schedules(chk: Check, b: dict) -> list[dict]:
    cfg = (
        f"SPECIFICATION Spec\nCONSTANTS\n PairScenarios <- MCPairs\n Tier = {b['tier']}\n PairMaxCuts = {b['pcuts']}\n AllowAbort = TRUE\n"
        "INVARIANT StreamsIndependent\nCHECK_DEADLOCK FALSE\n"
    )
    r = run_tlc(chk.scratch, "MC_StreamPair", cfg, allow_violation=True, timeout=1500, heap=HEAP, env=JVM)
    chk.add_tlc(f"MC_StreamPair[tier={b['tier']},cuts<={b['pcuts']}]", r)
    if r.violated:
        chk.fail("C18.design_invariant", {"invariant": r.violated[0]}, {"bounds": b}, r.out[-2500:])
        return []
    sch = r.printed.get("SCHED", [])
    chk.require(len(sch) > 0, "MC_StreamPair printed no schedule")
    chk.require(any(s["mid"] for s in sch), "no schedule switches streams while an event is partly received")
    chk.require(any(x % 10 == 2 for s in sch for x in s["sched"]), "no schedule abandons a stream")
    chk.clause("StreamPair!StreamsIndependent", len(sch))
    sch.sort(key=lambda s: json.dumps([s["am"], s["ab"], s["bm"], s["bb"], s["c1"], s["c2"], s["sched"]]))
    return sch


def helper_combos(am: str, bm: str, n: int) -> list[tuple[str, str]]:
    one = {"sse": "iter_sse", "ndjson": "iter_ndjson"}
    if am == "sse" and bm == "sse":
        return [("iter_sse", "iter_sse"), ("iter_sse", "iter_sse_events_text"), ("iter_sse_events_text", "iter_sse")][:n]
    return [(one[am], one[bm])]


def observe_pairs(chk: Check, sch: list[dict], b: dict, piece: int = 400) -> list[dict]:
    groups: dict[str, list[dict]] = {}
    for s in sch:
        groups.setdefault(json.dumps([s["am"], s["ab"], s["bm"], s["bb"]]), []).append(s)
    jobs = []
    for gi, (key, runs) in enumerate(sorted(groups.items())):
        am, ab, bm, bb = json.loads(key)
        for ha, hb in helper_combos(am, bm, b["combos"]):
            for lo in range(0, len(runs), piece):
                part = runs[lo : lo + piece]
                jobs.append({
                    "id": f"pair{gi}:{ha}+{hb}:{lo}", "kind": "pair",
                    "streams": [{"mode": am, "bytes": ab, "helper": ha}, {"mode": bm, "bytes": bb, "helper": hb}],
                    "runs": [{"c1": s["c1"], "c2": s["c2"], "sched": s["sched"], "mid": s["mid"]} for s in part],
                })
    res = core.parallel_py(chk.scratch, "harness.w_stream", jobs)
    traces = []
    for j, r in zip(jobs, res):
        note_absent(chk, r["absent"])
        if r["absent"]:
            continue
        chk.cov["helper_runs"] = chk.cov.get("helper_runs", 0) + 2 * r["runs"]
        traces.append({"id": j["id"], "kind": "pair", "s": j["streams"], "runs": j["runs"], "ref": r["ref"], "outs": r["outs"], "idx": r["idx"]})
    chk.require(len(traces) > 0, "no two-stream scenario could be driven")
    return traces


# ---------------------------------------------------------------------------------------------
# long streams


def long_family(chk: Check, b: dict) -> list[dict]:
    cfg = f"SPECIFICATION Spec\nCONSTANTS\n Tier = {b['tier']}\nINVARIANT LawHolds\nINVARIANT MachineAgrees\nINVARIANT LawsApply\nCHECK_DEADLOCK FALSE\n"
    r = run_tlc(chk.scratch, "MC_StreamLong", cfg, allow_violation=True, timeout=1500, heap=HEAP, env=JVM)
    chk.add_tlc(f"MC_StreamLong[tier={b['tier']}]", r)
    if r.violated:
        chk.fail("C18.design_invariant", {"invariant": r.violated[0]}, {"bounds": b}, r.out[-2500:])
        return []
    fam = r.printed.get("LONG", [])
    chk.require(len(fam) > 0, "MC_StreamLong printed no long stream")
    chk.require(all(x["liftable"] for x in fam), "a long stream of the family is outside the domain of the lifting laws")
    chk.require(r.distinct > 2 * len(fam), "no instance of the lifting laws was checked")
    chk.clause("StreamCore!ExpectedLong laws", r.distinct - 2 * len(fam))
    fam.sort(key=lambda x: (x["L"]["name"], x["total"]))
    for i, x in enumerate(fam):
        x["id"] = f"long{i:02d}:{x['L']['name']}:{x['total']}"
        x["chunkings"].sort(key=lambda c: (len(c["cuts"]), c["label"], c["size"]))
        chk.require(x["chunkings"][0]["cuts"] == [], "the unsplit run is not part of a long stream's chunkings")
    chk.require(max(x["total"] for x in fam) > 65536 * 2, "no long stream well beyond 64 Ki")
    return fam


def observe_long(chk: Check, fam: list[dict]) -> list[dict]:
    jobs = [{"id": x["id"], "kind": "long", "L": x["L"], "chunkings": [{"cuts": c["cuts"]} for c in x["chunkings"]]} for x in fam]
    order = sorted(jobs, key=lambda j: -j["L"]["reps"] * (len(j["L"]["pre"]) + j["L"]["m"] + len(j["L"]["post"])))
    res = {r["id"]: r for r in core.parallel_py(chk.scratch, "harness.w_stream", order)}
    traces = []
    for x in fam:
        r = res[x["id"]]
        note_absent(chk, r["absent"])
        chk.require(r["total"] == x["total"], "long stream built with a different length than the specification's")
        chk.cov["helper_runs"] = chk.cov.get("helper_runs", 0) + r["runs"]
        traces.append({"id": x["id"], "kind": "long", "L": x["L"], "total": x["total"], "labels": [{"label": c["label"], "size": c["size"]} for c in x["chunkings"]], "dec": r["dec"], "_cuts": [c["cuts"] for c in x["chunkings"]]})
    return traces


def account_long(chk: Check, t: dict, v: dict) -> None:
    ndec = len(t["dec"])
    chk.cov["traces_validated_against_impl"] += v["nruns"] * ndec
    chk.count(v["nruns"])
    chk.cov["long_stream_runs"] = chk.cov.get("long_stream_runs", 0) + v["nruns"]
    ls = chk.cov.setdefault("long_streams", [])
    ls.append({"shape": t["L"]["name"], "bytes": t["total"], "items": v["nitems"], "chunkings": v["nruns"]})
    for j in range(1, v["nruns"]):
        chk.nontrivial(f"{v['id']}#{j}")
    for dd in t["dec"]:
        if dd["name"] == "iter_bytes":
            chk.clause("C18.bytes_concat", v["nruns"])
        else:
            chk.clause("C18.differs_from_unsplit", v["nruns"] - 1)
            chk.clause("C18.differs_from_spec", 1 if v["liftable"] else 0)
    thr = max([x for x in (4096, 8192, 65536, 262144, 1048576) if x <= t["total"]] or [0])
    for fl in (f for per_helper in v["fails"] for f in per_helper):
        loc = {"helper": fl["dec"], "relative_to": fl["rel"], "error": fl["err"], "stream": "long", "length_at_least": thr, "chunking": fl["label"] + (f"-{fl['size']}" if fl["size"] else ""), "differs_in": fl["field"]}
        scen = {"kind": "long", "L": t["L"], "total": t["total"], "label": fl["label"], "size": fl["size"], "cuts": t["_cuts"][fl["run"] - 1], "helper": fl["dec"]}
        chk.fail(fl["clause"], loc, scen, f"{fl['dec']} on long stream {t['L']['name']} ({t['total']} bytes), chunking {loc['chunking']} ({len(scen['cuts'])} cuts): {fl['nobs']} items, {'the unsplit run' if fl['rel'] == 'unsplit' else 'the lifted whole-stream meaning'} has {fl['nexp']} (error: {fl['err']})")


def text_of(bs: list[int]) -> str:
    return bytes(bs).decode("utf-8", "backslashreplace").encode("unicode_escape").decode("ascii")


# ---------------------------------------------------------------------------------------------
# judging


def judge(chk: Check, traces: list[dict], label: str) -> None:
    by_id = {t["id"]: t for t in traces}
    batches: list[list[dict]] = [[]]
    size = 0
    for t in traces:
        n = len(t["chunkings"]) if t["kind"] == "single" else 3 * len(t["runs"]) if t["kind"] == "pair" else 2000
        if batches[-1] and size + n > BATCH_PAIRS[chk.tier]:
            batches.append([])
            size = 0
        batches[-1].append(t)
        size += n
    for lo, part in enumerate(batches):
        d = chk.scratch.sub("str")
        tf = d / "traces.ndjson"
        with tf.open("w") as f:
            for t in part:
                f.write(json.dumps({k: x for k, x in t.items() if not k.startswith("_")}, separators=(",", ":")) + "\n")
        r = run_tlc(chk.scratch, "Trace_Stream", "SPECIFICATION Spec\nCHECK_DEADLOCK FALSE\n", env={"TRACE_FILE": str(tf), **JVM}, timeout=1500, heap=HEAP)
        chk.add_tlc(f"Trace_Stream[{label}:{lo}]", r)
        vs = r.printed.get("VERDICT", [])
        chk.require(len(vs) == len(part) and {v["id"] for v in vs} == {t["id"] for t in part}, f"monitor produced {len(vs)} verdicts for {len(part)} traces")
        tf.unlink()
        for v in vs:
            if v["kind"] == "pair":
                account_pair(chk, by_id[v["id"]], v)
            elif v["kind"] == "long":
                account_long(chk, by_id[v["id"]], v)
            else:
                account_single(chk, by_id[v["id"]], v)
    singles = [t for t in traces if t["kind"] == "single" and t["header"] == "none"]
    if singles:
        t = singles[len(singles) // 2]
        chk.sample({"stream": text_of(t["bytes"]), "mode": t["mode"], "bytes": t["bytes"], "chunkings": len(t["chunkings"]), "example_chunking": t["chunkings"][-1], "observed": {d["name"]: {"distinct_outputs": len(d["outs"]), "unsplit": show(d["outs"][d["idx"][0] - 1])} for d in t["dec"]}})
    pairs = [t for t in traces if t["kind"] == "pair"]
    if pairs:
        t = pairs[len(pairs) // 2]
        chk.sample({"two_streams": [text_of(x["bytes"]) for x in t["s"]], "helpers": [x["helper"] for x in t["s"]], "schedules": len(t["runs"]), "example_schedule": t["runs"][len(t["runs"]) // 2], "alone": [show(o) for o in t["ref"]]})


def account_single(chk: Check, t: dict, v: dict) -> None:
    ndec = len(t["dec"])
    default = t["header"] == "none"
    chk.cov["traces_validated_against_impl"] += v["nruns"] * ndec
    chk.count(v["nruns"])
    chk.cov["scenarios_replayed"] = chk.cov.get("scenarios_replayed", 0) + v["nruns"]
    hk = chk.cov.setdefault("scenarios_by_content_type", {})
    hk[t["header"]] = hk.get(t["header"], 0) + v["nruns"]
    for j in range(v["inner"]):
        chk.nontrivial(f"{v['id']}#{j}")
    kc = chk.cov.setdefault("pairs_with_cut_kind" if default else "alt_header_scenarios_with_cut_kind", {})
    for k, n in v["byKind"].items():
        kc[k] = kc.get(k, 0) + n
    for dd in t["dec"]:
        if dd["name"] == "iter_bytes":
            chk.clause("C18.bytes_concat", v["nruns"])
        else:
            chk.clause("C18.differs_from_unsplit", v["nruns"] - 1)
            chk.clause("C18.differs_from_spec", 1 if t["judgeSpec"] else 0)
            chk.clause("C18.order", v["nruns"] if v["nitems"] > 1 else 0)
            chk.clause("C18.last_event_lost", v["nruns"] if v["lastopen"] else 0)
    if v["commentOnly"] and default:
        key = "comment_only_block_streams_delivering_empty_event" if v["commentOnlyDelivered"] else "comment_only_block_streams_delivering_nothing"
        chk.cov[key] = chk.cov.get(key, 0) + 1
    if v["specdrift"]:
        n = chk.cov["model_drift_under_declared_charset"] = chk.cov.get("model_drift_under_declared_charset", 0) + 1
        if n <= 2:
            chk.note_drift(f"under Content-Type {t['ctype']!r} the unsplit run of {text_of(t['bytes'])!r} is not what StreamCore.tla predicts for charset class {t['charset']} (no clause depends on it)")
    for fl in (f for per_helper in v["fails"] for f in per_helper):
        loc: dict[str, Any] = {"helper": fl["dec"], "relative_to": fl["rel"], "error": fl["err"], "content_type": t["header"]}
        if fl["rel"] == "unsplit":
            loc["cut_kinds"] = sorted(fl["kinds"])
        else:
            loc["differs_in"] = fl["field"]
        scen = {"mode": t["mode"], "bytes": t["bytes"], "text": text_of(t["bytes"]), "header": t["header"], "ctype": t["ctype"], "cuts": fl["cuts"], "helper": fl["dec"]}
        dd = next(x for x in t["dec"] if x["name"] == fl["dec"])
        got = dd["outs"][dd["idx"][t["chunkings"].index(fl["cuts"])] - 1]
        ref = "the unsplit run" if fl["rel"] == "unsplit" else "the whole-stream meaning (StreamCore.tla)"
        chk.fail(fl["clause"], loc, scen, f"{fl['dec']} (Content-Type {t['ctype'] or 'absent'}) on {text_of(t['bytes'])!r} cut at {fl['cuts']} yielded {show(got)}; {ref} gives {show({'items': fl['exp'], 'err': 'none'})}")


def account_pair(chk: Check, t: dict, v: dict) -> None:
    chk.cov["traces_validated_against_impl"] += 2 * v["nruns"]
    chk.count(v["nruns"])
    for k_cov, k_v in (("schedules_replayed", "nruns"), ("schedules_switching_mid_event", "nmid"), ("schedules_sequential", "nseq"), ("schedules_with_abandoned_stream", "nabort")):
        chk.cov[k_cov] = chk.cov.get(k_cov, 0) + v[k_v]
    chk.clause("C18.streams_interfere", 2 * v["nruns"])
    for j in range(v["nmid"]):
        chk.nontrivial(f"{v['id']}#{j}")
    for fl in (f for side in v["fails"] for f in side):
        i = fl["side"] - 1
        loc = {"helper": fl["dec"], "other_helper": fl["other"], "history": fl["history"], "other_abandoned": fl["otherAborted"], "self_abandoned": fl["selfAborted"], "error": fl["err"]}
        run = t["runs"][fl["run"] - 1] if fl["run"] else {"c1": [], "c2": [], "sched": []}
        scen = {"kind": "pair", "streams": t["s"], "texts": [text_of(x["bytes"]) for x in t["s"]], "run": run, "side": fl["side"]}
        got = t["outs"][i][t["idx"][i][fl["run"] - 1] - 1] if fl["run"] else t["ref"][i]
        chk.fail(fl["clause"], loc, scen, f"stream {fl['side']} {text_of(t['s'][i]['bytes'])!r} ({fl['dec']}) next to {text_of(t['s'][1 - i]['bytes'])!r} ({fl['other']}), cuts {run['c1']}/{run['c2']}, schedule {run['sched']}: yielded {show(got)}; alone it yields {show({'items': fl['exp'], 'err': 'none'})} [{fl['nbad']} schedule(s) differ]")


def show(o: dict) -> str:
    def txt(x: Any) -> Any:
        if isinstance(x, list) and all(isinstance(c, int) for c in x):
            return "<none>" if x == [-1] else "".join(chr(c) if 0 <= c < 0x110000 else "?" for c in x)
        if isinstance(x, dict):
            return {k: txt(v) for k, v in x.items()}
        return x

    items = [txt(i) for i in o["items"]]
    return json.dumps({"items": items, "err": o["err"]}, ensure_ascii=True)[:400]


def run(chk: Check) -> None:
    b = BOUNDS[chk.tier]
    chk.cov["rule"] = (
        f"streams from the grammar of specs/StreamFamily.tla (Tier={b['tier']}: SSE 1-3 blocks x block shapes x payloads incl. empty, "
        f"{'2/3' if b['tier'] == 1 else '2/3/4'}-byte characters, trailing blank x LF/CRLF{'/alternating' if b['tier'] > 1 else ''} x last block closed / line-terminated / cut; NDJSON 1-3 records x LF/CRLF x "
        f"blank line between x last record terminated or not; plus every per-line assignment of LF / bare CR / CRLF to the lines of fixed SSE and NDJSON shapes, "
        f"chunked by a TLC-computed transition cover of depth {b['depth']} over cut classes <<machine state kind, byte before, byte after>>); chunkings of the other streams: every subset of cut points for streams <= {b['full']} bytes, "
        f"every chunking with <= {b['cuts']} cuts beyond (response without Content-Type); under each of 5 further Content-Types (no charset, utf-8, "
        f"ISO-8859-1, latin-1, unknown charset) every subset for streams <= {b['afull']} bytes and every chunking with <= {b['acuts']} cuts beyond; "
        f"two streams in one event loop: every interleaving of their chunks (<= {b['pcuts']} key cuts per stream or a cut at every line boundary), "
        "stream 1 also abandoned after any chunk; long streams (repeated units and single long lines passing 4 Ki / 64 Ki / 256 Ki"
        f"{' / 1 Mi' if b['tier'] > 1 else ''}) in fixed 1460 / 4096 / 16384 / 65536-byte chunks, two halves and boundaries around every threshold; each scenario is (i) explored by the TLC design check and (ii) replayed on the "
        "real helpers; non-trivial = (stream, header, chunking) with at least one cut strictly inside an event / record "
        "(StreamCore!CutKind # at_rest) or schedule that switches streams while an event is partly received (StreamPair!mid)"
    )
    chk.assumptions += [
        "streams are valid UTF-8 with LF / CRLF / bare-CR terminators (BOM, invalid UTF-8, other Unicode line separators are outside the property's statement); for NDJSON with a bare CR only the chunk-independence relation is a clause (the whole-stream meaning is compared as DRIFT)",
        "comment-only blocks: the monitor accepts both 'empty event delivered' and 'nothing delivered' (the property fixes only blocks with >= 1 field line); which one the code does is recorded",
        "NDJSON values are compared through their canonical JSON text (family records are canonical under json.dumps(ensure_ascii=False, separators=(',',':')))",
        "iter_bytes is judged on the concatenation of what it yields; whether chunk boundaries are preserved is recorded, not judged",
        "under a declared non-UTF-8 or unknown charset only the chunk-independence relation (same items as the unsplit run under the same header) is a clause; the model's prediction for that charset is compared as DRIFT only",
        "an abandoned stream is one whose transport raises httpx.ReadError instead of delivering its next chunk",
        "long streams are described symbolically ((pre + fill^m + post)^reps); their expected items are the short twin's whole-stream meaning lifted by the repetition and stretching laws that MC_StreamLong checks for small m and reps",
    ]
    n_mc, states_mc = design(chk, b)
    scen = generate(chk, b)
    n_main = sum(len(s["chunkings"]) for s in scen)
    n_alt = sum(len(s["alt"]) for s in scen)
    chk.cov["streams"] = len(scen)
    chk.cov["streams_by_mode"] = {m: sum(1 for s in scen if s["mode"] == m) for m in ("sse", "ndjson")}
    chk.cov["pairs_generated"] = n_main
    chk.cov["alt_chunkings_generated"] = n_alt
    if n_mc:
        chk.require(n_mc == n_main + n_alt, f"design check explored {n_mc} scenarios but the generator emitted {n_main} + {n_alt}")
        # every scenario contributes its initial state, one Deliver per chunk and one Close: the design run is not
        # vacuous exactly when it found that many distinct states
        want = sum(len(c) + 3 for s in scen for k in ("chunkings", "alt") for c in s[k])
        chk.require(states_mc == want, f"design run found {states_mc} distinct states, {want} expected (one Deliver per chunk and one Close per scenario)")
    sch = pair_schedules(chk, b)
    longs = long_family(chk, b)
    traces = observe(chk, scen)
    if sch:
        traces = observe_pairs(chk, sch, b) + traces
    if longs:
        traces = observe_long(chk, longs) + traces
    judge(chk, traces, "family")
    if longs:
        chk.require(chk.cov.get("long_stream_runs", 0) == sum(len(x["chunkings"]) for x in longs), "not every long-stream chunking was replayed and judged")
    kc = chk.cov.get("pairs_with_cut_kind", {})
    ka = chk.cov.get("alt_header_scenarios_with_cut_kind", {})
    for k in MUST_KINDS:
        chk.require(kc.get(k, 0) > 0, f"no chunking with a cut of kind {k}: the family does not exercise the mechanism")
    chk.require(ka.get("in_char", 0) > 0 and ka.get("cr_lf", 0) > 0, "no cut inside a character / terminator under the alternative Content-Types")
    chk.require(chk.cov.get("scenarios_replayed", 0) == n_main + (len(HEADERS) - 1) * n_alt, "not every generated scenario was replayed and judged")
    if sch:
        ncombo = chk.cov.get("schedules_replayed", 0)
        chk.require(ncombo >= len(sch), "not every schedule was replayed and judged")
        chk.require(chk.cov.get("schedules_switching_mid_event", 0) > 0 and chk.cov.get("schedules_with_abandoned_stream", 0) > 0, "two-stream family does not exercise the mechanism")
    chk.cov["exhaustive"] = True


def replay(chk: Check, path: str) -> None:
    rec = json.loads(open(path).read())
    sc = rec["scenario"]
    if sc.get("kind") == "long":
        x = {"id": "replay", "L": sc["L"], "total": sc["total"], "chunkings": [{"label": "unsplit", "size": 0, "cuts": []}, {"label": sc["label"], "size": sc["size"], "cuts": sc["cuts"]}]}
        traces = observe_long(chk, [x])
        for d in traces[0]["dec"]:
            for c, i in zip(x["chunkings"], d["idx"]):
                o = d["outs"][i - 1]
                print(f"REPLAY {d['name']} chunking={c['label']}{c['size'] or ''} ({len(c['cuts'])} cuts) -> {o['items']['n']} items, period {len(o['items']['period'])}, err {o['err']}")
        judge(chk, traces, "replay")
    elif sc.get("kind") == "pair":
        job = {"id": "replay", "kind": "pair", "streams": sc["streams"], "runs": [dict(sc["run"], mid=bool(sc["run"].get("mid", False)))]}
        r = core.parallel_py(chk.scratch, "harness.w_stream", [job])[0]
        t = {"id": "replay", "kind": "pair", "s": job["streams"], "runs": job["runs"], "ref": r["ref"], "outs": r["outs"], "idx": r["idx"]}
        for i in (0, 1):
            print(f"REPLAY stream {i + 1} {sc['streams'][i]['helper']} alone -> {show(r['ref'][i])}")
            print(f"REPLAY stream {i + 1} {sc['streams'][i]['helper']} schedule {sc['run']['sched']} -> {show(r['outs'][i][r['idx'][i][0] - 1])}")
        judge(chk, [t], "replay")
    else:
        if "bytes" not in sc:
            raise core.MachineryError("replay file carries no stream (design-level counterexamples are re-run by the full check)")
        chunkings = [[]] + ([sc["cuts"]] if sc.get("cuts") else [])
        s = {"id": "replay", "mode": sc["mode"], "bytes": sc["bytes"], "chunkings": chunkings, "alt": chunkings}
        hdr = [h for h in HEADERS if h[0] == sc.get("header", "none")] or HEADERS[:1]
        traces = observe(chk, [s], [(hdr[0][0], hdr[0][1], hdr[0][2], hdr[0][3], "chunkings")])
        for d in traces[0]["dec"]:
            for c, i in zip(chunkings, d["idx"]):
                print(f"REPLAY {d['name']} Content-Type={traces[0]['ctype'] or 'absent'} cuts={c} -> {show(d['outs'][i - 1])}")
        judge(chk, traces, "replay")
    for f in chk.fails:
        print("REPLAY-FAIL", f["clause"], json.dumps(f["locus"]), f["detail"][:300])
