"""Abstract schema-node trees for specs/SchemaParse.tla, built from a concrete components.schemas mapping by plain
structural inspection.  The NAMES the parser derives for nested nodes (contextual property names, dotted allOf names,
item names) are computed here with plain string operations - they are inputs of the model, not part of it."""

from __future__ import annotations

import hashlib
import json
import re
from typing import Any

NONE = "__none__"
PRIMS = ("string", "integer", "number", "boolean")


def san_class(s: str) -> str:
    """PascalCase as the parser derives it for nested names (word split on case boundaries, each word capitalised:
    `AP1Item` -> `Ap1Item`).  Model input only: a disagreement with the code shows up as DRIFT, never as a verdict."""
    words = re.findall(r"[A-Z]+(?=[A-Z][a-z])|[A-Z]?[a-z]+|[A-Z]+|[0-9]+", s)
    if not words:
        words = [p for p in re.split(r"[^a-zA-Z0-9]+", s) if p]
    out = "".join(w.capitalize() for w in words if w) or "UnnamedClass"
    if out[0].isdigit():
        out = "_" + out
    return out


def _blank() -> dict[str, Any]:
    return {"k": "schema", "to": "", "type": "none", "hasProps": False, "hasDesc": False, "isEnum": False, "props": [], "allOf": [], "oneOf": [], "anyOf": [], "items": [], "addl": [], "iname": NONE, "nid": NONE, "ch": NONE}


class Builder:
    def __init__(self) -> None:
        self.names: set[str] = set()

    def node(self, j: Any, name: str | None, nid: str = NONE) -> dict[str, Any]:
        n = _blank()
        n["nid"] = nid  # identity of the raw node (its path in the document): SchemaParse records which node an entry was built from
        n["ch"] = hashlib.sha1(json.dumps(j, sort_keys=True, default=str).encode()).hexdigest()[:12]  # content: two equal nodes mean the same
        if name:
            self.names.add(name)
        if not isinstance(j, dict):
            n["k"] = "null"
            return n
        if "$ref" in j:
            n["k"] = "ref"
            n["to"] = str(j["$ref"]).split("/")[-1]
            return n
        t = j.get("type")
        n["type"] = t if isinstance(t, str) else "none"
        n["hasProps"] = "properties" in j
        n["hasDesc"] = "description" in j
        n["isEnum"] = "enum" in j
        has_allof = "allOf" in j
        sname = san_class(name) if name else None
        for key, pj in (j.get("properties") or {}).items():
            sp = san_class(key)
            if sname:
                cname = sp if sp.lower().startswith(sname.lower()) else f"{sname}{sp}"
            else:
                cname = sp
            dname = f"{name}.{key}" if name else key
            is_map = isinstance(pj, dict)
            inline_obj = is_map and pj.get("type") == "object" and "$ref" not in pj and ("properties" in pj or "description" in pj)
            if has_allof:
                ctx: str | None = dname
                pname = NONE
            elif is_map and "$ref" in pj:
                ctx, pname = None, NONE
            elif inline_obj and sname:
                ctx = f"{sname}{sp}"
                pname = ctx
            else:
                comp = is_map and any(k in pj for k in ("allOf", "anyOf", "oneOf"))
                simple_prim = is_map and pj.get("type") in PRIMS and not comp and not any(k in pj for k in ("$ref", "properties", "items", "enum"))
                items = pj.get("items", {}) if is_map else {}
                icomp = isinstance(items, dict) and any(k in items for k in ("allOf", "anyOf", "oneOf"))
                prim_items = isinstance(items, dict) and items.get("type") in PRIMS and not icomp and "$ref" not in items and "properties" not in items
                typeless_items = isinstance(items, dict) and not items.get("type") and not icomp and "$ref" not in items and "properties" not in items
                simple_arr = is_map and pj.get("type") == "array" and not comp and "$ref" not in pj and "properties" not in pj and isinstance(pj.get("items"), dict) and ("$ref" in items or prim_items or typeless_items)
                ctx = None if (simple_prim or simple_arr) else cname
                pname = ctx or NONE
            self.names.add(dname)
            if pname != NONE:
                self.names.add(pname)
            n["props"].append({"key": key, "pname": pname, "dname": dname, "node": self.node(pj, ctx, f"{nid}/p:{key}")})
        for kw in ("allOf", "oneOf", "anyOf"):
            for m in j.get(kw) or []:
                n[kw].append(self.node(m, None, f"{nid}/{kw}{len(n[kw])}"))
        it = j.get("items")
        if n["type"] == "array" and isinstance(it, dict) and it:
            comp = any(k in it for k in ("allOf", "anyOf", "oneOf"))
            if "$ref" in it or it.get("type") in PRIMS:
                iname = NONE
            elif not it.get("type") and not comp and "properties" not in it:
                iname = NONE  # typeless: no parse at all (the model tests the same condition)
            else:
                iname = san_class(f"{name or 'AnonymousArray'}Item")
                self.names.add(iname)
            n["iname"] = iname
            n["items"] = [self.node(it, None if iname == NONE else iname, f"{nid}/items")]
        ap = j.get("additionalProperties")
        if isinstance(ap, dict):
            n["addl"] = [self.node(ap, None, f"{nid}/addl")]
        return n


def build_raw(schemas: dict[str, Any]) -> tuple[dict[str, Any], list[str]]:
    b = Builder()
    raw = {name: b.node(j, name, name) for name, j in schemas.items()}
    return raw, sorted(b.names)
