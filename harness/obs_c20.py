"""Extra observer for C20, loaded into harness.w_obs through VERIF_OBS_EXTRA=harness.obs_c20.

Observation "naming" of one emitted package:
  endpoints: per endpoints/*.py file
     ast   : every `def` of every class, in source order, duplicates kept: name, argument names (duplicates kept),
             OPTOK<n> tokens of its docstring, (wire key -> python variable) pairs read from the dict literals of
             its body.  ast.parse accepts `def f(a, a)` (the duplicate-argument check is done later by the
             compiler), so the signature is observable even when the module does not compile.
     live  : when the module imports - per class the functions really present (vars(cls)), their
             inspect.signature parameter names and docstring tokens.
  models_pkg: what `<pkg>.models` exports: name -> wire keys (Meta) of the dataclass bound to that name.

Must not import pyopenapi_gen nor harness.core.
"""

from __future__ import annotations

import ast
import dataclasses
import importlib
import inspect
import re
import sys
from typing import Any

from harness.w_obs import module_name, pkg_dir, short_exc

TOKEN = re.compile(r"OPTOK\d+")


def _wiremap(fn: ast.AST, args: set[str]) -> list[list[str]]:
    out = []
    for node in ast.walk(fn):
        if isinstance(node, ast.Dict):
            for k, v in zip(node.keys, node.values):
                if isinstance(k, ast.Constant) and isinstance(k.value, str):
                    names = {n.id for n in ast.walk(v) if isinstance(n, ast.Name)} & args
                    if len(names) == 1:
                        out.append([k.value, sorted(names)[0]])
    return out


def _wires(obj: type) -> list[str]:
    if not dataclasses.is_dataclass(obj):
        return []
    meta = getattr(obj, "Meta", None)
    dump = dict(getattr(meta, "key_transform_with_dump", {}) or {}) if meta else {}
    return [dump.get(f.name, f.name) for f in dataclasses.fields(obj)]


def _const_pairs(d: ast.AST) -> list[list]:
    out = []
    if isinstance(d, ast.Dict):
        for k, v in zip(d.keys, d.values):
            if isinstance(k, ast.Constant) and isinstance(v, ast.Constant):
                out.append([k.value, v.value])
    return out


def _ast_model_classes(src: str) -> list[dict]:
    classes = []
    for node in ast.parse(src).body:
        if not isinstance(node, ast.ClassDef):
            continue
        rec: dict[str, Any] = {"name": node.name, "bases": [b.id for b in node.bases if isinstance(b, ast.Name)], "fields": [], "assigns": [], "load": [], "dump": []}
        for it in node.body:
            if isinstance(it, ast.AnnAssign) and isinstance(it.target, ast.Name):
                rec["fields"].append(it.target.id)
            elif isinstance(it, ast.Assign) and len(it.targets) == 1 and isinstance(it.targets[0], ast.Name):
                v = it.value
                if isinstance(v, ast.UnaryOp) and isinstance(v.op, ast.USub) and isinstance(v.operand, ast.Constant):
                    rec["assigns"].append([it.targets[0].id, -v.operand.value])
                elif isinstance(v, ast.Constant):
                    rec["assigns"].append([it.targets[0].id, v.value])
            elif isinstance(it, ast.ClassDef) and it.name == "Meta":
                for m in it.body:
                    if isinstance(m, ast.Assign) and len(m.targets) == 1 and isinstance(m.targets[0], ast.Name):
                        if m.targets[0].id == "key_transform_with_load":
                            rec["load"] = _const_pairs(m.value)
                        elif m.targets[0].id == "key_transform_with_dump":
                            rec["dump"] = _const_pairs(m.value)
        classes.append(rec)
    return classes


def _ast_classes(src: str) -> list[dict]:
    tree = ast.parse(src)
    classes = []
    for node in tree.body:
        if not isinstance(node, ast.ClassDef):
            continue
        methods = []
        for it in node.body:
            if isinstance(it, (ast.FunctionDef, ast.AsyncFunctionDef)):
                a = it.args
                argnames = [x.arg for x in a.posonlyargs + a.args + a.kwonlyargs]
                if argnames[:1] == ["self"]:
                    argnames = argnames[1:]
                doc = ast.get_docstring(it) or ""
                methods.append({"name": it.name, "args": argnames, "tokens": TOKEN.findall(doc), "wiremap": _wiremap(it, set(argnames))})
        classes.append({"name": node.name, "methods": methods})
    return classes


def obs_naming(job: dict) -> Any:
    out: dict[str, Any] = {"endpoints": [], "models_pkg": {"ok": False, "names": {}}}
    pdir = pkg_dir(job["root"], job["pkg"])
    edir = pdir / "endpoints"
    if edir.exists():
        for p in sorted(edir.glob("*.py")):
            if p.name == "__init__.py":
                continue
            rec: dict[str, Any] = {"file": p.name, "parse_ok": False, "classes": [], "import_ok": False, "live": {}}
            try:
                rec["classes"] = _ast_classes(p.read_text())
                rec["parse_ok"] = True
            except SyntaxError as e:
                rec["parse_err"] = f"{e.msg} (line {e.lineno})"
            m = module_name(job["root"], p)
            try:
                mod = sys.modules.get(m) or importlib.import_module(m)
                rec["import_ok"] = True
                for cn, cls in vars(mod).items():
                    if isinstance(cls, type) and cls.__module__ == m:
                        fns = {}
                        for fname, fn in vars(cls).items():
                            if inspect.isfunction(fn) and not fname.startswith("__"):
                                try:
                                    params = [q for q in inspect.signature(fn).parameters if q != "self"]
                                except (TypeError, ValueError):
                                    params = []
                                fns[fname] = {"params": params, "tokens": TOKEN.findall(fn.__doc__ or "")}
                        rec["live"][cn] = fns
            except BaseException as e:  # noqa: BLE001
                if isinstance(e, KeyboardInterrupt):
                    raise
                rec["import_err"] = short_exc(e)
            out["endpoints"].append(rec)
    # every class defined in a models/*.py module (w_obs's "models" observation skips names with a leading
    # underscore, and `_1` is a legitimate class name for schema `1`)
    out["model_classes"] = []
    out["model_errors"] = []
    mdir = pdir / "models"
    # the same modules as the PARSER sees them (duplicates kept): a member / field that is defined twice is a TypeError
    # or a silent overwrite at import time, but both definitions are in the syntax tree
    out["model_ast"] = []
    if mdir.exists():
        for p in sorted(mdir.glob("*.py")):
            if p.name == "__init__.py":
                continue
            rec = {"file": p.name, "parse_ok": False, "classes": []}
            try:
                rec["classes"] = _ast_model_classes(p.read_text())
                rec["parse_ok"] = True
            except SyntaxError as e:
                rec["parse_err"] = f"{e.msg} (line {e.lineno})"
            out["model_ast"].append(rec)
    if mdir.exists():
        for p in sorted(mdir.glob("*.py")):
            if p.name == "__init__.py":
                continue
            m = module_name(job["root"], p)
            try:
                mod = sys.modules.get(m) or importlib.import_module(m)
            except BaseException as e:  # noqa: BLE001
                if isinstance(e, KeyboardInterrupt):
                    raise
                out["model_errors"].append({"m": m, "exc": short_exc(e)})
                continue
            for nm, obj in vars(mod).items():
                if isinstance(obj, type) and obj.__module__ == m and not (nm.startswith("__") and nm.endswith("__")):
                    out["model_classes"].append({"m": m, "name": nm, "cls": obj.__name__, "wires": _wires(obj)})
    mm = job["pkg"] + ".models"
    try:
        mod = sys.modules.get(mm) or importlib.import_module(mm)
        out["models_pkg"]["ok"] = True
        for nm, obj in vars(mod).items():
            if (nm.startswith("__") and nm.endswith("__")) or not isinstance(obj, type):
                continue
            out["models_pkg"]["names"][nm] = {"cls": obj.__name__, "m": obj.__module__, "wires": _wires(obj)}
    except BaseException as e:  # noqa: BLE001
        if isinstance(e, KeyboardInterrupt):
            raise
        out["models_pkg"]["err"] = short_exc(e)
    return out


def _register() -> None:
    # w_obs runs as `python -m harness.w_obs`, i.e. as module __main__: `harness.w_obs.register` would fill the OBS table
    # of a second copy of the module.  Register in every copy that is loaded.
    import harness.w_obs as w

    for mod in (w, sys.modules.get("__main__")):
        if mod is not None and isinstance(getattr(mod, "OBS", None), dict):
            mod.OBS["naming"] = obs_naming


_register()
