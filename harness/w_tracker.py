"""Worker: replay edges of the CycleTracker state graph (dumped by TLC) on the real UnifiedCycleContext.

stdin: JSON list of jobs {"id", "maxDepth", "edges": [[src_state, action, args, dst_state], ...]}
For every edge the real context is put into the source state, the real function is applied and the projected
state is compared with the destination state of the specification.
"""

from __future__ import annotations

import json
import logging
import os
import sys

logging.disable(logging.CRITICAL)

from harness import core  # noqa: E402

core.install_tree_under_test()

import pyopenapi_gen.core.parsing.unified_cycle_detection as ucd  # noqa: E402

ST = {
    "NS": ucd.SchemaState.NOT_STARTED,
    "IP": ucd.SchemaState.IN_PROGRESS,
    "DONE": ucd.SchemaState.COMPLETED,
    "PH_CYCLE": ucd.SchemaState.PLACEHOLDER_CYCLE,
    "PH_DEPTH": ucd.SchemaState.PLACEHOLDER_DEPTH,
    "PH_SELF": ucd.SchemaState.PLACEHOLDER_SELF_REF,
}
INV = {v: k for k, v in ST.items()}
NONE = "__none__"


def build(state: dict, max_depth: int) -> "ucd.UnifiedCycleContext":
    ctx = ucd.UnifiedCycleContext(max_depth=max_depth)
    ctx.schema_stack = list(state["stack"])
    ctx.schema_states = {n: ST[s] for n, s in state["st"].items() if s != "NS"}
    ctx.recursion_depth = state["depth"]
    for n in state["reg"]:
        ctx.parsed_schemas[n] = ucd.IRSchema(name=n, type="object")
    return ctx


def project(ctx, names) -> dict:
    return {
        "stack": list(ctx.schema_stack),
        "st": {n: INV[ctx.schema_states.get(n, ucd.SchemaState.NOT_STARTED)] for n in names},
        "depth": ctx.recursion_depth,
        "reg": sorted(ctx.parsed_schemas.keys()),
    }


def outcome(res) -> str:
    act = res.action.value
    if act == "create":
        return "create_depth" if (res.cycle_type is not None and res.cycle_type.value == "max_depth") else "create_cycle"
    return act


def run_job(job: dict) -> dict:
    os.environ.pop("PYOPENAPI_MAX_DEPTH", None)
    mismatches = []
    rest_fail = []
    n_edges = 0
    for src, act, args, dst in job["edges"]:
        n_edges += 1
        names = sorted(src["st"].keys())
        ctx = build(src, job["maxDepth"])
        name = None if args[0] == NONE else args[0]
        got_o = "none"
        try:
            if act == "Enter":
                ctx.allow_self_reference = bool(args[1])
                got_o = outcome(ucd.unified_enter_schema(name, ctx))
            else:
                ucd.unified_exit_schema(name, ctx)
            got = project(ctx, names)
            err = None
        except Exception as e:  # noqa: BLE001
            got = None
            err = f"{type(e).__name__}: {e}"
        want = {"stack": dst["stack"], "st": dst["st"], "depth": dst["depth"], "reg": sorted(dst["reg"])}
        if err or got != want or got_o != dst["last"]["o"]:
            if len(mismatches) < 20:
                mismatches.append({"src": src, "act": act, "args": args, "want": want, "want_o": dst["last"]["o"], "got": got, "got_o": got_o, "err": err})
            else:
                mismatches.append(None)
        # property-level evaluation on the REAL post-state (only meaningful in disciplined graphs):
        if job.get("disciplined") and got is not None:
            frames_after = dst["frames"]
            if len(frames_after) == 0:
                at_rest = got["depth"] == 0 and got["stack"] == [] and all(v != "IP" for v in got["st"].values())
                if not at_rest:
                    rest_fail.append({"src": src, "act": act, "args": args, "got": got, "clause": "C08.tracker_rest"})
            if got["depth"] != len(frames_after):
                rest_fail.append({"src": src, "act": act, "args": args, "got": got, "clause": "C08.tracker_depth_count"})
            if len(got["stack"]) > job["maxDepth"]:
                rest_fail.append({"src": src, "act": act, "args": args, "got": got, "clause": "C08.tracker_limit"})
    return {"id": job["id"], "edges": n_edges, "mismatch_count": len(mismatches), "mismatches": [m for m in mismatches if m], "rest_fail": rest_fail[:20], "rest_fail_count": len(rest_fail)}


def main() -> None:
    jobs = json.load(sys.stdin)
    for job in jobs:
        print(json.dumps(run_job(job)), flush=True)


if __name__ == "__main__":
    main()
