"""X03 (beyond the listed properties) - import bookkeeping and relative-import arithmetic.

specs/ImportsCore.tla  package trees as data, PYTHON's resolution and execution of the rendered statements (Resolve / Outcome / Run), the
                       collector as-is and as it should be (Apply / Render), what a call asks for (Intent), the judge (Judge)
specs/Imports.tla      the collector as a state machine (one action per public method, then Render); TLC checks every named
                       statement on the design for small trees, and that the as-is design fails only in the known region
specs/Gen_Imports.tla  TLC prints the trees and the scenarios (context x calls x renderer)
harness/w_imports.py   drives the REAL RenderContext / ImportCollector; on a sample executes the rendered block with the real importer
specs/Trace_Imports.tla judges what the real code rendered (one VERDICT per scenario)

Disagreement between ImportsCore!Run (Outcome, bindings) and the real importer on the sample is a MACHINERY error, never a finding.
"""

from __future__ import annotations

import json
import os
from collections import Counter
from concurrent.futures import ThreadPoolExecutor
from pathlib import Path

from . import core
from .core import Check, MachineryError, run_tlc

LEVEL = "model_checking"

CLAUSES = ["Resolves", "CoreForm", "NoLoss", "TypingComplete", "NoSpurious", "WithinTop", "NoSelfImport", "ExactlyOnce", "Grouped", "OrderIndependent", "RelativeArithmetic"]


class _Sub:
    """A private corner of the check's scratch directory for one concurrent TLC run (Scratch.sub is not thread safe)."""

    def __init__(self, path: Path):
        self.path = path
        self._n = 0

    def sub(self, name: str) -> Path:
        self._n += 1
        p = self.path / f"{self._n:03d}_{name}"
        p.mkdir(parents=True)
        return p


def design(chk: Check, quick: bool):
    """(A) the design check: TLC runs side by side (quick: 3 + 2 + 1 workers while generation / the monitor use 2 more;
    thorough: 3 + 2 + 2 + 1 before anything else runs - never more than 8).  The collector as it should be does not look
    at the file system, so one value of `mat` is enough for it."""
    inv = "".join(f"INVARIANT {c}\n" for c in CLAUSES)

    def cfg(outs: str, calls: int, asis: bool, invs: str) -> str:
        mats = "{TRUE, FALSE}" if asis else "{TRUE}"
        return f"SPECIFICATION Spec\nCONSTANTS\n OutPkgs <- {outs}\n MaxCalls = {calls}\n Mats = {mats}\n AsIs = {'TRUE' if asis else 'FALSE'}\n{invs}CHECK_DEADLOCK FALSE\n"

    full, small = ("MCOutQuick", "MCOutSmall") if quick else ("MCOutFull", "MCOutFull")
    runs = [
        # (A1) the collector as it should be: every named statement holds
        (f"Imports[design, as it should be, {full}, <= 2 calls]", cfg(full, 2, False, inv), dict(workers=3, coverage=True)),
        # (A2) the collector as the code has it: fails only inside the known region ...
        (f"Imports[design, as-is, failures confined to KnownRegion, {small}, <= 2 calls]", cfg(small, 2, True, "INVARIANT AsIsOnlyKnown\nINVARIANT OrderIndependent\n"), dict(workers=2)),
        # (A3) ... and does fail there (the model reproduces the findings): TLC must find a counterexample
        ("Imports[design, as-is, counterexample to AsIsClean expected]", cfg(small, 2, True, "INVARIANT AsIsClean\n"), dict(workers=1, allow_violation=True)),
    ]
    if not quick:
        runs.append(("Imports[design, as it should be, MCOutSmall, <= 3 calls]", cfg("MCOutSmall", 3, False, inv), dict(workers=2)))
    with ThreadPoolExecutor(max_workers=len(runs)) as ex:
        futs = [ex.submit(run_tlc, _Sub(chk.scratch.path / f"design{i}"), "MC_Imports", c, timeout=2400, **kw) for i, (_, c, kw) in enumerate(runs)]
        res = [f.result() for f in futs]
    return [(name, r) for (name, _, _), r in zip(runs, res)]


def account_design(chk: Check, res) -> None:
    for name, r in res:
        chk.add_tlc(name, r)
    for a in ("Method", "RenderBlock", "Init"):
        chk.require(res[0][1].coverage.get(a, (0, 0))[1] > 0, f"vacuous Imports run: {a}")
    chk.require("AsIsClean" in res[2][1].violated, "the as-is design model no longer reproduces any known defect")


def generate(chk: Check, outs: str, npairs: int, ntriples: int, workers: int):
    cfg = f"SPECIFICATION Spec\nCONSTANTS\n OutPkgs <- {outs}\n NPairs = {npairs}\n NTriples = {ntriples}\nCHECK_DEADLOCK FALSE\n"
    g = run_tlc(chk.scratch, "MC_Gen_Imports", cfg, workers=workers, seed=chk.seed + 7, timeout=900)
    chk.add_tlc("Gen_Imports", g)
    trees = {(".".join(t["out"]), t["kind"]): t for t in g.printed.get("TREE", [])}
    check_constants(chk, g.printed.get("CONST", []))
    scen = sorted(g.printed.get("SCEN", []), key=lambda s: json.dumps(s, sort_keys=True))
    chk.require(len(trees) >= 2 and len(scen) > 500, f"Gen_Imports emitted too little: {len(trees)} trees, {len(scen)} scenarios")
    return trees, scen


def check_constants(chk: Check, consts: list) -> None:
    """The specification's constants about PYTHON are compared with the interpreter: which names of the type strings are
    typing constructs (typing.__all__), and the free names / datetime.<x> uses of every type string (ast)."""
    import ast
    import typing

    chk.require(len(consts) == 1, "Gen_Imports printed no CONST line")
    c = consts[0]
    names = {n for t in c["types"] for n in t["ids"]}
    spec_typing = set(c["pytyping"])
    real_typing = {n for n in names if n in typing.__all__}
    chk.require(spec_typing == real_typing, f"ImportsCore!PyTyping disagrees with typing.__all__ on {sorted(spec_typing ^ real_typing)}")
    for t in c["types"]:
        tree = ast.parse(t["text"], mode="eval")
        quals = {n.attr for n in ast.walk(tree) if isinstance(n, ast.Attribute) and isinstance(n.value, ast.Name) and n.value.id == "datetime"}
        ids = {n.id for n in ast.walk(tree) if isinstance(n, ast.Name)} | {"None" for n in ast.walk(tree) if isinstance(n, ast.Constant) and n.value is None}
        chk.require(ids == set(t["ids"]) and quals == set(t["quals"]), f"ImportsCore!Types: {t['text']!r} has free names {sorted(ids)} / datetime uses {sorted(quals)}, the spec says {t['ids']} / {t['quals']}")


def strip(locus: dict) -> dict:
    return {k: v for k, v in locus.items() if v != ""}


def judge(chk: Check, trees: dict, scen: list[dict], sample_every: int, workers: int = 2) -> None:
    jobs = []
    for i, s in enumerate(scen):
        t = trees[(".".join(s["out"]), s["kind"])]
        jobs.append({"id": f"s{i}", "scen": s, "tree": t, "sample": sample_every > 0 and (i + chk.seed) % sample_every == 0})
    res = core.parallel_py(chk.scratch, "harness.w_imports", jobs, nproc=8)
    tf = chk.scratch.path / "x03_traces.ndjson"
    with tf.open("w") as f:
        for j, o in zip(jobs, res):
            rec = dict(j["scen"])
            rec.update({"id": j["id"], "stmts": o["stmts"], "rec": o["rec"], "same": o["same"]})
            f.write(json.dumps(rec) + "\n")
    m = run_tlc(chk.scratch, "Trace_Imports", "SPECIFICATION Spec\nCHECK_DEADLOCK FALSE\n", workers=workers, env={"TRACE_FILE": str(tf)}, timeout=1500)
    chk.add_tlc("Trace_Imports", m)
    verdicts = {v["id"]: v for v in m.printed.get("VERDICT", [])}
    chk.require(len(verdicts) == len(jobs), f"monitor is not total: {len(verdicts)} verdicts for {len(jobs)} traces")
    drift: Counter = Counter()
    sampled = 0
    for j, o in zip(jobs, res):
        v, s = verdicts[j["id"]], j["scen"]
        chk.count()
        key = {"tree": s["out"], "kind": s["kind"], "api": s["api"], "where": s["where"], "cur": s["cur"], "ops": sorted((c["op"], c["mod"], c["name"], c["text"]) for c in s["calls"]), "render": s["render"]}
        if v["relative"] or v["core"]:
            chk.nontrivial(key)
        for name, n in (("resolves", v["nreq"]), ("core_form", v["core"]), ("within_top", v["relative"]), ("once", v["nstmt"]), ("grouped", 1 if v["nstmt"] > 1 else 0), ("deterministic", 1 if len(s["calls"]) > 1 else 0), ("same_name_two_modules", v["ambiguous"]), ("typing_complete", len(v["unbound"]))):
            if n:
                chk.clause("X03." + name, n)
        for f in v["fails"]:
            chk.fail("X03." + f["clause"], strip(f["locus"]), {"scenario": s, "tree": {"out": s["out"], "kind": s["kind"]}}, f"rendered: {o['text']!r}")
        for d in v["drift"]:
            drift[(d, s["api"], s["render"])] += 1
            if os.environ.get("VERIF_X03_DEBUG") and drift[(d, s["api"], s["render"])] <= 3:
                print("DRIFT-EXAMPLE", d, json.dumps(s), json.dumps(o["rec"]), repr(o["text"]))
        # the block as text must parse the way the monitor predicted: __future__ misplaced <=> compile() refuses it
        misplaced = any(f["clause"] == "grouped" and f["locus"]["got"] == "future_not_first" for f in v["fails"])
        if misplaced == o["syntax_ok"]:
            raise MachineryError(f"{j['id']}: compile() {'accepts' if o['syntax_ok'] else 'refuses'} the block but the monitor says future_not_first={misplaced}: {o['text']!r}")
        py = o["py"]
        if py is not None:
            sampled += 1
            pred = list(v["outcomes"])
            if py.get("outcomes") != pred:
                raise MachineryError(f"{j['id']}: ImportsCore!Outcome disagrees with the interpreter: predicted {pred}, python {py.get('outcomes')} for {o['text']!r} in {s['cur']} of {s['out']}/{s['kind']}")
            pb = {b["n"]: ".".join(b["t"]) for b in v["binds"] if b["t"] != ["__future__"]}  # the worker never executes __future__ imports
            if py["binds"] != pb:
                raise MachineryError(f"{j['id']}: ImportsCore!Run (bindings) disagrees with the interpreter: predicted {pb}, python {py['binds']} for {o['text']!r}")
            pu = {u["text"]: sorted(u["names"]) for u in v["unbound"]}
            if py["unbound"] != pu and all(x == "ok" for x in pred if x != "skipped"):
                raise MachineryError(f"{j['id']}: unbound names of the type strings: predicted {pu}, python {py['unbound']} for {o['text']!r}")
            whole_ok = o["syntax_ok"] and all(x in ("ok", "skipped") for x in pred)
            if (py["whole"] == "ok") != whole_ok and not py["whole"].startswith("name_error"):
                raise MachineryError(f"{j['id']}: whole block: python {py['whole']}, predicted ok={whole_ok} for {o['text']!r}")
    chk.cov["traces_validated_against_impl"] += len(jobs)
    chk.cov["executed_with_real_importer"] = chk.cov.get("executed_with_real_importer", 0) + sampled
    for (d, api, r), n in sorted(drift.items()):
        chk.note_drift(f"as-is model differs from the real collector in '{d}' ({api}/{r}) on {n} scenario(s) - no clause depends on it")
    if scen:
        mid = len(scen) // 2
        chk.sample({"scenario": scen[mid], "rendered": res[mid]["text"], "verdict": {k: verdicts[jobs[mid]['id']][k] for k in ("fails", "outcomes", "binds")}})


def run(chk: Check) -> None:
    quick = chk.tier == "quick"
    if quick:
        with ThreadPoolExecutor(max_workers=1) as ex:  # the design check runs while the real code is driven
            d = ex.submit(design, chk, True)
            trees, scen = generate(chk, "MCOutQuick", 6, 3, 2)
            judge(chk, trees, scen, 3, 2)
            account_design(chk, d.result())
    else:
        account_design(chk, design(chk, False))
        trees, scen = generate(chk, "MCOutFull", 60, 30, 4)
        judge(chk, trees, scen, 1, 8)
    chk.cov["rule"] = (
        "trees: output package at depth 1..3 (client, pkg.client, a.b.client, app.app, core.api) x core embedded/sibling/top-level; current module in "
        "{<out>/__init__, client, models/__init__, models/pet, endpoints/pets, mocks/endpoints/mock_pets, <core>/exception_aliases}; tree on disk or not; "
        "RenderContext API and bare ImportCollector API; every single call of the pool + every pair asking one name twice + random pairs/triples; design exhaustive for <= 2 calls (thorough: <= 3 on the small family)"
    )
    chk.cov["exhaustive"] = False
    chk.assumptions.append("the project root is on sys.path when the client is imported (absolute imports of the core package rely on it)")


def replay(chk: Check, path: str) -> None:
    """Re-run one recorded scenario: TLC prints the tree of the scenario's output package, the worker drives the real
    code (and executes the block with the real importer), the monitor judges."""
    v = json.loads(Path(path).read_text())
    s = v["scenario"]["scenario"]
    mc = f"---- MODULE MC_Replay_Imports ----\nEXTENDS Gen_Imports\nMCOut == {{{core.tla(list(s['out']))}}}\n====\n"
    cfg = "SPECIFICATION Spec\nCONSTANTS\n OutPkgs <- MCOut\n NPairs = 0\n NTriples = 0\nCHECK_DEADLOCK FALSE\n"
    g = run_tlc(chk.scratch, "MC_Replay_Imports", cfg, workers=2, seed=chk.seed + 7, timeout=900, files={"MC_Replay_Imports.tla": mc})
    trees = {(".".join(t["out"]), t["kind"]): t for t in g.printed.get("TREE", [])}
    judge(chk, trees, [s], 1)
