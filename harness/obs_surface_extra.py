"""Extra observer for C07 / C13 (registered into harness.w_obs; runs with the generator blocked).

  surfacex : what `surface` cannot see -
     * the *text* of the three emitted surfaces: for every class of endpoints/*.py and mocks/endpoints/mock_*.py every
       `def` in source order (overload stubs included, which leave no runtime signature): name, async?, decorators,
       parameters (name, kind, has-default, default source, annotation source), return annotation source, whether the
       body yields.  Each top-level class is parsed on its own, so a Protocol whose extracted text is not Python is
       reported as such while the client class next to it is still read;
     * every client class of the package (also those APIClient does not expose), the non-property public attributes of
       APIClient (what can shadow a tag property), and which mock class MockAPIClient hands out per property.

This module must not import pyopenapi_gen.
"""

from __future__ import annotations

import ast
import hashlib
import importlib
import re
from pathlib import Path
from typing import Any

from harness.w_obs import pkg_dir, register, short_exc

KINDS = {"posonly": "POSITIONAL_ONLY", "pos": "POSITIONAL_OR_KEYWORD", "var": "VAR_POSITIONAL", "kwonly": "KEYWORD_ONLY", "kw": "VAR_KEYWORD"}


def _src(node: ast.AST | None) -> str:
    return "" if node is None else ast.unparse(node)


def _params(a: ast.arguments) -> list[list]:
    out: list[list] = []
    pos = list(a.posonlyargs) + list(a.args)
    ndef = len(a.defaults)
    for i, p in enumerate(pos):
        d = a.defaults[i - (len(pos) - ndef)] if i >= len(pos) - ndef else None
        kind = KINDS["posonly"] if i < len(a.posonlyargs) else KINDS["pos"]
        out.append([p.arg, kind, d is not None, _src(d), _src(p.annotation)])
    if a.vararg:
        out.append([a.vararg.arg, KINDS["var"], False, "", _src(a.vararg.annotation)])
    for p, d in zip(a.kwonlyargs, a.kw_defaults):
        out.append([p.arg, KINDS["kwonly"], d is not None, _src(d), _src(p.annotation)])
    if a.kwarg:
        out.append([a.kwarg.arg, KINDS["kw"], False, "", _src(a.kwarg.annotation)])
    return out


def _yields(fn: ast.AST) -> bool:
    for n in ast.walk(fn):
        if isinstance(n, (ast.Yield, ast.YieldFrom)):
            return True
    return False


def _body_kind(fn: ast.FunctionDef | ast.AsyncFunctionDef) -> str:
    body = [s for s in fn.body if not (isinstance(s, ast.Expr) and isinstance(s.value, ast.Constant) and isinstance(s.value.value, str))]
    if len(body) == 1 and isinstance(body[0], ast.Expr) and isinstance(body[0].value, ast.Constant) and body[0].value.value is Ellipsis:
        return "stub"
    if body and isinstance(body[0], ast.Raise):
        exc = body[0].exc
        nm = exc.func if isinstance(exc, ast.Call) else exc
        return "raise:" + (_src(nm) if nm is not None else "")
    if body and isinstance(body[0], ast.Return):
        return "return"
    if body and isinstance(body[0], ast.Pass):
        return "pass"
    return "code"


def class_defs(cls: ast.ClassDef) -> list[dict]:
    out = []
    for n in cls.body:
        if isinstance(n, (ast.FunctionDef, ast.AsyncFunctionDef)):
            decos = [_src(d) for d in n.decorator_list]
            params = _params(n.args)
            if params and params[0][0] == "self":
                params = params[1:]
            out.append(
                {
                    "name": n.name,
                    "async": isinstance(n, ast.AsyncFunctionDef),
                    "over": any(d.split(".")[-1] == "overload" for d in decos),
                    "prop": any(d == "property" for d in decos),
                    "params": params,
                    "ret": _src(n.returns),
                    "yields": _yields(n),
                    "body": _body_kind(n),
                    "h": hashlib.sha1(ast.dump(n).encode()).hexdigest()[:10],
                }
            )
    return out


def top_chunks(text: str) -> list[str]:
    """Split a module into its top-level class chunks (a decorator line opens the chunk of the class it decorates)."""
    chunks: list[list[str]] = []
    cur: list[str] | None = None
    deco = False
    for ln in text.split("\n"):
        if ln[:1] not in ("", " ", "\t"):
            if ln.startswith("@"):
                if not deco:
                    cur = []
                    chunks.append(cur)
                deco = True
            elif ln.startswith("class "):
                if not deco:
                    cur = []
                    chunks.append(cur)
                deco = False
            elif ln.startswith(("from ", "import ", "if ", "def ", "async def ")):
                cur = None
                deco = False
        if cur is not None:
            cur.append(ln)
    return ["\n".join(c) for c in chunks]


def file_classes(path: Path) -> dict:
    text = path.read_text()
    rec: dict[str, Any] = {"file": path.name, "compile_ok": True, "error": "", "classes": []}
    try:
        compile(text, str(path), "exec")
    except SyntaxError as e:
        rec["compile_ok"] = False
        rec["error"] = f"{e.msg} (line {e.lineno})"
    for chunk in top_chunks(text):
        m = re.search(r"^class\s+(\w+)\s*(\(([^)]*)\))?\s*:", chunk, re.M)
        if not m:
            continue
        name, bases = m.group(1), (m.group(3) or "")
        c: dict[str, Any] = {"name": name, "bases": [b.strip() for b in bases.split(",") if b.strip()], "parse_ok": True, "error": "", "defs": []}
        try:
            tree = ast.parse(chunk)
            cls = next(n for n in tree.body if isinstance(n, ast.ClassDef))
            c["defs"] = class_defs(cls)
        except SyntaxError as e:
            c["parse_ok"] = False
            c["error"] = f"{e.msg}"
        rec["classes"].append(c)
    return rec


@register("surfacex")
def obs_surfacex(job: dict) -> Any:
    pd = pkg_dir(job["root"], job["pkg"])
    out: dict[str, Any] = {"endpoints": [], "mocks": [], "api": {}, "mock_api": {}}
    ed = pd / "endpoints"
    if ed.exists():
        for p in sorted(ed.glob("*.py")):
            if p.name != "__init__.py":
                out["endpoints"].append(file_classes(p))
    md = pd / "mocks" / "endpoints"
    if md.exists():
        for p in sorted(md.glob("*.py")):
            if p.name != "__init__.py":
                out["mocks"].append(file_classes(p))
    # runtime facts about APIClient
    api: dict[str, Any] = {"import_ok": False, "error": {}, "props": [], "attrs": []}
    try:
        cm = importlib.import_module(job["pkg"] + ".client")
        cls = getattr(cm, "APIClient")
        api["import_ok"] = True
        api["props"] = sorted(n for n, v in vars(cls).items() if isinstance(v, property) and not n.startswith("_"))
        attrs = {n for n, v in vars(cls).items() if not isinstance(v, property) and not n.startswith("_")}
        try:
            cfgm = importlib.import_module((job.get("core") or job["pkg"] + ".core") + ".config")
            inst = cls(cfgm.ClientConfig(base_url="http://srv.test"))
            attrs |= {n for n in vars(inst) if not n.startswith("_")}
        except Exception:  # noqa: BLE001
            pass
        api["attrs"] = sorted(attrs)
    except BaseException as e:  # noqa: BLE001
        if isinstance(e, KeyboardInterrupt):
            raise
        api["error"] = short_exc(e)
    out["api"] = api
    mapi: dict[str, Any] = {"import_ok": False, "error": {}, "props": {}}
    try:
        mm = importlib.import_module(job["pkg"] + ".mocks")
        mcls = getattr(mm, "MockAPIClient")
        mapi["import_ok"] = True
        inst = mcls()
        for n, v in vars(mcls).items():
            if isinstance(v, property) and not n.startswith("_"):
                try:
                    mapi["props"][n] = type(getattr(inst, n)).__name__
                except Exception as e:  # noqa: BLE001
                    mapi["props"][n] = "error:" + type(e).__name__
    except BaseException as e:  # noqa: BLE001
        if isinstance(e, KeyboardInterrupt):
            raise
        mapi["error"] = short_exc(e)
    out["mock_api"] = mapi
    return out


@register("wirex")
def obs_wirex(job: dict) -> Any:
    """`wire` for the client classes APIClient does NOT expose (e.g. a tag property overwritten by a method of the same
    name): the class is instantiated directly on the bundled transport and every method is called like obs_wire does."""
    import asyncio
    import inspect
    import sys

    import httpx

    from harness import obs_wire as ow

    d = ow.discover(job)
    captured: list[dict] = []

    def handler(req: httpx.Request) -> httpx.Response:
        captured.append(ow.capture(req))
        return httpx.Response(200, json={})

    ow._HANDLER[0] = handler
    client = ow.make_client(job, d)
    exposed = set()
    for pname in d["props"]:
        try:
            exposed.add(type(getattr(client, pname)).__name__)
        except Exception:  # noqa: BLE001
            pass
    out = []
    ed = pkg_dir(job["root"], job["pkg"]) / "endpoints"
    loop = asyncio.new_event_loop()
    try:
        for p in sorted(ed.glob("*.py")):
            if p.name == "__init__.py":
                continue
            try:
                mod = importlib.import_module(f"{job['pkg']}.endpoints.{p.stem}")
            except Exception:  # noqa: BLE001
                continue
            for name, cls in vars(mod).items():
                if not (isinstance(cls, type) and cls.__module__ == mod.__name__ and name.endswith("Client") and name not in exposed):
                    continue
                if getattr(cls, "_is_protocol", False):
                    continue
                try:
                    tc = cls(client.transport, "http://srv.test")
                except Exception:  # noqa: BLE001
                    continue
                for mn, fn in ow._methods(cls).items():
                    hints = ow._hints(fn)
                    for plan in ow.arg_plans(fn, hints)[: int(job.get("max_plans", 8))]:
                        syn = ow.Synth()
                        kwargs = {a: syn.make(hints.get(a, inspect._empty))[0] for a in plan["required"] + plan["supplied"]}
                        captured.clear()
                        res = loop.run_until_complete(asyncio.wait_for(ow._call(getattr(tc, mn), kwargs, ow._nature(fn)), 20))
                        out.append({"prop": "", "cls": name, "method": mn, "requests": list(captured), "outcome": {"kind": res["kind"]}})
    finally:
        loop.close()
    return out
