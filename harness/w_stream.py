"""Worker for C18: drive the REAL streaming helpers over chunked httpx responses.

stdin: JSON list of jobs {"id", "mode": "sse"|"ndjson", "bytes": [0..255, ...], "ctype": Content-Type or null,
                          "chunkings": [[cut, ...], ...]}
   or  {"id", "kind": "long", "L": {"mode","pre","fill","m","post","reps"}, "chunkings": [{"cuts": [...]}, ...]} (see run_long)
   or  {"id", "kind": "pair", "streams": [{"mode","bytes","helper"} x 2], "runs": [{"c1","c2","sched"}, ...]} (see run_pair)
A chunking is the sorted list of cut positions (a cut c splits between byte c and byte c+1); [] is the unsplit stream.
For every chunking the stream is served as `httpx.Response(200, content=<async iterator over the chunks>)` to
  sse    : iter_sse, iter_sse_events_text, iter_bytes
  ndjson : iter_ndjson, iter_bytes
and everything the helper yields is recorded.  Per decoder the result is compressed losslessly:
  outs = the distinct outputs in order of first occurrence, idx[r] = 1-based index into outs for chunking r.
An output is {"items": [...], "err": "none" | <exception type>}.  Text crosses into TLA+ as code-point lists,
absent optionals as [-1] / -1, NDJSON values as the code points of their canonical JSON text, bytes as int lists.
"""

from __future__ import annotations

import asyncio
import hashlib
import itertools
import json
import sys
from typing import Any

from harness import core

core.install_tree_under_test()

import httpx  # noqa: E402

import pyopenapi_gen.core.streaming_helpers as sh  # noqa: E402

DECODERS = {"sse": ["iter_sse", "iter_sse_events_text", "iter_bytes"], "ndjson": ["iter_ndjson", "iter_bytes"]}
INT_CAP = 2**31 - 1


def cps(s: str) -> list[int]:
    return [ord(c) for c in s]


def opt(v: Any) -> list[int]:
    if v is None:
        return [-1]
    if isinstance(v, str):
        return cps(v)
    return cps("!" + type(v).__name__ + ":" + repr(v))


def norm(dec: str, item: Any) -> Any:
    if dec == "iter_sse":
        data = getattr(item, "data", None)
        retry = getattr(item, "retry", None)
        if isinstance(retry, bool) or not isinstance(retry, int):
            retry = -1 if retry is None else -2
        return {
            "data": cps(data) if isinstance(data, str) else cps("!" + type(data).__name__ + ":" + repr(data)),
            "event": opt(getattr(item, "event", None)),
            "id": opt(getattr(item, "id", None)),
            "retry": retry if -2 <= retry <= INT_CAP else -2,
        }
    if dec == "iter_sse_events_text":
        return cps(item) if isinstance(item, str) else cps("!" + type(item).__name__ + ":" + repr(item))
    if dec == "iter_ndjson":
        return cps(json.dumps(item, ensure_ascii=False, separators=(",", ":")))
    if dec == "iter_bytes":
        return list(item) if isinstance(item, (bytes, bytearray)) else cps("!" + type(item).__name__)
    raise ValueError(dec)


async def chunks_of(parts: list[bytes]):
    for p in parts:
        yield p


async def run_one(dec: str, fn: Any, parts: list[bytes], ctype: str | None = None) -> dict:
    items: list[Any] = []
    err = "none"
    resp = httpx.Response(200, headers={"content-type": ctype} if ctype else None, content=chunks_of(parts))
    try:
        async for it in fn(resp):
            items.append(norm(dec, it))
    except Exception as e:  # noqa: BLE001
        err = type(e).__name__
    finally:
        try:
            await resp.aclose()
        except Exception:  # noqa: BLE001
            pass
    if dec == "iter_bytes":
        # projection for the monitor: the concatenation of the yielded chunks (one item); whether the chunk
        # boundaries were handed on unchanged is informational only (no clause depends on it)
        same = err == "none" and items == [list(p) for p in parts]
        return {"items": [[b for it in items for b in it]], "err": err, "_same": same}
    return {"items": items, "err": err}


def split(data: bytes, cuts: list[int]) -> list[bytes]:
    edges = [0] + list(cuts) + [len(data)]
    return [data[a:b] for a, b in zip(edges, edges[1:])]


async def run_job(job: dict) -> dict:
    data = bytes(job["bytes"])
    out = {"id": job["id"], "dec": [], "absent": [], "runs": 0}
    for dec in DECODERS[job["mode"]]:
        fn = getattr(sh, dec, None)
        if fn is None:
            out["absent"].append(dec)
            continue
        outs: list[dict] = []
        keys: dict[str, int] = {}
        idx: list[int] = []
        for cuts in job["chunkings"]:
            o = await run_one(dec, fn, split(data, cuts), job.get("ctype"))
            if o.pop("_same", False):
                out["same_chunks"] = out.get("same_chunks", 0) + 1
            k = json.dumps(o, sort_keys=True)
            if k not in keys:
                outs.append(o)
                keys[k] = len(outs)
            idx.append(keys[k])
            out["runs"] += 1
        out["dec"].append({"name": dec, "outs": outs, "idx": idx})
    return out


# ---------------------------------------------------------------------------------------------
# two streams in one event loop, chunks handed over according to a schedule computed by TLC (StreamPair.tla):
# sched = [10 * stream + code, ...], code 0 = deliver the stream's next chunk, 1 = end of stream, 2 = transport error


class Injected(httpx.ReadError):
    pass


class Turns:
    def __init__(self, sched: list[int]):
        self.sched = sched
        self.i = 0
        self.gone: set[int] = set()

    async def wait(self, sid: int) -> int:
        spins = 0
        while True:
            while self.i < len(self.sched) and self.sched[self.i] // 10 in self.gone:
                self.i += 1
            if self.i >= len(self.sched):
                return 1  # schedule exhausted (a stream ended early): let the stream end
            if self.sched[self.i] // 10 == sid:
                return self.sched[self.i] % 10
            spins += 1
            if spins > 100000:
                raise RuntimeError("schedule stuck")
            await asyncio.sleep(0)

    def advance(self) -> None:
        self.i += 1


async def sched_chunks(sid: int, parts: list[bytes], t: Turns):
    for p in parts:
        code = await t.wait(sid)
        if code == 2:
            t.advance()
            raise Injected("connection lost (schedule)")
        if code == 1:
            break
        yield p  # the consumer now processes the chunk and comes back for the next one
        t.advance()
    code = await t.wait(sid)
    t.advance()
    if code == 2:
        raise Injected("connection lost (schedule)")


async def consume(sid: int, dec: str, fn: Any, parts: list[bytes], t: Turns) -> dict:
    items: list[Any] = []
    err = "none"
    resp = httpx.Response(200, content=sched_chunks(sid, parts, t))
    try:
        async for it in fn(resp):
            items.append(norm(dec, it))
    except Injected:
        err = "aborted"
    except Exception as e:  # noqa: BLE001
        err = type(e).__name__
    finally:
        t.gone.add(sid)
        try:
            await resp.aclose()
        except Exception:  # noqa: BLE001
            pass
    return {"items": items, "err": err}


async def run_pair(job: dict) -> dict:
    st = job["streams"]
    data = [bytes(x["bytes"]) for x in st]
    fns = [getattr(sh, x["helper"], None) for x in st]
    out: dict = {"id": job["id"], "absent": [x["helper"] for x, f in zip(st, fns) if f is None], "runs": 0}
    if out["absent"]:
        return out
    out["ref"] = [await run_one(x["helper"], f, [d]) for x, f, d in zip(st, fns, data)]
    outs: list[list[dict]] = [[], []]
    keys: list[dict[str, int]] = [{}, {}]
    idx: list[list[int]] = [[], []]
    for run in job["runs"]:
        t = Turns(run["sched"])
        parts = [split(data[0], run["c1"]), split(data[1], run["c2"])]
        res = await asyncio.gather(*[consume(i + 1, st[i]["helper"], fns[i], parts[i], t) for i in (0, 1)])
        for i in (0, 1):
            k = json.dumps(res[i], sort_keys=True)
            if k not in keys[i]:
                outs[i].append(res[i])
                keys[i][k] = len(outs[i])
            idx[i].append(keys[i][k])
        out["runs"] += 1
    out["outs"] = outs
    out["idx"] = idx
    return out


# ---------------------------------------------------------------------------------------------
# long streams (StreamCore.tla "Long streams"): bytes = (pre + fill * m + post) * reps, realistic chunkings.
# Outputs are deduplicated on the raw Python values and only the distinct ones are encoded - losslessly and
# deterministically - as run-length text ([[code point, count], ...]) and periodic item sequences ({"period", "n"}).


def rle(seq) -> list[list[int]]:
    out: list[list[int]] = []
    for v, g in itertools.groupby(seq):
        out.append([v, sum(1 for _ in g)])
    return out


def rle_text(v: Any) -> list[list[int]]:
    if v is None:
        return [[-1, 1]]
    if not isinstance(v, str):
        v = "!" + type(v).__name__ + ":" + repr(v)
    return rle(map(ord, v))


def periodic(items: list) -> dict:
    n = len(items)
    for p in range(1, min(64, n) + 1):
        if items[p:] == items[: n - p]:
            return {"period": items[:p], "n": n}
    return {"period": items, "n": n}


def raw(dec: str, item: Any) -> Any:
    if dec == "iter_sse":
        r = getattr(item, "retry", None)
        t = lambda v: v if v is None or isinstance(v, str) else "!" + type(v).__name__ + ":" + repr(v)  # noqa: E731
        return (t(getattr(item, "data", None)), t(getattr(item, "event", None)), t(getattr(item, "id", None)), r if isinstance(r, int) and not isinstance(r, bool) and -2 <= r <= INT_CAP else (-1 if r is None else -2))
    if dec == "iter_ndjson":
        return json.dumps(item, ensure_ascii=False, separators=(",", ":"))
    if dec == "iter_bytes":
        return bytes(item) if isinstance(item, (bytes, bytearray)) else b"!" + type(item).__name__.encode()
    return item if isinstance(item, str) else "!" + type(item).__name__ + ":" + repr(item)


BIG = 4000  # runs; an output whose encoding is larger is passed on truncated and flagged (it cannot be the expected one,
#             whose encoding has a period of a few items with a few runs each), its identity is kept by the digest


def encode_long(dec: str, items: list, err: str) -> dict:
    digest = hashlib.sha1(repr((items, err)).encode("utf-8", "backslashreplace")).hexdigest()
    if dec == "iter_bytes":
        per = periodic(rle(b"".join(items)))
        size = len(per["period"])
        cut = lambda pr: pr[:64]  # noqa: E731
    elif dec == "iter_sse":
        per = periodic([{"data": rle_text(d), "event": rle_text(e), "id": rle_text(i), "retry": r} for d, e, i, r in items])
        size = sum(len(x["data"]) + len(x["event"]) + len(x["id"]) for x in per["period"])
        cut = lambda pr: [{"data": x["data"][:32], "event": x["event"][:32], "id": x["id"][:32], "retry": x["retry"]} for x in pr[:8]]  # noqa: E731
    else:
        per = periodic([rle_text(x) for x in items])
        size = sum(len(x) for x in per["period"])
        cut = lambda pr: [x[:32] for x in pr[:8]]  # noqa: E731
    big = size > BIG
    if big:
        per = {"period": cut(per["period"]), "n": per["n"]}
    return {"items": per, "err": err, "big": big, "digest": digest}


async def run_long(job: dict) -> dict:
    L = job["L"]
    data = (bytes(L["pre"]) + bytes([L["fill"]]) * L["m"] + bytes(L["post"])) * L["reps"]
    out: dict = {"id": job["id"], "dec": [], "absent": [], "runs": 0, "total": len(data)}
    for dec in DECODERS[L["mode"]]:
        fn = getattr(sh, dec, None)
        if fn is None:
            out["absent"].append(dec)
            continue
        outs: list[dict] = []
        keys: dict[Any, int] = {}
        idx: list[int] = []
        for ch in job["chunkings"]:
            items: list[Any] = []
            err = "none"
            resp = httpx.Response(200, content=chunks_of(split(data, ch["cuts"])))
            try:
                async for it in fn(resp):
                    items.append(raw(dec, it))
            except Exception as e:  # noqa: BLE001
                err = type(e).__name__
            finally:
                try:
                    await resp.aclose()
                except Exception:  # noqa: BLE001
                    pass
            k = (b"".join(items) if dec == "iter_bytes" else tuple(items), err)
            if k not in keys:
                outs.append(encode_long(dec, items, err))
                keys[k] = len(outs)
            idx.append(keys[k])
            out["runs"] += 1
        out["dec"].append({"name": dec, "outs": outs, "idx": idx})
    return out


async def amain() -> None:
    jobs = json.load(sys.stdin)
    for job in jobs:
        kind = job.get("kind")
        r = await (run_pair(job) if kind == "pair" else run_long(job) if kind == "long" else run_job(job))
        print(json.dumps(r), flush=True)


if __name__ == "__main__":
    asyncio.run(amain())
