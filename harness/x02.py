"""X02 (beyond the listed properties) - the code-writing layer (LineWriter / CodeWriter) as a state machine.

(A) specs/Writer.tla (+ WriterOps.tla): one action per public method; TLC checks the statements a user of the
    writers relies on (indentation = 4 x level at the time a line is started, empty lines are empty, indent/dedent
    inverse and never negative, write_block = its Python lines one by one, nothing lost / duplicated / reordered,
    wrapping keeps width / characters / tokens / alignment, completed lines never touched, width never leaks,
    signature spells the one-line signature) over bounded alphabets, `-coverage` refuses vacuous runs.
(B) TLC prints one EDGE per (writer state, call) of the explored graph and Gen_WriterPaths.tla every call sequence
    of a smaller alphabet; harness/w_writer.py puts a REAL writer into the state / replays the sequence on a fresh
    real writer (and on a second instance interleaved with a third) and records the real post-state of every call.
(C) specs/Trace_Writer.tla (total monitor run by TLC) judges every record against the statements of WriterOps.tla.
(D) second layer: PythonConstructRenderer outputs are parsed with Python's own `ast` and compared with what was
    passed in (harness/w_render.py, judged by specs/Trace_RenderAst.tla).
"""

from __future__ import annotations

import json
from collections import Counter
from typing import Any

from . import core
from .core import Check, run_tlc, tla

LEVEL = "model_checking"

LINE_OPS = ["indent", "dedent", "append", "newline", "move_to_column", "replace_current_line", "append_wrapped", "wrap_and_append", "append_wrapped_at_column", "getvalue", "current_line", "current_width"]
CODE_OPS = ["indent", "dedent", "write_line", "write_block", "write_wrapped_line", "write_wrapped_docstring_line", "write_function_signature", "get_code"]
ACTION = {
    "indent": "DoIndent", "dedent": "DoDedent", "append": "DoAppend", "newline": "DoNewline", "move_to_column": "DoMoveToColumn",
    "replace_current_line": "DoReplaceCurrentLine", "append_wrapped": "DoAppendWrapped", "wrap_and_append": "DoWrapAndAppend",
    "append_wrapped_at_column": "DoAppendWrappedAtColumn", "getvalue": "DoGetValue", "current_line": "DoCurrentLine",
    "current_width": "DoCurrentWidth", "write_line": "DoWriteLine", "write_block": "DoWriteBlock", "write_wrapped_line": "DoWriteWrappedLine",
    "write_wrapped_docstring_line": "DoWriteWrappedDocstringLine", "write_function_signature": "DoWriteFunctionSignature", "get_code": "DoGetCode",
}  # fmt: skip
INVARIANTS = ["TypeOK", "WidthRestored", "DedentAtZero", "IndentDedentInverse", "IndentIsFourPerLevel", "BlankLinesAreEmpty", "BlockIsLines",
              "BlockRoundTrip", "SignatureSpells", "WrapKeepsWidth", "WrapKeepsText", "WrapAligns", "WrapKeepsTokens", "WrapKeepsLevel",
              "TextPreserved", "GetCodeIsLines"]  # fmt: skip
PROPERTIES = ["AppendOnly", "LevelStep"]

# symbolic alphabet: "|" newline, "^" tab, "~" U+2028, " " space
TEXTS = ["", "x", "  y ", " ", "a|b", "^z"]
BLOCKS = ["", "p||q", "r|", "|", " s| t", "u~v", "m| |n"]
WRAPS = ["", "aa bb cc", "aaaaaaaaa b", "  aa  bb ", "a-b cc", "aa^bb|cc", "   "]
SIGS = [
    {"name": "f", "args": [], "rt": "", "async": 0},
    {"name": "g", "args": ["self", "a: int", "b=1"], "rt": "str", "async": 1},
    {"name": "h", "args": ["x"], "rt": "", "async": 0},
]

# families of statements (Trace_Writer's `fam`) -> clauses whose antecedent a record of that family evaluates
FAMILY = {
    "lines": ["X02.indent", "X02.blank_clean", "X02.text_preserved", "X02.line_count", "X02.block_lines", "X02.line_start"],
    "wrap": ["X02.wrap_text", "X02.wrap_width", "X02.wrap_align", "X02.wrap_tokens", "X02.wrap_layout"],
    "query": ["X02.query_pure", "X02.query_value"],
    "pure": ["X02.pure"],
}
ALWAYS = ["X02.level", "X02.width_restored", "X02.append_only", "X02.no_exception"]


# the wrapping operators recurse once per produced line (and TLC's evaluator nests deeply under each level):
# give TLC's threads a deep stack instead of relying on the default
DEEP = {"JDK_JAVA_OPTIONS": "-Xss128m"}  # read by the launcher: also sizes the main thread, where TLC evaluates the initial states


def graph_config(tier: str, which: str) -> dict[str, Any]:
    """Bounded alphabets of one Writer.tla run."""
    if which == "frontier":  # every (level, partial line, flag) x every call of both surfaces
        c = {
            "ops": sorted(set(LINE_OPS + CODE_OPS)), "texts": TEXTS, "blocks": BLOCKS, "wraps": WRAPS, "widths": [6, 10, 14], "prefixes": ["p: ", "qqqq (s): "],
            "cols": [0, 3, 12], "sigs": SIGS, "levels": [0, 1, 2], "curs": ["", "x", "p: ", "  "], "pre": ["zz"], "lawdepth": 1, "mw0": 14, "maxcalls": 1,
        }  # fmt: skip
        if tier == "thorough":
            c.update(widths=[6, 9, 10, 14], levels=[0, 1, 2, 3], curs=["", "x", "p: ", "  ", "    k", "a-"], cols=[0, 1, 3, 12],
                     texts=TEXTS + ["a~b", "x ", "#"], blocks=BLOCKS + ["|p", "a|b|", "  ", "a~|~b"], wraps=WRAPS + ["aaaa bbbb cccc dddd", "a  b", "~x y", "aaaaaaaaaaaaaaaaaaaaaaaa"])
        return c
    # sequences of CodeWriter calls from new writers (what the emitters do)
    return {
        "ops": CODE_OPS, "texts": ["", "x", " y"], "blocks": ["p||q", "u~v|", ""], "wraps": ["aa bb cc", "aaaaaaaaa b"], "widths": [10], "prefixes": ["p: "],
        "cols": [0], "sigs": SIGS[:2], "levels": [0, 1], "curs": [""], "pre": [], "lawdepth": 2 if tier == "thorough" else 1, "mw0": 14,
        "maxcalls": 3 if tier == "thorough" else 2,
    }  # fmt: skip


def mc_module(c: dict[str, Any]) -> str:
    sigs = ", ".join(f"[name |-> {tla(s['name'])}, args |-> {tla(s['args'])}, rt |-> {tla(s['rt'])}, async |-> {s['async']}]" for s in c["sigs"])
    return f"""---- MODULE MC_Writer ----
EXTENDS Writer
MCSigs == {{{sigs}}}
MCPre == {tla(c['pre'])}
====
"""


def mc_cfg(c: dict[str, Any]) -> str:
    lines = [
        "SPECIFICATION Spec", "CONSTANTS", f" Ops = {tla(set(c['ops']))}", f" Texts = {tla(set(c['texts']))}", f" BlockTexts = {tla(set(c['blocks']))}",
        f" WrapTexts = {tla(set(c['wraps']))}", f" Widths = {tla(set(c['widths']))}", f" DocPrefixes = {tla(set(c['prefixes']))}", f" Cols = {tla(set(c['cols']))}",
        " Sigs <- MCSigs", f" Levels = {tla(set(c['levels']))}", f" CurTexts = {tla(set(c['curs']))}", " PreLines <- MCPre", f" LawDepth = {c['lawdepth']}",
        f" Mw0 = {c['mw0']}", f" MaxCalls = {c['maxcalls']}", " EmitEdges = TRUE",
    ]  # fmt: skip
    lines += [f"INVARIANT {i}" for i in INVARIANTS] + [f"PROPERTY {p}" for p in PROPERTIES] + ["CHECK_DEADLOCK FALSE"]
    return "\n".join(lines) + "\n"


def design(chk: Check, which: str) -> list[dict]:
    c = graph_config(chk.tier, which)
    r = run_tlc(chk.scratch, "MC_Writer", mc_cfg(c), files={"MC_Writer.tla": mc_module(c)}, workers=4, coverage=True, timeout=900, allow_violation=True, env=DEEP)
    chk.add_tlc(f"Writer[{which}]", r)
    if r.violated:
        # the specification contradicts itself: a statement does not hold of the operators that give the calls their meaning
        chk.fail("X02.design", {"statement": r.violated[0], "run": which}, {"config": c}, r.out[-1500:])
        return []
    for op in c["ops"]:
        chk.require(r.coverage.get(ACTION[op], (0, 0))[1] > 0, f"vacuous Writer[{which}] run: action {ACTION[op]} never taken")
    edges = r.printed.get("EDGE", [])
    chk.require(len(edges) > 100, f"Writer[{which}] printed too few edges ({len(edges)})")
    seen_ops = {e["c"]["op"] for e in edges}
    chk.require(seen_ops == set(c["ops"]), f"edges do not cover every method: missing {sorted(set(c['ops']) - seen_ops)}")
    edges.sort(key=lambda e: json.dumps(e, sort_keys=True))
    for i, e in enumerate(edges):
        e["id"] = f"{which[0]}{i}"
    return edges


PATH_CALLS = [
    {"op": "indent"}, {"op": "dedent"}, {"op": "write_line", "t": "x"}, {"op": "write_line", "t": ""}, {"op": "write_block", "t": "p||q"},
    {"op": "append", "t": "y"}, {"op": "newline"}, {"op": "write_wrapped_line", "t": "aa bb cc", "w": 10},
    {"op": "write_wrapped_docstring_line", "t": "aa bb cc", "p": "p: ", "w": 12}, {"op": "append_wrapped", "t": "aa bb cc dd"},
    {"op": "move_to_column", "k": 6}, {"op": "replace_current_line", "t": ""}, {"op": "get_code"},
]  # fmt: skip


def full_call(c: dict) -> dict:
    return {"op": c["op"], "t": c.get("t", ""), "p": c.get("p", ""), "w": c.get("w", 0), "k": c.get("k", 0), "a": c.get("a", [])}


def gen_paths(chk: Check) -> list[dict]:
    calls = [full_call(c) for c in PATH_CALLS]
    recs = ", ".join(f"[op |-> {tla(c['op'])}, t |-> {tla(c['t'])}, p |-> {tla(c['p'])}, w |-> {c['w']}, k |-> {c['k']}, a |-> <<>>]" for c in calls)
    mod = f"---- MODULE MC_Gen_WriterPaths ----\nEXTENDS Gen_WriterPaths\nMCCalls == {{{recs}}}\n====\n"
    maxlen = 4 if chk.tier == "thorough" else 3
    cfg = f"SPECIFICATION Spec\nCONSTANTS\n PathCalls <- MCCalls\n MaxLen = {maxlen}\n Mw0 = 12\nINVARIANT LevelNonNegative\nCHECK_DEADLOCK FALSE\n"
    r = run_tlc(chk.scratch, "MC_Gen_WriterPaths", cfg, files={"MC_Gen_WriterPaths.tla": mod}, workers=4, timeout=600, env=DEEP)
    chk.add_tlc("Gen_WriterPaths", r)
    sc = r.printed.get("SCEN", [])
    chk.require(len(sc) == len(calls) ** maxlen, f"Gen_WriterPaths emitted {len(sc)} sequences, expected {len(calls) ** maxlen}")
    sc.sort(key=lambda s: json.dumps(s, sort_keys=True))
    return [{"id": f"p{i}", "mw": 12, "calls": s["calls"], "code": s["code"]} for i, s in enumerate(sc)]


def chunks(xs: list, n: int) -> list[list]:
    return [xs[i : i + n] for i in range(0, len(xs), n)]


def judge(chk: Check, records: list[dict], label: str) -> dict[str, dict]:
    d = chk.scratch.sub("traces")
    tf = d / "traces.ndjson"
    with tf.open("w") as f:
        for rec in records:
            f.write(json.dumps(rec) + "\n")
    r = run_tlc(chk.scratch, "Trace_Writer", "SPECIFICATION Spec\nCHECK_DEADLOCK FALSE\n", workers=8, env={"TRACE_FILE": str(tf), **DEEP}, timeout=900)
    chk.add_tlc(f"Trace_Writer[{label}]", r)
    vs = r.printed.get("VERDICT", [])
    chk.require(len(vs) == len(records), f"monitor produced {len(vs)} verdicts for {len(records)} records")
    chk.cov["traces_validated_against_impl"] += len(records)
    return {v["id"]: v for v in vs}


def account(chk: Check, records: list[dict], verdicts: dict[str, dict], paths: dict[str, dict]) -> Counter:
    stats: Counter = Counter()
    drift: dict[tuple, list] = {}
    for rec in records:
        v = verdicts[rec["id"]]
        chk.count()
        stats[v["fam"]] += 1
        for cl in FAMILY.get(v["fam"], []):
            chk.clause(cl)
        if v["fam"] not in ("none", "pure"):
            for cl in ALWAYS:
                chk.clause(cl)
        if rec["kind"] == "step":
            chk.nontrivial({"op": rec["c"]["op"], "lvl": rec["s"]["level"], "cur": rec["s"]["lines"][-1], "jn": rec["s"]["jn"], "t": rec["c"]["t"], "w": rec["c"]["w"], "p": rec["c"]["p"]})
        if v["clause"] == "ok":
            stats["ok_" + v["locus"]["kind"]] += 1
            continue
        scenario: dict[str, Any] = {"record": rec}
        pid = rec["id"].split(".")[0]
        if pid in paths:
            scenario["path"] = paths[pid]["calls"]
        if v["clause"] == "drift":
            drift.setdefault((v["locus"]["op"], v["locus"]["kind"]), []).append(rec)
            continue
        chk.fail(v["clause"], v["locus"], scenario, json.dumps({k: rec.get(k) for k in ("s", "c", "r", "ret", "exc", "same")})[:600])
    for (op, kind), recs in sorted(drift.items()):
        ex = recs[0]
        chk.note_drift(f"{op}: {kind} on {len(recs)} record(s); e.g. state {json.dumps(ex['s'])} call {json.dumps(ex['c'])} -> real {json.dumps(ex['r'])} exc={ex['exc']}")
    return stats


def writer_layer(chk: Check) -> None:
    edges = design(chk, "frontier") + design(chk, "sequences")
    paths = gen_paths(chk)
    jobs = [{"id": f"e{i}", "kind": "edges", "recs": ch} for i, ch in enumerate(chunks(edges, 400))]
    jobs += [{"id": f"q{i}", "kind": "paths", "paths": ch} for i, ch in enumerate(chunks(paths, 200))]
    res = core.parallel_py(chk.scratch, "harness.w_writer", jobs, nproc=8, timeout=600)
    records = [rec for r in res for rec in r["out"]]
    verdicts = judge(chk, records, "edges+sequences")
    stats = account(chk, records, verdicts, {p["id"]: p for p in paths})
    for fam in ("lines", "wrap", "query", "pure"):
        chk.require(stats[fam] > 0, f"no record of statement family {fam} was judged")
    chk.require(stats["ok_exact"] > 0, "no record agreed with the specification exactly")
    chk.cov["edges_replayed"] = len(edges)
    chk.cov["sequences_replayed"] = len(paths)
    chk.cov["judged"] = dict(stats)
    if edges:
        chk.sample({"kind": "edge", "state": edges[len(edges) // 2]["s"], "call": edges[len(edges) // 2]["c"]})
    if paths:
        chk.sample({"kind": "sequence", "calls": [c["op"] for c in paths[len(paths) // 3]["calls"]], "denotes": paths[len(paths) // 3]["code"]})


RENDER_CLAUSES = {
    "dataclass": ["X02.render_parses", "X02.render_exports", "X02.render_header", "X02.render_fields", "X02.render_docstring", "X02.render_doc_words", "X02.render_comments", "X02.render_meta", "X02.render_body", "X02.render_trailing_blanks"],
    "enum": ["X02.render_parses", "X02.render_exports", "X02.render_header", "X02.render_members", "X02.render_docstring", "X02.render_doc_words", "X02.render_trailing_blanks"],
    "alias": ["X02.render_parses", "X02.render_exports", "X02.render_alias", "X02.render_docstring", "X02.render_trailing_blanks"],
    "class": ["X02.render_parses", "X02.render_header", "X02.render_docstring", "X02.render_body", "X02.render_trailing_blanks"],
}  # fmt: skip


def judge_render(chk: Check, res: list[dict], label: str) -> None:
    d = chk.scratch.sub("render")
    tf = d / "render.ndjson"
    with tf.open("w") as f:
        for r in res:
            f.write(json.dumps({"id": r["id"], "in": r["in"], "out": r["out"]}) + "\n")
    m = run_tlc(chk.scratch, "Trace_RenderAst", "SPECIFICATION Spec\nCHECK_DEADLOCK FALSE\n", workers=4, env={"TRACE_FILE": str(tf), **DEEP}, timeout=600)
    chk.add_tlc(f"Trace_RenderAst[{label}]", m)
    vs = {v["id"]: v for v in m.printed.get("VERDICT", [])}
    chk.require(len(vs) == len(res), f"render monitor produced {len(vs)} verdicts for {len(res)} records")
    chk.cov["traces_validated_against_impl"] += len(res)
    for r in res:
        v = vs[r["id"]]
        chk.count()
        chk.nontrivial({"render": r["in"]})
        for cl in RENDER_CLAUSES[r["in"]["kind"]]:
            chk.clause(cl)
        if v["clause"] != "ok":
            chk.fail(v["clause"], v["locus"], {"render": r["in"]}, (r["out"]["err"] + "\n" + r["code"])[:700])


def render_layer(chk: Check) -> None:
    rich = chk.tier == "thorough"
    cfg = f"SPECIFICATION Spec\nCONSTANTS\n MaxFields = {3 if rich else 2}\n Rich = {tla(rich)}\nCHECK_DEADLOCK FALSE\n"
    g = run_tlc(chk.scratch, "Gen_RenderFamily", cfg, workers=4, timeout=600, env=DEEP)
    chk.add_tlc("Gen_RenderFamily", g)
    sc = sorted(g.printed.get("SCEN", []), key=lambda s: json.dumps(s, sort_keys=True))
    kinds = Counter(s["kind"] for s in sc)
    chk.require(all(kinds[k] > 10 for k in RENDER_CLAUSES), f"Gen_RenderFamily emitted too few constructs: {dict(kinds)}")
    jobs = [{"id": f"r{i}", "in": s} for i, s in enumerate(sc)]
    res = core.parallel_py(chk.scratch, "harness.w_render", jobs, nproc=4, timeout=600)
    judge_render(chk, res, "family")
    chk.cov["constructs_rendered"] = dict(kinds)
    chk.sample({"kind": "render", "in": sc[len(sc) // 2]})


def render_replay(chk: Check, sc: dict) -> None:
    res = core.parallel_py(chk.scratch, "harness.w_render", [{"id": "r0", "in": sc["render"]}], nproc=1)
    judge_render(chk, res, "replay")


def has_unlisted_failure(chk: Check) -> bool:
    listed = [f for f in core.load_findings() if f.get("property") == chk.prop]
    return any(not any(core._match(e, f["clause"], f["locus"]) for e in listed) for f in chk.fails)


def run(chk: Check) -> None:
    writer_layer(chk)
    try:
        render_layer(chk)
    except core.MachineryError as e:
        # the renderer sits on top of the writers: when the writer layer has already found an unlisted violation, a renderer
        # that cannot even be driven (runaway output, worker killed) must not turn the verdict into a machinery failure
        if not has_unlisted_failure(chk):
            raise
        chk.note_drift(f"renderer layer not evaluated: {str(e)[:200]}")
    chk.cov["rule"] = (
        "Writer.tla: every (level, partial line, just-newlined flag) frontier x every public method call of the bounded alphabets "
        "(texts: empty / plain / leading+trailing blanks / blank-only / multi-line / tab / U+2028; widths around the column) + every call "
        "sequence of Gen_WriterPaths; renderer: TLC-generated class / enum / alias families parsed with ast"
    )
    chk.cov["exhaustive"] = True


def replay(chk: Check, path: str) -> None:
    rp = json.loads(open(path).read())
    sc = rp["scenario"]
    if "render" in sc:
        render_replay(chk, sc)
        return
    rec = sc["record"]
    if "path" in sc:
        job = {"id": "r", "kind": "paths", "paths": [{"id": "p0", "mw": 12, "calls": sc["path"]}]}
    else:
        job = {"id": "r", "kind": "edges", "recs": [{"id": "f0", "s": rec["s"], "c": rec["c"]}]}
    res = core.parallel_py(chk.scratch, "harness.w_writer", [job], nproc=1)
    records = res[0]["out"]
    verdicts = judge(chk, records, "replay")
    account(chk, records, verdicts, {"p0": {"calls": sc.get("path", [])}})
