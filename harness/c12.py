"""C12 - generated clients are self-contained.

Shares C01's pipeline (feature documents -> generation -> observation with the generator blocked); judged by
Trace_Load.tla: every import statement of every emitted file (top level, nested, TYPE_CHECKING) is closed over
stdlib + httpx + cattrs + the package + its core (PyImport!Closed); nothing tries to import the generator at run
time; the runtime modules in the core package are byte-identical to the ones shipped with the generator
(with and without post-processing)."""

from __future__ import annotations

import json

from . import c01, loadpipe
from .core import Check

LEVEL = "exploration"


def run(chk: Check) -> None:
    chk.cov["rule"] = (
        "same document family as C01 (feature singles + pairs x layouts x strategies, TLC Gen_Features); every import statement of "
        "every emitted file is one membership evaluation; runtime files compared byte-for-byte (and by AST) for packages generated "
        "without and with post-processing; non-trivial = distinct accepted scenario"
    )
    chk.assumptions += ["the stdlib module list is sys.stdlib_module_names of the observing interpreter", "import statements are found with ast at any nesting depth, including TYPE_CHECKING blocks"]
    c01.run_family(chk, ("C12.",), runtime=True, entries=False)
    chk.require(chk.cov["clauses_checked"].get("import_statements", 0) > 0, "no import statement was judged")
    chk.require(chk.cov["clauses_checked"].get("runtime_files", 0) > 0, "no runtime file was compared")
    chk.cov["exhaustive"] = False


def replay(chk: Check, path: str) -> None:
    c01.replay(chk, path)
    chk.fails = [f for f in chk.fails if f["clause"].startswith("C12.")]
