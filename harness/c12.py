"""C12 - generated clients are self-contained.

Shares C01's pipeline (feature documents -> generation -> observation with the generator blocked); judged by
Trace_Load.tla: every import statement of every emitted file (top level, nested, TYPE_CHECKING) is closed over
stdlib + httpx + cattrs + the package + its core (PyImport!Closed); nothing tries to import the generator at run
time; the runtime modules in the core package are byte-identical to the ones shipped with the generator
(with and without post-processing)."""

from __future__ import annotations

import json

from . import c01, loadpipe  # noqa: I001
from .core import Check

LEVEL = "exploration"


def run(chk: Check) -> None:
    chk.cov["rule"] = (
        "same document family as C01 (feature singles + pairs x layouts x strategies, TLC Gen_Features); every import statement of "
        "every emitted file is one membership evaluation; runtime files compared byte-for-byte (and by AST) for packages generated "
        "without and with post-processing; non-trivial = distinct accepted scenario"
    )
    chk.assumptions += ["the stdlib module list is sys.stdlib_module_names of the observing interpreter", "import statements are found with ast at any nesting depth, including TYPE_CHECKING blocks"]
    c01.run_family(chk, ("C12.",), runtime=True, entries=False)
    shared_core_history(chk)
    chk.require(chk.cov["clauses_checked"].get("import_statements", 0) > 0, "no import statement was judged")
    chk.require(chk.cov["clauses_checked"].get("runtime_files", 0) > 0, "no runtime file was compared")
    chk.cov["exhaustive"] = False


def shared_core_history(chk: Check) -> None:
    """RuntimeVerbatim must hold after ANY generation, also into a core package that already exists: generate client alpha
    with an external core, tamper with runtime modules of that core (an older release / a local edit), generate client
    beta (and regenerate alpha) into the same core, then compare every runtime file with the shipped one."""
    from pathlib import Path

    from . import core as hcore, features

    root = chk.scratch.sub("corehist")
    spec = features.build(["many_errors"])
    layouts = [("ha.alpha", "ha.beta", "ha.core"), ("alpha1", "beta1", "sharedcore1"), ("hb.x.alpha", "hb.x.beta", "hb.x.core")]
    traces = []
    for i, (pa, pb, corep) in enumerate(layouts):
        r = str(root / f"h{i}")
        g = hcore.parallel_py(chk.scratch, "harness.w_gen", [{"id": f"ha{i}", "root": r, "spec": spec, "pkg": pa, "core": corep, "force": True, "nopp": True}])[0]
        chk.require(g["ok"], f"history setup generation failed: {g['err']}")
        cdir = Path(r).joinpath(*corep.split("."))
        for rel, how in (("http_transport.py", "append"), ("auth/plugins.py", "append"), ("utils.py", "older")):
            p = cdir / rel
            txt = p.read_text()
            p.write_text(txt + "\n# stale local edit\n" if how == "append" else txt.replace("class ", "class  ", 1))
        for step, (pkg, force) in enumerate(((pb, True), (pa, True))):
            g = hcore.parallel_py(chk.scratch, "harness.w_gen", [{"id": f"hs{i}_{step}", "root": r, "spec": spec, "pkg": pkg, "core": corep, "force": force, "nopp": True}])[0]
            chk.require(g["ok"], f"history generation failed: {g['err']}")
            rec = {"sc": {"features": ["many_errors"], "layout": {"history": f"tampered shared core, step {step}", "core": corep}, "strategy": "operationId"}, "job": {"id": f"hs{i}_{step}", "root": r, "pkg": pkg, "core": corep}, "gen": g, "obs": {"compile": {"errors": []}}}
            traces += loadpipe.build_events(chk, [rec], {}, runtime=True, nopp=True)
            # restore the tampering for the next step so that each step is judged on its own
            if step == 0:
                for rel in ("http_transport.py", "auth/plugins.py"):
                    p = cdir / rel
                    p.write_text(p.read_text() + "\n# stale local edit\n")
    vs = loadpipe.judge(chk, traces, "shared-core-history")
    by_id = {t["id"]: t for t in traces}
    for v in vs:
        chk.count()
        chk.clause("runtime_files_history", v["nruntime"])
        for f in v["fails"]:
            if f["clause"].startswith("C12."):
                loc = dict(f["locus"])
                loc["history"] = "existing_core"
                chk.fail(f["clause"], loc, by_id[v["id"]]["_rec"]["sc"], "")


def replay(chk: Check, path: str) -> None:
    c01.replay(chk, path)
    chk.fails = [f for f in chk.fails if f["clause"].startswith("C12.")]
