"""C05 observers for emitted packages (registered into harness.w_obs next to harness.obs_wire; generator blocked).

  retkinds : for every client method, the python kinds its REAL return annotation admits (resolved with
             typing.get_type_hints, so aliases such as `ThingList = List[Thing]` are seen through):
             "none", "model:<Class>", "enum:<Class>", "list", "dict", "str", "int", "float", "bool", "bytes", "any",
             "aiter:<kind>" for async iterators; "unresolved" when the hints cannot be evaluated
  helpers  : job["helpers"] = [{"hid", "fn": "iter_bytes|iter_ndjson|iter_sse|iter_sse_events_text", "chunks": [[int]]}]:
             the bundled <core>.streaming_helpers function is fed an httpx.Response streaming exactly these chunks;
             outcome as in obs_wire (`items` re-serialised independently, or `raise`)
"""

from __future__ import annotations

import asyncio
import collections.abc
import dataclasses
import enum
import importlib
import types
import typing
from typing import Any

import httpx

from harness.obs_wire import _methods, discover, jsonable, make_client, pykind  # noqa: F401
from harness.w_obs import register, short_exc

_AITER = (collections.abc.AsyncIterator, collections.abc.AsyncIterable, collections.abc.AsyncGenerator)


def kinds_of(t: Any, depth: int = 0) -> list[str]:
    if depth > 6:
        return ["other:deep"]
    if t is None or t is type(None):
        return ["none"]
    if t is typing.Any or t is object:
        return ["any"]
    origin = typing.get_origin(t)
    if origin is typing.Annotated:
        return kinds_of(typing.get_args(t)[0], depth + 1)
    if origin in _AITER or t in _AITER:
        a = typing.get_args(t)
        inner = kinds_of(a[0], depth + 1) if a else ["any"]
        return ["aiter:" + k for k in inner]
    if origin in (list, typing.List) or t is list:
        return ["list"]
    if origin in (dict, typing.Dict) or t is dict:
        return ["dict"]
    if origin is typing.Union or isinstance(t, types.UnionType):
        out: list[str] = []
        for a in typing.get_args(t):
            for k in kinds_of(a, depth + 1):
                if k not in out:
                    out.append(k)
        return out
    if isinstance(t, type):
        if issubclass(t, enum.Enum):
            return ["enum:" + t.__name__]
        if dataclasses.is_dataclass(t):
            return ["model:" + t.__name__]
        if t in (bool, int, float, str, bytes):
            return [t.__name__]
        return ["other:" + t.__name__]
    return ["other:" + repr(t)[:40]]


@register("retkinds")
def obs_retkinds(job: dict) -> Any:
    d = discover(job)
    client = make_client(job, d)
    out = []
    for pname in sorted(d["props"]):
        try:
            tc = getattr(client, pname)
        except Exception:  # noqa: BLE001
            continue
        for mn, fn in _methods(type(tc)).items():
            try:
                hints = typing.get_type_hints(fn)
                kinds = kinds_of(hints["return"]) if "return" in hints else ["unannotated"]
                err = None
            except Exception as e:  # noqa: BLE001
                kinds, err = ["unresolved"], short_exc(e)
            out.append({"prop": pname, "method": mn, "kinds": kinds, "error": err})
    return out


@register("helpers")
def obs_helpers(job: dict) -> Any:
    mod = importlib.import_module((job.get("core") or job["pkg"] + ".core") + ".streaming_helpers")
    out = []
    loop = asyncio.new_event_loop()
    try:
        for h in job["helpers"]:
            fn = getattr(mod, h["fn"], None)
            if fn is None:
                out.append({"hid": h["hid"], "outcome": {"kind": "raise", "exc": {"type": "AttributeError", "msg": f"no helper {h['fn']}", "where": ""}}})
                continue

            async def run(h=h, fn=fn) -> dict:
                async def gen():
                    for c in h["chunks"]:
                        yield bytes(c)

                resp = httpx.Response(200, content=gen())
                try:
                    items = []
                    async for it in fn(resp):
                        items.append(it)
                        if len(items) >= 50:
                            break
                    vals = [getattr(i, "data") if type(i).__name__ == "SSEEvent" else i for i in items]
                    return {"kind": "items", "items": [jsonable(v) for v in vals], "pykinds": [pykind(v) for v in vals]}
                except BaseException as e:  # noqa: BLE001
                    if isinstance(e, (KeyboardInterrupt, asyncio.CancelledError)):
                        raise
                    return {"kind": "raise", "exc": short_exc(e)}

            out.append({"hid": h["hid"], "outcome": loop.run_until_complete(asyncio.wait_for(run(), 20))})
    finally:
        loop.close()
    return out


@register("serve_by_path")
def obs_serve_by_path(job: dict) -> Any:
    """obs_wire's `serve` observation, addressed: one probe entry (204, no content) shows which method sends to which
    path; afterwards every serve entry is played only to the method(s) whose request path matches its `path_re`
    (obs_wire.obs_serve with `only_methods`), so the number of calls is linear in the number of entries."""
    import re

    from harness.obs_wire import obs_serve

    probe = obs_serve({**job, "serve": [{"sid": "__probe__", "status": 204, "ctype": "", "transport": "bundled"}], "only_methods": None})
    paths: dict[str, list[str]] = {}
    for rec in probe:
        for s in rec["sent"]:
            paths.setdefault(rec["method"], []).append(s["path"])
    groups: dict[tuple, list[dict]] = {}
    for e in job["serve"]:
        ms = tuple(sorted(m for m, ps in paths.items() if any(re.fullmatch(e["path_re"], p) for p in ps))) if e.get("path_re") else tuple(sorted(paths))
        groups.setdefault(ms, []).append(e)
    out = []
    for ms, entries in groups.items():
        if ms:
            out += obs_serve({**job, "serve": entries, "only_methods": list(ms)})
    return out
