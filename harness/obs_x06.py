"""Observer for X06 (registered into harness.w_obs; runs with the generator blocked): the registry of Enum classes of an
emitted package, the annotation of every enum position of the document, and a round trip of every admitted value.

job: {"id", "root", "pkg", "want": ["x06"], "positions": [...as printed by Gen_EnumPipe...], "owners": {object owner -> [wire keys]},
      "ops": {op owner -> path}}
result["x06"] = {"import_err", "culprit", "classes": [...], "ann": [...], "rt": [...]}  (shapes: specs/EnumPipe.tla, part 1b)

Classes are identified by what they ARE (`<module stem>.<class name>` of the class object reached from the annotation), dataclasses by
the marker wire key `mk_<owner>` they carry, operations by the request they send - never by re-deriving a name."""

from __future__ import annotations

import ast
import asyncio
import dataclasses
import enum
import importlib
import inspect
import json
import keyword
import re
import types
import typing
from pathlib import Path
from typing import Any

import httpx

from harness.w_obs import pkg_dir, register, short_exc

TOKENS = (("€", "<euro>"), ("£", "<pound>"), ('"', "<dq>"), ("'", "<sq>"), ("\\", "<bs>"), ("\n", "<nl>"), ("\b", "<bsp>"), ("\t", "<tab>"), ("\r", "<cr>"))


def abstract_text(s: str) -> str:
    for ch, tok in TOKENS:
        s = s.replace(ch, tok)
    return "".join(c if 32 <= ord(c) < 127 else f"<u{ord(c):04x}>" for c in s)


def concrete_text(s: str) -> str:
    for ch, tok in TOKENS:
        s = s.replace(tok, ch)
    return s


def tag(v: Any) -> dict[str, str]:
    """Python / JSON value -> the tagged value of specs/EnumPipe.tla."""
    if isinstance(v, enum.Enum):
        v = v.value
    if v is None:
        return {"t": "n", "v": ""}
    if isinstance(v, bool):
        return {"t": "b", "v": "true" if v else "false"}
    if isinstance(v, int):
        return {"t": "i", "v": str(int(v))}
    if isinstance(v, float):
        return {"t": "f", "v": repr(float(v))}
    if isinstance(v, str):
        return {"t": "s", "v": abstract_text(str.__str__(v))}
    return {"t": "o", "v": abstract_text(repr(v))[:60]}


def untag(t: dict[str, str]) -> Any:
    k, v = t["t"], t["v"]
    return None if k == "n" else (v == "true") if k == "b" else int(v) if k == "i" else float(v) if k == "f" else concrete_text(v)


def member_fact(cls_name: str, n: str) -> str:
    """Is `n` acceptable as the name of an Enum member?  Python's own rules: str.isidentifier, keyword.iskeyword, the enum module's
    reserved forms (_sunder_, __dunder__, __private) and `mro`."""
    if not n.isidentifier():
        return "invalid"
    if keyword.iskeyword(n):
        return "keyword"
    if len(n) > 4 and n[:2] == n[-2:] == "__" and n[2] != "_" and n[-3] != "_":
        return "dunder"
    if len(n) > 2 and n[0] == n[-1] == "_" and n[1] != "_" and n[-2] != "_":
        return "sunder"
    if n.startswith("__") and not n.endswith("__"):
        return "private"
    if n == "mro":
        return "reserved"
    return "ok"


def cls_id(c: type) -> str:
    return f"{c.__module__.split('.')[-1]}.{c.__name__}"


# ------------------------------------------------------------------------------------------------ registry
def scan_sources(mdir: Path) -> list[dict[str, Any]]:
    """Every class with an Enum base in models/*.py, read with `ast` (works when the module cannot be imported)."""
    out = []
    for p in sorted(mdir.glob("*.py")):
        if p.name == "__init__.py":
            continue
        text = p.read_text()
        if "Enum" not in text:
            continue
        try:
            tree = ast.parse(text)
        except SyntaxError:
            m = re.search(r"^class (\w+)\((?:str|int), Enum\)", text, re.M)
            if m:
                out.append({"stem": p.stem, "name": m.group(1), "base": "other", "src": [], "syntax": True})
            continue
        for node in tree.body:
            if isinstance(node, ast.ClassDef) and any((isinstance(b, ast.Name) and b.id == "Enum") or (isinstance(b, ast.Attribute) and b.attr == "Enum") for b in node.bases):
                bases = [b.id for b in node.bases if isinstance(b, ast.Name)]
                base = "str" if "str" in bases else "int" if "int" in bases else "other"
                src = []
                for st in node.body:
                    if isinstance(st, ast.Assign) and len(st.targets) == 1 and isinstance(st.targets[0], ast.Name):
                        src.append({"name": st.targets[0].id, "fact": member_fact(node.name, st.targets[0].id)})
                out.append({"stem": p.stem, "name": node.name, "base": base, "src": src, "syntax": False})
    return out


def registry(job: dict, res: dict) -> dict[str, type]:
    pkg = job["pkg"]
    mdir = pkg_dir(job["root"], pkg) / "models"
    found = scan_sources(mdir) if mdir.exists() else []
    res["import_err"], res["culprit"] = "none", ""
    try:
        importlib.import_module(pkg + ".models")
    except BaseException as e:  # noqa: BLE001
        if isinstance(e, KeyboardInterrupt):
            raise
        x = short_exc(e)
        res["import_err"], res["culprit"], res["import_msg"] = x["type"], Path(x["file"]).stem if x["file"] else "", x["msg"][:200]
    live: dict[str, type] = {}
    classes = []
    for f in found:
        cid = f"{f['stem']}.{f['name']}"
        rec = {"cls": cid, "base": f["base"], "built": False, "src": f["src"], "members": [], "err": "syntax" if f["syntax"] else res["import_err"]}
        if res["import_err"] == "none":
            try:
                mod = importlib.import_module(f"{pkg}.models.{f['stem']}")
                c = getattr(mod, f["name"])
                rec["built"] = isinstance(c, type) and issubclass(c, enum.Enum)
                if rec["built"]:
                    rec["members"] = [{"name": m.name, "val": tag(m.value)} for m in c]
                    rec["err"] = "none"
                    live[cid] = c
            except BaseException as e:  # noqa: BLE001
                if isinstance(e, KeyboardInterrupt):
                    raise
                rec["err"] = type(e).__name__
        classes.append(rec)
    res["classes"] = classes
    return live


# ------------------------------------------------------------------------------------------------ annotations
def strip_optional(t: Any) -> tuple[Any, bool]:
    origin = typing.get_origin(t)
    if origin is typing.Annotated:
        return strip_optional(typing.get_args(t)[0])
    if origin is typing.Union or isinstance(t, types.UnionType):
        args = typing.get_args(t)
        non = [a for a in args if a is not type(None)]
        if len(non) == 1:
            inner, _ = strip_optional(non[0])
            return inner, len(non) != len(args)
        return t, len(non) != len(args)
    return t, False


def descend(t: Any, where: str) -> Any:
    """The type standing at the position: the annotation itself, the element type of a list, the value type of a map / map wrapper."""
    t, _ = strip_optional(t)
    if where == "direct":
        return t
    origin = typing.get_origin(t)
    if where == "item":
        if origin in (list, typing.List, tuple, set, typing.Sequence):
            a = typing.get_args(t)
            return strip_optional(a[0])[0] if a else typing.Any
        return ("notalist", t)
    if where == "mapval":
        if origin in (dict, typing.Dict):
            a = typing.get_args(t)
            return strip_optional(a[1])[0] if len(a) == 2 else typing.Any
        if isinstance(t, type) and dataclasses.is_dataclass(t) and any(f.name == "_data" for f in dataclasses.fields(t)):
            try:
                h = typing.get_type_hints(t)
            except BaseException:  # noqa: BLE001
                return ("notamap", t)
            return descend(h.get("_data"), "mapval")
        return ("notamap", t)
    raise ValueError(where)


def classify(t: Any) -> dict[str, Any]:
    if isinstance(t, tuple):
        return {"kind": "other", "cls": t[0], "vals": []}
    if t is typing.Any:
        return {"kind": "any", "cls": "Any", "vals": []}
    if typing.get_origin(t) is typing.Literal:
        return {"kind": "closed", "cls": "", "vals": [tag(a) for a in typing.get_args(t)]}
    if isinstance(t, type):
        if issubclass(t, enum.Enum):
            return {"kind": "closed", "cls": cls_id(t), "vals": [tag(m.value) for m in t]}
        if t in (str, int, float, bool):
            return {"kind": "plain", "cls": t.__name__, "vals": []}
        if dataclasses.is_dataclass(t):
            return {"kind": "other", "cls": "dataclass:" + t.__name__, "vals": []}
        return {"kind": "other", "cls": t.__name__, "vals": []}
    return {"kind": "other", "cls": str(t)[:60], "vals": []}


def find_dataclasses(job: dict) -> dict[str, Any]:
    """object owner -> (dataclass, wire key -> python field) by the marker key."""
    out: dict[str, Any] = {}
    try:
        models = importlib.import_module(job["pkg"] + ".models")
    except BaseException:  # noqa: BLE001
        return out
    for nm, obj in vars(models).items():
        if isinstance(obj, type) and dataclasses.is_dataclass(obj):
            meta = getattr(obj, "Meta", None)
            load = dict(getattr(meta, "key_transform_with_load", {}) or {}) if meta else {}
            names = {f.name for f in dataclasses.fields(obj)}
            wire = {**{n: n for n in names}, **load}
            for owner in job["owners"]:
                if "mk_" + owner in wire and owner not in out:
                    out[owner] = (obj, wire)
    return out


class Capture:
    def __init__(self) -> None:
        self.reqs: list[httpx.Request] = []
        self._c = httpx.AsyncClient(base_url="http://srv.test", transport=httpx.MockTransport(self._handle))

    def _handle(self, req: httpx.Request) -> httpx.Response:
        self.reqs.append(req)
        return httpx.Response(204)

    async def request(self, method: str, url: str, **kw: Any) -> httpx.Response:
        return await self._c.request(method, url, **kw)

    async def close(self) -> None:
        await self._c.aclose()


def find_methods(job: dict) -> tuple[list[tuple[Any, str, Any]], str]:
    """[(client instance, method name, capture)] for every public coroutine method of every endpoint client class."""
    out = []
    edir = pkg_dir(job["root"], job["pkg"]) / "endpoints"
    err = "none"
    for p in sorted(edir.glob("*.py")) if edir.exists() else []:
        if p.name == "__init__.py":
            continue
        try:
            mod = importlib.import_module(f"{job['pkg']}.endpoints.{p.stem}")
        except BaseException as e:  # noqa: BLE001
            if isinstance(e, KeyboardInterrupt):
                raise
            err = type(e).__name__
            continue
        for nm, c in vars(mod).items():
            if isinstance(c, type) and c.__module__ == mod.__name__ and nm.endswith("Client") and not getattr(c, "_is_protocol", False):
                cap = Capture()
                try:
                    inst = c(cap, "http://srv.test")
                except BaseException:  # noqa: BLE001
                    continue
                for mn, fn in vars(c).items():
                    if not mn.startswith("_") and inspect.iscoroutinefunction(fn):
                        out.append((inst, mn, cap))
    return out, err


def to_arg(info: dict[str, Any], t: Any, v: Any) -> tuple[Any, str]:
    """The Python argument a caller passes for the JSON value v where the annotation is t."""
    if info["kind"] == "closed" and isinstance(t, type) and issubclass(t, enum.Enum):
        for m in t:
            if m.value == v and type(m.value) is type(v):
                return m, "ok"
        return None, "no_member"
    return v, "ok"


async def call(inst: Any, name: str, cap: Capture, kwargs: dict[str, Any]) -> tuple[httpx.Request | None, str]:
    cap.reqs.clear()
    try:
        await getattr(inst, name)(**kwargs)
    except BaseException as e:  # noqa: BLE001
        if isinstance(e, KeyboardInterrupt):
            raise
        if not cap.reqs:
            return None, type(e).__name__
    return (cap.reqs[-1] if cap.reqs else None), "none"


def mate_value(q: dict, a: dict | None) -> dict | None:
    """A value for a REQUIRED neighbour of the position under test: one that the neighbour's own annotation accepts, so that the
    verdict on the position under test does not depend on the neighbour being right."""
    adm = [x for x in q["admits"] if x["t"] != "n"]
    if a is not None and a["kind"] == "closed" and a["vals"]:
        both = [x for x in adm if x in a["vals"]]
        return both[0] if both else a["vals"][0]
    return adm[0] if adm else None


def wrap_val(where: str, v: Any) -> Any:
    return v if where == "direct" else [v] if where == "item" else {"k": v}


def unwrap_val(where: str, v: Any) -> tuple[Any, bool]:
    try:
        return (v, True) if where == "direct" else (v[0], True) if where == "item" else (v["k"], True)
    except (KeyError, IndexError, TypeError):
        return None, False


@register("x06")
def obs_x06(job: dict) -> Any:
    res: dict[str, Any] = {}
    registry(job, res)
    positions = job["positions"]
    ann: list[dict[str, Any]] = []
    rt: list[dict[str, Any]] = []
    types_at: dict[str, Any] = {}
    dcs = find_dataclasses(job) if res["import_err"] == "none" else {}
    hints_of: dict[str, dict[str, Any]] = {}
    # ---- object-owned positions
    for p in [x for x in positions if x["ok"] == "object"]:
        rec = {"pos": p["id"], "kind": "missing", "cls": "", "vals": [], "opt": False}
        if res["import_err"] != "none":
            rec["cls"] = "import:" + res["import_err"]
        elif p["owner"] not in dcs:
            rec["cls"] = "no_dataclass"
        else:
            dc, wire = dcs[p["owner"]]
            if p["owner"] not in hints_of:
                try:
                    hints_of[p["owner"]] = typing.get_type_hints(dc, include_extras=True)
                except BaseException as e:  # noqa: BLE001
                    hints_of[p["owner"]] = {"__err__": type(e).__name__}
            h = hints_of[p["owner"]]
            if "__err__" in h:
                rec["cls"] = "hints:" + h["__err__"]
            elif p["key"] not in wire or wire[p["key"]] not in h:
                rec["cls"] = "no_field"
            else:
                full = h[wire[p["key"]]]
                t = descend(full, p["where"])
                rec.update(classify(t))
                rec["opt"] = strip_optional(full)[1]
                types_at[p["id"]] = t
        ann.append(rec)
    conv = None
    if res["import_err"] == "none":
        try:
            conv = importlib.import_module(job["pkg"] + ".core.cattrs_converter")
        except BaseException as e:  # noqa: BLE001
            res["conv_err"] = type(e).__name__
    for p in [x for x in positions if x["ok"] == "object"]:
        mates = [q for q in positions if q["owner"] == p["owner"] and q["id"] != p["id"] and q["req"]]
        for v in p["admits"]:
            r = {"pos": p["id"], "val": v, "ok": False, "back": [], "why": ""}
            rt.append(r)
            if conv is None or p["owner"] not in dcs:
                r["why"] = "no_converter" if conv is None else "no_dataclass"
                continue
            payload: dict[str, Any] = {"mk_" + p["owner"]: "m"}
            for q in mates:
                mv = mate_value(q, next((a for a in ann if a["pos"] == q["id"]), None))
                if mv is not None:
                    payload[q["key"]] = wrap_val(q["where"], untag(mv))
            payload[p["key"]] = wrap_val(p["where"], untag(v))
            try:
                obj = conv.structure_from_dict(json.loads(json.dumps(payload)), dcs[p["owner"]][0])
            except BaseException as e:  # noqa: BLE001
                if isinstance(e, KeyboardInterrupt):
                    raise
                r["why"] = "structure:" + type(e).__name__
                continue
            try:
                out = json.loads(json.dumps(conv.unstructure_to_dict(obj)))
            except BaseException as e:  # noqa: BLE001
                if isinstance(e, KeyboardInterrupt):
                    raise
                r["why"] = "unstructure:" + type(e).__name__
                continue
            r["ok"] = True
            if isinstance(out, dict) and p["key"] in out:
                got, ok = unwrap_val(p["where"], out[p["key"]])
                r["back"] = [tag(got)] if ok else []
                r["why"] = "" if ok else "shape"
            else:
                r["why"] = "key_dropped"
    # ---- operation-owned positions: identify the method by the request it sends
    op_pos = [x for x in positions if x["ok"] == "op"]
    if op_pos:
        loop = asyncio.new_event_loop()
        try:
            methods, eerr = find_methods(job)
            by_owner: dict[str, Any] = {}
            for inst, mn, cap in methods:
                fn = getattr(type(inst), mn)
                try:
                    hints = typing.get_type_hints(fn, include_extras=True)
                except BaseException as e:  # noqa: BLE001
                    hints = {"__err__": type(e).__name__}
                sig = inspect.signature(fn)
                by_owner_candidate = {"inst": inst, "mn": mn, "cap": cap, "hints": hints, "sig": sig}
                # a first call with a value for every argument tells which operation this is
                kwargs = {}
                for pn, prm in sig.parameters.items():
                    if pn == "self":
                        continue
                    t = hints.get(pn, str)
                    inner, _ = strip_optional(t)
                    lst = typing.get_origin(inner) in (list, typing.List)
                    el = descend(t, "item") if lst else inner
                    info = classify(el)
                    if info["kind"] == "closed" and info["vals"]:
                        a, _ = to_arg(info, el, untag(info["vals"][0]))
                    else:
                        a = 1 if el in (int, float) else True if el is bool else "x"
                    kwargs[pn] = [a] if lst else a
                req, exc = loop.run_until_complete(call(inst, mn, cap, kwargs))
                if req is not None:
                    for owner, path in job["ops"].items():
                        if req.url.path == path:
                            by_owner[owner] = by_owner_candidate
            for p in op_pos:
                rec = {"pos": p["id"], "kind": "missing", "cls": "", "vals": [], "opt": False}
                m = by_owner.get(p["owner"])
                if m is None:
                    rec["cls"] = "no_method" if eerr == "none" else "import:" + eerr
                elif "__err__" in m["hints"]:
                    rec["cls"] = "hints:" + m["hints"]["__err__"]
                elif p["key"] not in m["sig"].parameters or p["key"] not in m["hints"]:
                    rec["cls"] = "no_param"
                else:
                    full = m["hints"][p["key"]]
                    t = descend(full, p["where"])
                    rec.update(classify(t))
                    rec["opt"] = strip_optional(full)[1]
                    types_at[p["id"]] = t
                ann.append(rec)
            for p in op_pos:
                m = by_owner.get(p["owner"])
                arec = next(a for a in ann if a["pos"] == p["id"])
                mates = [q for q in op_pos if q["owner"] == p["owner"] and q["id"] != p["id"] and q["req"]]
                for v in p["admits"]:
                    if v["t"] == "n":
                        continue  # a parameter has no null on the wire
                    r = {"pos": p["id"], "val": v, "ok": False, "back": [], "why": ""}
                    rt.append(r)
                    if m is None or p["id"] not in types_at:
                        r["why"] = "no_method" if m is None else arec["cls"]
                        continue
                    kwargs = {}
                    bad = ""
                    for q in mates + [p]:
                        if q["id"] not in types_at:
                            bad = "mate_missing"
                            continue
                        qv = v if q is p else mate_value(q, next((a for a in ann if a["pos"] == q["id"]), None))
                        qa = next(a for a in ann if a["pos"] == q["id"])
                        a, why = to_arg(qa, types_at[q["id"]], untag(qv))
                        if why != "ok":
                            bad = why if q is p else "mate_" + why
                        kwargs[q["key"]] = [a] if q["where"] == "item" else a
                    if bad:
                        r["why"] = bad
                        continue
                    req, exc = loop.run_until_complete(call(m["inst"], m["mn"], m["cap"], kwargs))
                    if req is None:
                        r["why"] = "call:" + exc
                        continue
                    r["ok"] = True
                    got = req.url.params.get_list(p["key"])
                    want = v["v"] if v["t"] in ("i", "f") else "true" if v == {"t": "b", "v": "true"} else "false" if v["t"] == "b" else concrete_text(v["v"])
                    if got == [want]:
                        r["back"] = [v]
                    else:
                        r["back"] = [tag(x) for x in got][:1]
                        r["why"] = f"wire={got!r}"[:80]
        finally:
            loop.close()
    res["ann"] = ann
    res["rt"] = rt
    return res
