"""C02 - schema-to-model structure fidelity.

TLC enumerates every schema graph over a name set (Gen_Graphs, Docs.tla vocabulary); the real parser's IR and
the dataclasses of the generated + imported package are observed; Trace_Fidelity (TLC) judges the observed
models against Docs!ExpectedFields, the independent reference resolver.
"""

from __future__ import annotations

import json
import re
from typing import Any

from . import concretise, core, spconf
from .c08 import ALL_KINDS, gen_graphs
from .core import Check, run_tlc

LEVEL = "model_checking"


# ---- projection of an imported model's annotation kind onto the Docs.tla kind vocabulary


def norm_kind(k: list, classes: dict[str, dict], declared: set[str], depth: int = 0) -> str:
    if depth > 6 or not k:
        return "other"
    h = k[0]
    if h == "opt":
        return norm_kind(k[1:], classes, declared, depth + 1)
    if h in ("str", "int", "num", "bool", "any", "bytes"):
        return h
    if h == "list":
        return "list:" + norm_kind(k[1:], classes, declared, depth + 1)
    if h == "map":
        return "map:" + norm_kind(k[1:], classes, declared, depth + 1)
    if h == "union":
        parts = sorted({norm_kind(p, classes, declared, depth + 1) for p in k[1]})
        return "union:" + "|".join(parts)
    if h == "ref":
        name = ALIAS.get(k[1], k[1])
        if name in declared:
            return "ref:" + name
        c = classes.get(name)
        if c and c.get("kind") == "dataclass":
            fs = c["fields"]
            if len(fs) == 1 and fs[0]["py"] == "_data" and fs[0]["kind"][:1] == ["map"]:
                return norm_kind(fs[0]["kind"], classes, declared, depth + 1)
            xs = [f for f in fs if f["wire"] == "x"]
            if len(fs) == 1 and xs:
                return "inlineobj:" + norm_kind(xs[0]["kind"], classes, declared, depth + 1)
            return "obj:" + name
        return "ref?:" + name
    if h == "enum":
        return "enum:" + k[1]
    return "other:" + str(h)


CAUSES: dict[str, dict] = {}
ALIAS: dict[str, str] = {}  # class name -> declared schema name, for documents whose schemas carry content markers (doc["markers"])


def doc_key(d: dict) -> str:
    return json.dumps([d["order"], d["edges"]], sort_keys=True)


def tracker_causes(ev: list[dict]) -> dict:
    """From the recorded tracker events: for which names a cycle placeholder was STORED under the name itself
    (and which disjunct of the storage policy fired), and which names were cut by a cycle/placeholder answer."""
    stored: dict[str, set] = {}
    cut: set[str] = set()
    for e in ev:
        if e.get("k") != "enter" or e["n"] == "__none__":
            continue
        if e["o"] in ("create_cycle", "placeholder", "create_depth"):
            cut.add(e["n"])
        if e["o"] == "create_cycle" and e["stored"]:
            n = e["n"]
            stk = e["pre"]["stack"]
            path = stk[stk.index(n):] + [n] if n in stk else [n, n]
            why = set()
            if "Item" in n or "Property" in n:
                why.add("synthetic")
            if len(path) == 2:
                why.add("direct")
            if any("Children" in x for x in path) and any("ChildrenItem" in x for x in path):
                why.add("children")
            if any(x.startswith(n) and x != n and not x.endswith("Item") for x in path):
                why.add("nested")
            stored.setdefault(n, set()).update(why or {"other"})
    return {"stored": {k: sorted(v) for k, v in stored.items()}, "cut": sorted(cut)}


def observe_ir(chk: Check, docs: list[dict], label: str, env: dict | None = None) -> list[dict]:
    jobs = [{"id": f"{label}_{j}", "spec": concretise.graph_doc(d, use_all=(j % 2 == 0)), "declared": list(d["order"]), "want": ["ir", "events"], "timeout": 60} for j, d in enumerate(docs)]
    res = core.parallel_py(chk.scratch, "harness.w_parse", jobs, env=env)
    traces = []
    for d, j, r in zip(docs, jobs, res):
        if r["err"] != "none":
            chk.cov["not_accepted"] = chk.cov.get("not_accepted", 0) + 1
            continue
        models: dict[str, Any] = {}
        info: dict[str, Any] = {}
        causes = tracker_causes(r.get("ev") or [])
        CAUSES[doc_key(d)] = causes
        for n in d["order"]:
            # the registry is keyed by declared name; the (sanitised) IR name identifies a schema only when no key does
            hits = [(k, s) for k, s in r["ir"].items() if k == n] or [(k, s) for k, s in r["ir"].items() if s["name"] == n]
            count = len(hits)
            fields: list = []
            if hits:
                # the entry the generator will emit for this name: prefer the one keyed by the name
                k, s = sorted(hits, key=lambda h: (h[0] != n,))[0]
                fields = [[f[0], bool(f[1]), "?"] for f in s["fields"]]
                info[n] = {"circ": s["circ"], "depthph": s["depthph"], "unres": s["unres"], "selfstub": s["selfstub"]}
            info.setdefault(n, {})["stored_why"] = causes["stored"].get(n, [])
            info[n]["cut"] = causes["cut"]
            models[n] = {"count": count, "fields": fields}
        traces.append({"id": j["id"], "doc": {"order": d["order"], "edges": d["edges"]}, "level": "ir", "models": models, "_info": info, "_scen": d})
    return traces


def observe_import(chk: Check, docs: list[dict], label: str) -> list[dict]:
    root = chk.scratch.sub("gen_" + re.sub(r"\W", "", label))
    jobs = [{"id": f"{label}_{j}", "root": str(root), "spec": concretise.graph_doc(d, use_all=True), "pkg": f"p{j}.client", "force": True, "nopp": True} for j, d in enumerate(docs)]
    gres = core.parallel_py(chk.scratch, "harness.w_gen", jobs)
    ojobs = []
    for j, g in zip(jobs, gres):
        if g["ok"]:
            ojobs.append({"id": j["id"], "root": j["root"], "pkg": j["pkg"], "want": ["import", "models"]})
        else:
            chk.cov["not_accepted"] = chk.cov.get("not_accepted", 0) + 1
    ores = {r["id"]: r for r in core.parallel_py(chk.scratch, "harness.w_obs", ojobs)} if ojobs else {}
    traces = []
    for d, j in zip(docs, jobs):
        o = ores.get(j["id"])
        if o is None:
            continue
        declared = set(d["order"])
        classes: dict[str, dict] = {}
        counts: dict[str, int] = {}
        for c in o["models"]["classes"]:
            counts[c["cls"]] = counts.get(c["cls"], 0) + 1
            classes[c["cls"]] = c
        for a in o["models"]["aliases"]:
            counts[a["name"]] = counts.get(a["name"], 0) + 1
        import_ok = all(m["ok"] for m in o["import"])
        broken_models = bool(o["models"]["errors"]) or any((not m["ok"]) and ".models" in m["m"] for m in o["import"])
        models: dict[str, Any] = {}
        info: dict[str, Any] = {}
        skip: set[str] = set()
        ALIAS.clear()
        marked: dict[str, list] = {}
        if d.get("markers"):
            # schemas are recognised by their marker property, not by the name the generator derived for the class
            for c0 in o["models"]["classes"]:
                for f in c0.get("fields", []) if c0.get("kind") == "dataclass" else []:
                    if f["wire"].startswith(concretise.MARK):
                        marked.setdefault(f["wire"][len(concretise.MARK):], []).append(c0)
            for n0, cs in marked.items():
                for c0 in cs:
                    ALIAS[c0["cls"]] = n0
        for n in d["order"]:
            c = classes.get(n)
            if d.get("markers"):
                c = (marked.get(n) or [None])[0]
                counts[n] = len(marked.get(n) or [])
            fields = []
            if c and c.get("kind") == "dataclass":
                # a document that names its property keys (doc["keys"]) is judged in the p<i> vocabulary of Docs.tla
                # (different schemas may use the same key: the inverse is taken over the edges that leave THIS schema)
                inv = {v: f"p{k}" for k, v in (d.get("keys") or {}).items() if d["edges"][int(k) - 1]["from"] == n}
                fields = [[inv.get(f["wire"], f["wire"]), bool(f["required"]), norm_kind(f["kind"], classes, declared)] for f in c["fields"] if not f["wire"].startswith(concretise.MARK)]
                doc0 = c.get("doc", "")
                info[n] = {"circ": doc0.startswith("[Circular reference"), "depthph": doc0.startswith("[Maximum recursion"), "unres": False, "selfstub": doc0.startswith("[Self-referencing"), "path": doc0}
            cz = CAUSES.get(doc_key(d), {"stored": {}, "cut": []})
            info.setdefault(n, {})["stored_why"] = cz["stored"].get(n, [])
            info[n]["cut"] = cz["cut"]
            if counts.get(n, 0) == 0 and broken_models:
                # the module that should hold this model does not import: C01's finding, not judged here
                chk.cov["unimportable_models"] = chk.cov.get("unimportable_models", 0) + 1
                skip.add(n)
            models[n] = {"count": counts.get(n, 0), "fields": fields}
        if not import_ok and not o["models"]["classes"]:
            # the models package could not be imported at all: that is C01's finding, nothing to judge here
            chk.cov["unimportable"] = chk.cov.get("unimportable", 0) + 1
            continue
        traces.append({"id": j["id"], "doc": {"order": d["order"], "edges": d["edges"]}, "level": "import", "models": models, "_info": info, "_scen": d, "_import_ok": import_ok, "_skip": sorted(skip), "_classes": sorted(counts)})
    return traces


def closing_kinds(scen: dict, n: str, info: dict) -> list[str]:
    """Kinds of the edges that lead back to n (from the observation's cycle path when there is one)."""
    path = info.get("path") or ""
    m = re.search(r"detected: (.*)\]", path)
    owners = None
    if m:
        hops = [h.strip() for h in m.group(1).split("->")]
        if len(hops) >= 2:
            prev = hops[-2]
            owners = [o for o in scen["order"] if prev == o or prev.startswith(o)]
            owners = sorted(owners, key=len)[-1:]  # longest declared prefix
    ks = sorted({e["kind"] for e in scen["edges"] if e["to"] == n and (owners is None or e["from"] in owners)})
    return ks


def judge(chk: Check, traces: list[dict], label: str) -> None:
    if not traces:
        return
    d = chk.scratch.sub("fid")
    tf = d / "traces.ndjson"
    by_id = {}
    with tf.open("w") as f:
        for t in traces:
            by_id[t["id"]] = t
            f.write(json.dumps({k: v for k, v in t.items() if not k.startswith("_")}) + "\n")
    r = run_tlc(chk.scratch, "Trace_Fidelity", "SPECIFICATION Spec\nCHECK_DEADLOCK FALSE\n", workers=8, env={"TRACE_FILE": str(tf)})
    chk.add_tlc(f"Trace_Fidelity[{label}]", r)
    vs = r.printed.get("VERDICT", [])
    chk.require(len(vs) == len(traces), f"monitor produced {len(vs)} verdicts for {len(traces)} traces")
    chk.cov["traces_validated_against_impl"] += len(traces)
    chk.count(len(traces))
    for v in vs:
        t = by_id[v["id"]]
        scen = t["_scen"]
        chk.clause("C02.fields", v["nfields"])
        if scen["edges"]:
            chk.nontrivial({"doc": [scen["order"], scen["edges"]]})
        if scen.get("inhcycle"):
            continue  # allOf / alias relation cyclic: the property gives the document no meaning
        per_schema: dict[str, list] = {}
        for fl in v["fails"]:
            per_schema.setdefault(fl["n"], []).append(fl)
        for n, fls in per_schema.items():
            if n in t.get("_skip", []):
                continue
            info = t["_info"].get(n, {})
            nexp = len(t["models"][n]["fields"]) if n in t["models"] else 0
            for clause in sorted({f["clause"] for f in fls}):
                keys = sorted(f["key"] for f in fls if f["clause"] == clause)
                lost_all = clause in ("C02.field_lost", "C02.inherited_lost") and nexp == 0
                kinds_lost = sorted({e["kind"] for i, e in enumerate(scen["edges"]) if f"p{i+1}" in keys})
                loc = {
                    "level": t["level"],
                    "placeholder": "cycle" if info.get("circ") else "depth" if info.get("depthph") else "selfstub" if info.get("selfstub") else "none",
                    "all_fields": bool(lost_all),
                    "stored": "+".join(info.get("stored_why", [])),
                }
                if scen.get("markers"):
                    # colliding declared names: which of the pair is declared first - the one that is a fixed point of class-name derivation or the other
                    from . import schemanode
                    reach: list[str] = []
                    for x in scen["order"]:
                        reach += [e["to"] for e in scen["edges"] if e["from"] == "H"] if x == "H" else [x]
                    loc["names"] = "collide"
                    loc["first"] = "stable" if schemanode.san_class(reach[0]) == reach[0] else "changed"   # first of the pair the parser reaches
                if clause == "C02.schema_missing":
                    loc["renamed"] = any(re.fullmatch(re.escape(n) + r"_?\d+", c) for c in t.get("_classes", []))
                if clause == "C02.inherited_lost":
                    # was an ancestor answered with a cycle placeholder while this schema was parsed?
                    anc = {e["to"] for e in scen["edges"] if e["kind"] in ("allOf", "allOfReq", "alias")}
                    loc["ancestor_cut"] = bool(anc & set(info.get("cut", [])))
                if clause in ("C02.kind", "C02.required_flag", "C02.field_extra"):
                    loc["edge_kinds"] = kinds_lost
                    if clause == "C02.kind":
                        obs = {f[0]: f[2] for f in t["models"][n]["fields"]}
                        loc["observed"] = sorted({re.sub(r"(ref\??|obj):\w+", r"\1:*", obs.get(k, "")) for k in keys})
                        if scen.get("keys"):
                            # named (colliding) keys: is the failing property annotated exactly like its sibling?
                            loc["keys"] = "collide"
                            loc["typed_as_sibling"] = all(any(o != k and ov == obs.get(k) for o, ov in obs.items() if o != "id") for k in keys)
                chk.fail(clause, loc, {"doc": {"order": scen["order"], "edges": scen["edges"], **({"keys": scen["keys"]} if scen.get("keys") else {})}, "schema": n, "keys": keys, "level": t["level"]}, f"schema {n} keys {keys} info {info}")
    t = traces[len(traces) // 2]
    chk.sample({"family": label, "doc": t["doc"], "observed": t["models"]})


def run(chk: Check) -> None:
    thorough = chk.tier == "thorough"
    chk.cov["rule"] = (
        "every schema graph over 2 names with <=2 edges (9 edge kinds, required in {T,F}, both declaration orders) for name sets "
        "{A,B}, {User,UserGroup} (prefix-related), {Node,NodeItem} ('Item' synthetic); IR-level judgement for all, generated+imported "
        "dataclass judgement for the {A,B} family; thorough adds 3 names / 3 edges; non-trivial = distinct document with >=1 edge"
    )
    chk.assumptions += [
        "documents with a cyclic allOf/alias relation are generated but not judged (the property gives them no meaning)",
        "documents the loader rejects visibly are counted as not_accepted and not judged",
        "structural kinds are compared after projecting annotations onto the Docs.tla kind vocabulary (harness/c02.py norm_kind)",
    ]
    kinds = [k for k in ALL_KINDS if k != "alias"] + ["allOfReq", "addl"]  # bare-$ref alias schemas are rejected visibly by the loader (see C08 DRIFT)
    fams = [(["A", "B"], 2, (False,)), (["A", "B"], 1, (False, True)), (["User", "UserGroup"], 2, (False,)), (["Node", "NodeItem"], 2, (False,)), (["P", "Q"], 2, (False, True))]
    if thorough:
        fams = [(["A", "B"], 2, (False, True)), (["User", "UserGroup"], 2, (False, True)), (["Node", "NodeItem"], 2, (False,)), (["Children", "ChildrenItem"], 2, (False,)), (["A", "B", "C"], 2, (False,))]
    for names, k, req in fams:
        # the {P,Q} family varies the required flag on two-edge graphs with inheritance (allOf) and plain references only
        base_kinds = [x for x in ALL_KINDS if x != "alias"]
        docs = gen_graphs(chk, names, ["allOf", "allOfReq", "ref", "arr"] if names == ["P", "Q"] else kinds if names == ["A", "B"] or thorough else base_kinds, k, req=req)
        lab = "+".join(names)
        judge(chk, observe_ir(chk, docs, f"ir[{lab}]"), f"ir[{lab}]")
        # the implementation-shaped model: same documents through SchemaParse.tla, compared call by call and field by field
        if thorough or (k == 2 and names in (["A", "B"], ["User", "UserGroup"])):
            spconf.conformance(chk, docs, f"{lab},<={k}")
        if (names == ["A", "B"] and k == 2) or thorough:
            # quick: a third of the family (seed picks the phase) goes through generation + import
            sub = docs if thorough else [d for i, d in enumerate(docs) if (i + chk.seed) % 3 == 0 or any(e["kind"] in ("addl", "allOfReq") for e in d["edges"]) and (i + chk.seed) % 2 == 0]
            judge(chk, observe_import(chk, sub, f"imp[{lab}]"), f"import[{lab}]")
    # two properties of ONE schema whose keys derive the same class-name stem (`userId` / `user_id`, `a-b` / `a_b`): every pair of
    # edge kinds that gives a property a model of its own; "reference to the right model" is judged on the imported dataclasses
    ckinds = ["inline", "arrInline", "map", "oneOf", "ref", "arr"]
    docs = gen_graphs(chk, ["A", "B"], ckinds, 2, req=(False,))
    pairs = [d for d in docs if len(d["edges"]) == 2 and d["edges"][0]["from"] == d["edges"][1]["from"]]
    styles = [{"1": "userId", "2": "user_id"}] + ([{"1": "a-b", "2": "a_b"}, {"1": "Data", "2": "data"}] if thorough else [])
    cdocs = [dict(d, keys=st) for st in styles for d in pairs]
    chk.require(len(cdocs) >= 50, "collision family too small")
    judge(chk, observe_import(chk, cdocs, "imp[collide]"), "import[collide]")
    # the implementation-shaped model on the same family: SchemaParse!AnswersOwnNode (a parse call is never answered with the real
    # entry built from another node) is what the design breaks here; the model's prediction is compared with the real parser
    spconf.conformance(chk, cdocs, "collide")
    # two declared names that derive the SAME class name (FooBar / Foo_Bar) and a holder H that refers to them: each must keep a model of
    # its own and every reference must point at the right one; models are recognised by a marker property, never by the derived name
    docs = gen_graphs(chk, ["FooBar", "Foo_Bar", "H"], ["ref", "arr", "map", "inline"] if not thorough else ["ref", "arr", "map", "inline", "arrInline", "oneOf"], 2, req=(False,))
    hdocs = [dict(d, markers=True) for d in docs if d["edges"] and all(e["from"] == "H" for e in d["edges"]) and {e["to"] for e in d["edges"]} <= {"FooBar", "Foo_Bar"}]
    chk.require(len(hdocs) >= 60, "colliding-schema-name family too small")
    judge(chk, observe_import(chk, hdocs, "imp[namecollide]"), "import[namecollide]")
    # how an object schema is WRITTEN: without `type: object` (legal when it has properties), and with the at-least-one-of idiom
    # (a constraint-only anyOf) next to its properties - the declared properties are the same fields either way
    docs = gen_graphs(chk, ["A", "B"], ["ref", "arr", "inline", "map"] if not thorough else ["ref", "arr", "inline", "map", "oneOf", "allOf"], 2, req=(False, True) if thorough else (False,))
    for style in ("typeless", "atleast"):
        sdocs = [dict(d, style=style) for d in docs]
        judge(chk, observe_ir(chk, sdocs, f"ir[{style}]"), f"ir[{style}]")
        judge(chk, observe_import(chk, sdocs[:: (1 if thorough else 3)], f"imp[{style}]"), f"import[{style}]")
    # thresholds on NAME LENGTH: two long schema names with a long common prefix (the usual ...Request / ...Response pair), each with an inline
    # object under the SAME property key - whatever the generator does to keep derived names short must keep them distinct
    stem = "CustomerOrderFulfilmentNotificationSettingsBulkUpdateOperation"   # 62 characters
    lnames = [stem + "Request", stem + "Response", "L"]
    docs = gen_graphs(chk, lnames, ["inline", "arrInline"] if not thorough else ["inline", "arrInline", "map", "oneOf"], 2, req=(False,))
    ldocs = [dict(d, keys={"1": "preferred_delivery_window", "2": "preferred_delivery_window"}) for d in docs
             if len(d["edges"]) == 2 and {d["edges"][0]["from"], d["edges"][1]["from"]} == set(lnames[:2]) and all(e["to"] != e["from"] for e in d["edges"])
             and not (d["edges"][0]["to"] == d["edges"][1]["from"] and d["edges"][1]["to"] == d["edges"][0]["from"])]
    chk.require(len(ldocs) >= 40, "long-name family too small")
    judge(chk, observe_import(chk, ldocs, "imp[longnames]"), "import[longnames]")
    # accumulation inside ONE document: many array-of-inline-object schemas (each parsed twice) before a chain of named schemas that is
    # first entered three references deep - whatever the parser counts while it walks must be back at rest before the chain is reached
    for limit, n in ((40, 45), (150, 160)) if thorough else ((40, 45),):
        names = ["L"] + [f"R{i:03d}" for i in range(n)] + ["H", "M1", "M2", "M3"]
        edges = [{"from": f"R{i:03d}", "kind": "arrInline", "to": "L", "req": False} for i in range(n)]
        edges += [{"from": "H", "kind": "ref", "to": "M1", "req": False}, {"from": "M1", "kind": "ref", "to": "M2", "req": False}, {"from": "M2", "kind": "ref", "to": "M3", "req": False},
                  {"from": "M3", "kind": "arr", "to": "L", "req": False}, {"from": "M3", "kind": "inline", "to": "L", "req": True}]
        big = {"order": names, "edges": edges, "inhcycle": False}
        judge(chk, observe_ir(chk, [big, dict(big, order=names[:1] + names[-4:] + names[1:-4])], f"ir[many,{limit}]", env={"PYOPENAPI_MAX_DEPTH": str(limit)}), f"ir[many,limit={limit}]")
    if thorough:
        docs = gen_graphs(chk, ["A", "B", "C"], ["ref", "arr", "inline", "map", "oneOf", "allOf"], 3, req=(False,))
        judge(chk, observe_ir(chk, docs, "ir[A+B+C,3]"), "ir[A+B+C,<=3]")
    chk.cov["exhaustive"] = True


def replay(chk: Check, path: str) -> None:
    rec = json.loads(open(path).read())
    sc = rec["scenario"]
    d = {"order": sc["doc"]["order"], "edges": sc["doc"]["edges"], "inhcycle": False}
    if sc["doc"].get("keys"):
        d["keys"] = sc["doc"]["keys"]
    if sc.get("level") == "import":
        judge(chk, observe_import(chk, [d], "replay"), "replay")
    else:
        judge(chk, observe_ir(chk, [d], "replay"), "replay")
    for f in chk.fails:
        print("REPLAY-FAIL", f["clause"], json.dumps(f["locus"]), f["detail"][:200])
