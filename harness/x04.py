"""X04 (beyond the listed properties) - schema -> Python type resolution.

specs/TypeResolve.tla states, independently of the resolver, which JSON values a schema shape admits (Admits) and
which run-time values a Python annotation admits (Denotes), and names what a user relies on: Sound, Total, Imports,
Evaluable, Stable, NoDoubleOptional (Tight is reported as a note).  TLC (MC_TypeResolve) checks the statements on the
reference resolver and on the implementation-shaped resolver over every shape of the bounded family; Gen_TypeResolve
enumerates the shapes, this module turns each into a real OpenAPI document, harness/w_typeresolve.py loads the real IR,
calls the REAL resolver at every position and records annotation / imports / exception; Trace_TypeResolve (TLC) judges
every record and recomputes the implementation-shaped answer from the observed IR (disagreement = DRIFT)."""

from __future__ import annotations

import json
from typing import Any

from . import core
from .concretise import wrap

LEVEL = "model_checking"

R = "#/components/schemas/"

# The fixed named components every document carries.  specs/TypeResolve.tla (Comp) describes the same table.
COMPONENTS: dict[str, Any] = {
    "Pet": {"type": "object", "properties": {"id": {"type": "integer"}, "name": {"type": "string"}}, "required": ["id"]},
    "Color": {"type": "string", "enum": ["red", "green"]},
    "Name": {"type": "string"},
    "Stamp": {"type": "string", "format": "date-time"},
    "Tags": {"type": "array", "items": {"type": "string"}},
    "Pets": {"type": "array", "items": {"$ref": R + "Pet"}},
    "Bag": {"type": "object", "additionalProperties": {"type": "integer"}},
    "Either": {"oneOf": [{"$ref": R + "Pet"}, {"$ref": R + "Color"}]},
    "Maybe": {"type": "object", "properties": {"m": {"type": "string"}}, "nullable": True},
}

PROP_POS = ("prop_req", "prop_opt", "top_use")
ALL_POS = ("prop_req", "prop_opt", "param_req", "param_opt", "body_req", "body_opt", "resp", "respsvc", "top_use")


def conc(sh: dict[str, Any]) -> dict[str, Any]:
    """Abstract shape (specs/TypeResolve.tla vocabulary) -> OpenAPI schema object."""
    k, a, of = sh["k"], sh["a"], sh["of"]
    if k == "prim":
        t, _, f = a.partition(":")
        base: dict[str, Any] = {"type": t}
        if f:
            base["format"] = f
    elif k == "enum":
        base = {"string": {"type": "string", "enum": ["a", "b"]}, "integer": {"type": "integer", "enum": [1, 2]}, "boolean": {"type": "boolean", "enum": [True]}}[a]
    elif k == "any":
        base = {}
    elif k == "object":
        base = {"type": "object"}
        if a:
            base["properties"] = {p: {"type": "string"} for p in a.split(",")}
    elif k == "array":
        base = {"type": "array", "items": conc(of[0])}
    elif k == "map":
        base = {"type": "object", "additionalProperties": True if a == "true" else conc(of[0])}
    elif k == "ref":
        base = {"$ref": R + ("Holder" if a == "Self" else a)}
    elif k in ("oneOf", "anyOf", "allOf"):
        base = {k: [conc(c) for c in of]}
    else:
        raise ValueError(k)
    nul = sh["nul"]
    if nul == "no":
        return base
    if nul == "nullable":
        return {**base, "nullable": True}
    if nul == "type31":
        return {**base, "type": [base["type"], "null"]}
    if nul == "anyOfNull":
        return {"anyOf": [base, {"type": "null"}]}
    if nul == "oneOfNull":
        return {"oneOf": [base, {"type": "null"}]}
    raise ValueError(nul)


def uses31(sh: dict[str, Any]) -> bool:
    return sh["nul"] in ("type31", "anyOfNull", "oneOfNull") or any(uses31(c) for c in sh["of"])


def has_self(sh: dict[str, Any]) -> bool:
    return (sh["k"] == "ref" and sh["a"] == "Self") or any(has_self(c) for c in sh["of"])


def document(sh: dict[str, Any], positions: list[str]) -> dict[str, Any]:
    """One document carrying the shape at every requested position."""
    s = conc(sh)
    schemas = json.loads(json.dumps(COMPONENTS))
    props: dict[str, Any] = {"z": {"type": "string"}}
    req = []
    if "prop_req" in positions:
        props["fr"] = s
        req.append("fr")
    if "prop_opt" in positions:
        props["fo"] = s
    if "top_use" in positions:
        schemas["Top"] = s
        props["tr"] = {"$ref": R + "Top"}
        req.append("tr")
    schemas["Holder"] = {"type": "object", "properties": props, "required": req}
    paths: dict[str, Any] = {"/holder": {"get": {"operationId": "getHolder", "responses": {"200": {"description": "ok", "content": {"application/json": {"schema": {"$ref": R + "Holder"}}}}}}}}
    params = []
    if "param_req" in positions:
        params.append({"name": "qr", "in": "query", "required": True, "schema": s})
    if "param_opt" in positions:
        params.append({"name": "qo", "in": "query", "required": False, "schema": s})
    if params or "resp" in positions or "respsvc" in positions:
        op: dict[str, Any] = {"operationId": "probe", "parameters": params, "responses": {"204": {"description": "none"}}}
        if "resp" in positions or "respsvc" in positions:
            op["responses"] = {"200": {"description": "ok", "content": {"application/json": {"schema": s}}}}
        paths["/probe"] = {"get": op}
    for pos, required in (("body_req", True), ("body_opt", False)):
        if pos in positions:
            paths["/" + pos] = {"post": {"operationId": pos, "requestBody": {"required": required, "content": {"application/json": {"schema": s}}}, "responses": {"204": {"description": "none"}}}}
    doc = wrap(schemas, paths)
    if uses31(sh):
        doc["openapi"] = "3.1.0"
    return doc
