"""X04 (beyond the listed properties) - schema -> Python type resolution.

specs/TypeResolve.tla states, independently of the resolver, which JSON values a schema shape admits (Admits) and
which run-time values a Python annotation admits (Denotes), and names what a user relies on: Sound, Total, Imports,
Evaluable, Stable, NoDoubleOptional (Tight is reported as a note).  TLC (MC_TypeResolve) checks the statements on the
reference resolver and on the implementation-shaped resolver over every shape of the bounded family; Gen_TypeResolve
enumerates the shapes, this module turns each into a real OpenAPI document, harness/w_typeresolve.py loads the real IR,
calls the REAL resolver at every position and records annotation / imports / exception; Trace_TypeResolve (TLC) judges
every record and recomputes the implementation-shaped answer from the observed IR (disagreement = DRIFT)."""

from __future__ import annotations

import json
from typing import Any

from . import core
from .concretise import wrap

LEVEL = "model_checking"

R = "#/components/schemas/"

# The fixed named components every document carries.  specs/TypeResolve.tla (Comp) describes the same table.
COMPONENTS: dict[str, Any] = {
    "Pet": {"type": "object", "properties": {"id": {"type": "integer"}, "name": {"type": "string"}}, "required": ["id"]},
    "Color": {"type": "string", "enum": ["red", "green"]},
    "Name": {"type": "string"},
    "Stamp": {"type": "string", "format": "date-time"},
    "Tags": {"type": "array", "items": {"type": "string"}},
    "Pets": {"type": "array", "items": {"$ref": R + "Pet"}},
    "Bag": {"type": "object", "additionalProperties": {"type": "integer"}},
    "Either": {"oneOf": [{"$ref": R + "Pet"}, {"$ref": R + "Color"}]},
    "Maybe": {"type": "object", "properties": {"m": {"type": "string"}}, "nullable": True},
}

PROP_POS = ("prop_req", "prop_opt", "top_use")
ALL_POS = ("prop_req", "prop_opt", "param_req", "param_opt", "body_req", "body_opt", "resp", "respsvc", "top_use", "alias_def")


def conc(sh: dict[str, Any]) -> dict[str, Any]:
    """Abstract shape (specs/TypeResolve.tla vocabulary) -> OpenAPI schema object."""
    k, a, f, of = sh["k"], sh["a"], sh["f"], sh["of"]
    if k == "prim":
        base: dict[str, Any] = {"type": a}
        if f:
            base["format"] = f
    elif k == "enum":
        vals = f.split(",")
        base = {"type": a, "enum": vals if a == "string" else [int(v) for v in vals] if a == "integer" else [v == "True" for v in vals]}
    elif k == "any":
        base = {}
    elif k == "object":
        base = {"type": "object"}
        if a:
            base["properties"] = {p: {"type": "string"} for p in a.split(",")}
    elif k == "array":
        base = {"type": "array", "items": conc(of[0])}
    elif k == "map":
        base = {"type": "object", "additionalProperties": True if a == "true" else conc(of[0])}
    elif k == "ref":
        base = {"$ref": R + ("Holder" if a == "Self" else a)}
    elif k in ("oneOf", "anyOf", "allOf"):
        base = {k: [conc(c) for c in of]}
    else:
        raise ValueError(k)
    nul = sh["nul"]
    if nul == "no":
        return base
    if nul == "nullable":
        return {**base, "nullable": True}
    if nul == "type31":
        return {**base, "type": [base["type"], "null"]}
    if nul == "anyOfNull":
        return {"anyOf": [base, {"type": "null"}]}
    if nul == "oneOfNull":
        return {"oneOf": [base, {"type": "null"}]}
    if nul == "member":
        return {k: base[k] + [{"type": "null"}]}
    raise ValueError(nul)


def uses31(sh: dict[str, Any]) -> bool:
    return sh["nul"] in ("type31", "anyOfNull", "oneOfNull", "member") or any(uses31(c) for c in sh["of"])


def has_self(sh: dict[str, Any]) -> bool:
    return (sh["k"] == "ref" and sh["a"] == "Self") or any(has_self(c) for c in sh["of"])


DEPENDS = {"Pets": ["Pet"], "Either": ["Pet", "Color"]}


def refs_of(sh: dict[str, Any], out: set[str] | None = None) -> set[str]:
    out = set() if out is None else out
    if sh["k"] == "ref" and sh["a"] != "Self":
        out.add(sh["a"])
        out.update(DEPENDS.get(sh["a"], []))
    for c in sh["of"]:
        refs_of(c, out)
    return out


def document(sh: dict[str, Any], positions: list[str]) -> dict[str, Any]:
    """One document carrying the shape at every requested position (and the named components it refers to)."""
    s = conc(sh)
    need = refs_of(sh)
    schemas = {k: json.loads(json.dumps(v)) for k, v in COMPONENTS.items() if k in need}
    props: dict[str, Any] = {"z": {"type": "string"}}
    req = []
    if "prop_req" in positions:
        props["fr"] = s
        req.append("fr")
    if "prop_opt" in positions:
        props["fo"] = s
    if "top_use" in positions or "alias_def" in positions:
        schemas["Top"] = s
        props["tr"] = {"$ref": R + "Top"}
        req.append("tr")
    schemas["Holder"] = {"type": "object", "properties": props, "required": req}
    paths: dict[str, Any] = {"/holder": {"get": {"operationId": "getHolder", "responses": {"200": {"description": "ok", "content": {"application/json": {"schema": {"$ref": R + "Holder"}}}}}}}}
    params = []
    if "param_req" in positions:
        params.append({"name": "qr", "in": "query", "required": True, "schema": s})
    if "param_opt" in positions:
        params.append({"name": "qo", "in": "query", "required": False, "schema": s})
    if params or "resp" in positions or "respsvc" in positions:
        op: dict[str, Any] = {"operationId": "probe", "parameters": params, "responses": {"204": {"description": "none"}}}
        if "resp" in positions or "respsvc" in positions:
            op["responses"] = {"200": {"description": "ok", "content": {"application/json": {"schema": s}}}}
        paths["/probe"] = {"get": op}
    for pos, required in (("body_req", True), ("body_opt", False)):
        if pos in positions:
            paths["/" + pos] = {"post": {"operationId": pos, "requestBody": {"required": required, "content": {"application/json": {"schema": s}}}, "responses": {"204": {"description": "none"}}}}
    doc = wrap(schemas, paths)
    if uses31(sh):
        doc["openapi"] = "3.1.0"
    return doc


# ------------------------------------------------------------------------------------------------ the check
def hsig(positions: list[str]) -> str:
    keys = ["z"] + [k for p, k in (("prop_req", "fr"), ("prop_opt", "fo"), ("top_use", "tr")) if p in positions]
    if "alias_def" in positions and "tr" not in keys:
        keys.append("tr")
    return ",".join(sorted(keys))


DESIGN_INVARIANTS = ("IdealTotal", "IdealNoDoubleOptional", "IdealSound", "IdealTight", "AsIsTotal", "AsIsNoDoubleOptional", "AsIsImportsClosed", "ImportGapIsReal", "AsIsSoundOutsideGap", "GapIsReal")


def label(sh: dict[str, Any]) -> str:
    """Short printable form of a shape (evidence samples, drift notes)."""
    k = sh["k"]
    inner = ",".join(label(c) for c in sh["of"])
    core_ = {"prim": sh["a"] + (":" + sh["f"] if sh["f"] else ""), "enum": f"enum<{sh['a']}>", "any": "{}", "object": "object{" + sh["a"] + "}", "array": f"array<{inner}>",
             "map": "map<" + (inner or "true") + ">", "ref": "$" + sh["a"]}.get(k, f"{k}<{inner}>")
    return core_ + ("" if sh["nul"] == "no" else "?" + sh["nul"])


def run(chk: core.Check) -> None:
    tier = chk.tier
    consts = f'CONSTANT Tier = "{tier}"\n'
    # (A) design level
    mc = core.run_tlc(chk.scratch, "MC_TypeResolve", "SPECIFICATION Spec\n" + consts + "".join(f"INVARIANT {i}\n" for i in DESIGN_INVARIANTS) + "CHECK_DEADLOCK FALSE\n", workers=8, timeout=900)
    chk.add_tlc("MC_TypeResolve[design]", mc)
    # -coverage triples the cost of this run (deep recursive operators); vacuity is refused by counting instead: every
    # (shape, entry point) is a state, and the states inside the two exemptions (Gap, ImportGap) print one line each
    gaps = mc.printed.get("GAP", [])
    chk.cov["design_gap_states"] = {k: sum(1 for x in gaps if x["gap"] == k) for k in ("sound", "imports")}
    chk.require(mc.distinct > 1500 and all(chk.cov["design_gap_states"].values()), "vacuous MC_TypeResolve run")
    chk.cov["design_invariants"] = list(DESIGN_INVARIANTS)
    # (B) scenarios
    g = core.run_tlc(chk.scratch, "Gen_TypeResolve", "SPECIFICATION GSpec\n" + consts + "CHECK_DEADLOCK FALSE\n", workers=4, timeout=600)
    chk.add_tlc("Gen_TypeResolve", g)
    scen = sorted(g.printed.get("SCEN", []), key=lambda s: json.dumps(s, sort_keys=True))
    chk.require(len(scen) > 300, "Gen_TypeResolve emitted too few shapes")
    jobs = [{"id": f"s{i}", "shape": s["shape"], "positions": s["positions"], "hsig": hsig(s["positions"])} for i, s in enumerate(scen)]
    res = core.parallel_py(chk.scratch, "harness.w_typeresolve", jobs, nproc=min(10, core.NCPU))
    # a document that does not load / emit as a whole is retried one position at a time, so that the failure is
    # attributed to the position that causes it
    recs: list[dict[str, Any]] = []
    retry = []
    for j, r in zip(jobs, res):
        if r["recs"] and r["recs"][0]["stage"] in ("load", "emit"):
            for p in j["positions"]:
                if p != "alias_def":
                    ps = [p] + (["alias_def"] if p == "top_use" and "alias_def" in j["positions"] else [])
                    retry.append({"id": f"{j['id']}.{p}", "shape": j["shape"], "positions": ps, "hsig": hsig(ps)})
        else:
            recs.extend(r["recs"])
    if retry:
        for r in core.parallel_py(chk.scratch, "harness.w_typeresolve", retry, nproc=min(10, core.NCPU)):
            recs.extend(r["recs"])
    chk.cov["documents"] = len(jobs) + len(retry)
    chk.cov["documents_retried_per_position"] = len(retry)
    recs = [r for r in recs if r["stage"] != "skip"]
    judge(chk, recs)
    chk.cov["rule"] = f"every shape of Shapes({tier}) (leaves x formats x nullable spellings, arrays / maps / unions / allOf over them, depth 2 sample) at every applicable position"
    chk.cov["exhaustive"] = True


def judge(chk: core.Check, recs: list[dict[str, Any]]) -> None:
    # (C) TLC judges every record
    tf = chk.scratch.sub("traces") / "traces.ndjson"
    with open(tf, "w") as f:
        for r in recs:
            f.write(json.dumps({k: v for k, v in r.items() if k not in ("uses", "stage")}) + "\n")
    m = core.run_tlc(chk.scratch, "Trace_TypeResolve", "SPECIFICATION Spec\nCHECK_DEADLOCK FALSE\n", workers=8, env={"TRACE_FILE": str(tf)}, timeout=900)
    chk.add_tlc("Trace_TypeResolve", m)
    verdicts = {v["id"]: v for v in m.printed.get("VERDICT", [])}
    chk.require(len(verdicts) == len(recs), f"monitor judged {len(verdicts)} of {len(recs)} records")
    chk.cov["traces_validated_against_impl"] += len(recs)
    loose: dict[str, int] = {}
    drift: dict[str, list[str]] = {}
    for r in recs:
        v = verdicts[r["id"]]
        sh = r["shape"]
        chk.count()
        chk.nontrivial({"s": label(sh), "p": r["pos"]})
        total_ok = "X04.Total" not in v["failing"]
        for c in ("X04.Total",) + (("X04.NoDoubleOptional", "X04.Imports", "X04.Evaluable", "X04.Stable", "X04.Sound") if total_ok else ()):
            chk.clause(c)
        base = {"pos": r["pos"], "kind": sh["k"], "nul": sh["nul"]}
        scenario = {"shape": sh, "label": label(sh), "pos": r["pos"], "id": r["id"]}
        detail = json.dumps({"why": v["why"], "ann": r["ann"], "exc": r["exc"], "imps": r["imps"], "probe": r["probe"], "again": r["again"], "env": [[e["name"], e["def"], e["sig"]] for e in r["env"]]})
        for c in v["failing"]:
            if c == "X04.Total":
                locus = {**base, "exc": r["exc"], "parse": r["parse"]}
            elif c == "X04.Sound":
                # lost = the admitted JSON value that cannot be typed, via = the container it sits in (top | elem | val)
                path = v["why"].split(".")
                locus = {**base, "lost": path[-1], "via": path[-2] if len(path) > 1 else "top", "got": v["got"], "ir_nullable": bool(r["ir"] and r["ir"][0]["nul"])}
            elif c == "X04.Imports":
                locus = {**base, "unbound": sorted(v["unbound"]), "probe": r["probe"]}
            elif c == "X04.Evaluable":
                locus = {**base, "probe": r["probe"]}
            elif c == "X04.Stable":
                locus = {**base, "emitted_differs": any(a.startswith("EMITTED:") for a in r["again"]), "imports_differ": not r["imps_again"], "mutated": r["mutated"]}
            else:
                locus = dict(base)
            chk.fail(c, locus, scenario, detail)
        if total_ok and not v["tight"]:
            loose[f"{r['pos']}:{sh['k']}"] = loose.get(f"{r['pos']}:{sh['k']}", 0) + 1
        if v["drift"] != "none":
            drift.setdefault(f"{r['pos']} {v['drift'].split(':')[0]}", []).append(f"{label(sh)} real={r['ann']!r} model={v['drift']!r}")
        nf = sum(1 for x in chk.cov["samples"] if x["failing"])
        if total_ok and sh["k"] in ("array", "oneOf", "map", "ref") and ((v["failing"] and nf < 2) or (not v["failing"] and len(chk.cov["samples"]) - nf < 4)):
            chk.sample({"shape": label(sh), "pos": r["pos"], "annotation": r["ann"], "imports": r["imps"], "failing": v["failing"]})
    chk.cov["tight_notes"] = {"annotation_is_Any_for_a_specific_schema": dict(sorted(loose.items()))}
    for k, lst in sorted(drift.items()):
        chk.note_drift(f"as-is resolver of TypeResolve.tla disagrees with the code at {k}: {len(lst)} record(s), e.g. {lst[0]}")


def replay(chk: core.Check, path: str) -> None:
    rp = json.load(open(path))
    sc = rp["scenario"]
    pos = [sc["pos"]] + (["top_use"] if sc["pos"] == "alias_def" else [])
    res = core.parallel_py(chk.scratch, "harness.w_typeresolve", [{"id": "replay", "shape": sc["shape"], "positions": pos, "hsig": hsig(pos)}], nproc=1)
    judge(chk, [r for r in res[0]["recs"] if r["stage"] != "skip" and r["pos"] == sc["pos"]])
