"""Observer worker: runs in an interpreter where the generator is NOT importable and looks at emitted packages.

stdin: JSON list of jobs {"id", "root", "pkg", "core": null|str, "want": [...observations...], ...}
stdout: one JSON line per job with one key per observation.

This module must not import pyopenapi_gen (nor harness.core, which would put the source tree on sys.path).
"""

from __future__ import annotations

import ast
import dataclasses
import enum
import gc
import importlib
import importlib.abc
import inspect
import json
import os
import sys
import traceback
import typing
from pathlib import Path
from typing import Any

GENERATOR_IMPORTS: list[str] = []


class _Blocker(importlib.abc.MetaPathFinder):
    def find_spec(self, fullname, path=None, target=None):  # noqa: ANN001
        if fullname == "pyopenapi_gen" or fullname.startswith("pyopenapi_gen."):
            GENERATOR_IMPORTS.append(fullname)
            raise ImportError(f"generator is not installed here (blocked import of {fullname})")
        return None


def install_blocker() -> None:
    sys.meta_path.insert(0, _Blocker())
    # drop the tree under test from sys.path (PYTHONPATH) - emitted code must not need it
    repo_src = os.path.join(os.environ.get("VERIF_REPO", "/repo"), "src")
    sys.path[:] = [p for p in sys.path if os.path.abspath(p or ".") != os.path.abspath(repo_src)]
    for m in list(sys.modules):
        if m == "pyopenapi_gen" or m.startswith("pyopenapi_gen."):
            del sys.modules[m]


def short_exc(e: BaseException) -> dict[str, str]:
    tb = traceback.extract_tb(e.__traceback__)
    where = ""
    for fr in reversed(tb):
        if "/site-packages/" not in fr.filename and "importlib" not in fr.filename and "w_obs" not in fr.filename:
            where = f"{Path(fr.filename).name}:{fr.lineno}"
            break
    return {"type": type(e).__name__, "msg": str(e)[:300], "where": where, "file": (getattr(e, "filename", None) or (tb[-1].filename if tb else "")) if isinstance(e, SyntaxError) else next((fr.filename for fr in reversed(tb) if "/site-packages/" not in fr.filename and "importlib" not in fr.filename and "w_obs" not in fr.filename and "<frozen" not in fr.filename), "")}


def pkg_dir(root: str, pkg: str) -> Path:
    return Path(root).joinpath(*pkg.split("."))


def py_files(job: dict) -> list[Path]:
    out = sorted(pkg_dir(job["root"], job["pkg"]).rglob("*.py"))
    if job.get("core"):
        cd = pkg_dir(job["root"], job["core"])
        if cd.exists():
            out += [p for p in sorted(cd.rglob("*.py")) if p not in out]
    return out


def module_name(root: str, path: Path) -> str:
    rel = path.relative_to(root).with_suffix("")
    parts = list(rel.parts)
    if parts[-1] == "__init__":
        parts = parts[:-1]
    return ".".join(parts)


# ---------------------------------------------------------------------------------------------


def obs_compile(job: dict) -> Any:
    errs = []
    n = 0
    for p in py_files(job):
        n += 1
        try:
            compile(p.read_text(), str(p), "exec")
        except SyntaxError as e:
            errs.append({"file": str(p.relative_to(job["root"])), "msg": f"{e.msg}", "line": e.lineno, "text": (e.text or "")[:120]})
        except Exception as e:  # noqa: BLE001
            errs.append({"file": str(p.relative_to(job["root"])), "msg": f"{type(e).__name__}: {e}", "line": 0, "text": ""})
    return {"files": n, "errors": errs}


def obs_import(job: dict) -> Any:
    """Import the package, then every module of it (and of the core package)."""
    res = []
    names = []
    for p in py_files(job):
        names.append(module_name(job["root"], p))
    # package first, then shallow-to-deep, alphabetical
    names = sorted(set(names), key=lambda m: (m != job["pkg"], m.count("."), m))
    for m in names:
        try:
            importlib.import_module(m)
            res.append({"m": m, "ok": True})
        except BaseException as e:  # noqa: BLE001
            if isinstance(e, KeyboardInterrupt):
                raise
            res.append({"m": m, "ok": False, "exc": short_exc(e)})
    return res


def obs_exports(job: dict) -> Any:
    bad = []
    n = 0
    for p in py_files(job):
        m = module_name(job["root"], p)
        mod = sys.modules.get(m)
        if mod is None:
            continue
        try:
            tree = ast.parse(p.read_text())
        except SyntaxError:
            continue
        names: set[str] = set()
        allv = getattr(mod, "__all__", None)
        if isinstance(allv, (list, tuple)):
            names.update(str(x) for x in allv)
        if p.name == "__init__.py":
            for node in tree.body:
                if isinstance(node, ast.ImportFrom) and node.level >= 1:
                    for a in node.names:
                        if a.name != "*":
                            names.add(a.asname or a.name)
        for nm in sorted(names):
            n += 1
            if not hasattr(mod, nm):
                bad.append({"m": m, "name": nm})
    return {"checked": n, "unresolved": bad}


def classify(t: Any, depth: int = 0) -> list:
    """Structural kind of a type annotation."""
    if depth > 8:
        return ["deep"]
    if t is None or t is type(None):
        return ["none"]
    if t is typing.Any:
        return ["any"]
    origin = typing.get_origin(t)
    if origin is typing.Annotated:
        return classify(typing.get_args(t)[0], depth + 1)
    if origin in (list, typing.List):
        a = typing.get_args(t)
        return ["list"] + (classify(a[0], depth + 1) if a else ["any"])
    if origin in (dict, typing.Dict):
        a = typing.get_args(t)
        return ["map"] + (classify(a[1], depth + 1) if len(a) == 2 else ["any"])
    if origin is typing.Union or (hasattr(__import__("types"), "UnionType") and isinstance(t, __import__("types").UnionType)):
        args = [a for a in typing.get_args(t)]
        non = [a for a in args if a is not type(None)]
        if len(non) == 1:
            inner = classify(non[0], depth + 1)
            return (["opt"] + inner) if len(non) != len(args) else inner
        parts = [classify(a, depth + 1) for a in non]
        return (["opt"] if len(non) != len(args) else []) + ["union", parts]
    if isinstance(t, type):
        if issubclass(t, enum.Enum):
            return ["enum", t.__name__]
        if dataclasses.is_dataclass(t):
            return ["ref", t.__name__]
        if t is bool:
            return ["bool"]
        if t is int:
            return ["int"]
        if t is float:
            return ["num"]
        if t is str:
            return ["str"]
        if t is bytes:
            return ["bytes"]
        return ["class", f"{t.__module__}.{t.__name__}"]
    if isinstance(t, str):
        return ["fwd", t]
    if isinstance(t, typing.ForwardRef):
        return ["fwd", t.__forward_arg__]
    return ["other", repr(t)[:80]]


def obs_models(job: dict) -> Any:
    """Every class / alias exported by <pkg>.models modules."""
    out: dict[str, Any] = {"classes": [], "aliases": [], "errors": []}
    mdir = pkg_dir(job["root"], job["pkg"]) / "models"
    if not mdir.exists():
        return out
    for p in sorted(mdir.glob("*.py")):
        if p.name == "__init__.py":
            continue
        m = module_name(job["root"], p)
        mod = sys.modules.get(m)
        if mod is None:
            try:
                mod = importlib.import_module(m)
            except BaseException as e:  # noqa: BLE001
                out["errors"].append({"m": m, "exc": short_exc(e)})
                continue
        for nm, obj in vars(mod).items():
            if nm.startswith("_"):
                continue
            if isinstance(obj, type) and obj.__module__ == m:
                if dataclasses.is_dataclass(obj):
                    try:
                        hints = typing.get_type_hints(obj, include_extras=True)
                    except BaseException as e:  # noqa: BLE001
                        hints = {}
                        out["errors"].append({"m": m, "cls": nm, "exc": short_exc(e)})
                    meta = getattr(obj, "Meta", None)
                    load = dict(getattr(meta, "key_transform_with_load", {}) or {}) if meta else {}
                    dump = dict(getattr(meta, "key_transform_with_dump", {}) or {}) if meta else {}
                    fields = []
                    for f in dataclasses.fields(obj):
                        req = f.default is dataclasses.MISSING and f.default_factory is dataclasses.MISSING
                        fields.append({"py": f.name, "wire": dump.get(f.name, f.name), "required": req, "kind": classify(hints.get(f.name, f.type)), "ann": str(f.type)[:120]})
                    out["classes"].append({"m": m, "cls": nm, "kind": "dataclass", "fields": fields, "load": load, "dump": dump, "doc": (obj.__doc__ or "").strip()[:160]})
                elif issubclass(obj, enum.Enum):
                    out["classes"].append({"m": m, "cls": nm, "kind": "enum", "members": [[k, v.value if isinstance(v.value, (str, int, float, bool)) else repr(v.value)] for k, v in obj.__members__.items()]})
                else:
                    out["classes"].append({"m": m, "cls": nm, "kind": "class", "bases": [b.__name__ for b in obj.__mro__[1:4]]})
            elif nm in getattr(mod, "__all__", []) and not isinstance(obj, type):
                out["aliases"].append({"m": m, "name": nm, "kind": classify(obj)})
    return out


def obs_facts(job: dict) -> Any:
    from harness import astfacts

    pkgs = [job["pkg"]] + ([job["core"]] if job.get("core") else [])
    return astfacts.package_facts(job["root"], pkgs)


OBS = {"compile": obs_compile, "import": obs_import, "exports": obs_exports, "models": obs_models, "facts": obs_facts}


def register(name: str):
    def deco(fn):
        OBS[name] = fn
        return fn

    return deco


def run_job(job: dict) -> dict:
    out: dict[str, Any] = {"id": job["id"]}
    root = job["root"]
    if root not in sys.path:
        sys.path.insert(0, root)
    for w in job["want"]:
        try:
            out[w] = OBS[w](job)
        except BaseException as e:  # noqa: BLE001
            if isinstance(e, KeyboardInterrupt):
                raise
            out[w] = {"observer_error": short_exc(e), "tb": traceback.format_exc()[-800:]}
    out["generator_imports"] = list(GENERATOR_IMPORTS)
    GENERATOR_IMPORTS.clear()
    # forget the observed package (and its core): a worker observes thousands of packages in one interpreter, and everything a package
    # imported would otherwise stay alive until the worker ends (several GB per worker in the thorough tiers)
    tops = {str(job.get("pkg", "")).split(".")[0], str(job.get("core") or "").split(".")[0]} - {"", "harness"}
    for name in [m for m in sys.modules if m.split(".")[0] in tops]:
        del sys.modules[name]
    if tops:
        importlib.invalidate_caches()
        gc.collect()
    return out


def main() -> None:
    install_blocker()
    sys.modules.setdefault("harness.w_obs", sys.modules["__main__"])  # extras register into THIS module's table
    # optional extra observers live in sibling modules that register themselves
    for extra in os.environ.get("VERIF_OBS_EXTRA", "").split(","):
        if extra:
            importlib.import_module(extra)
    jobs = json.load(sys.stdin)
    for job in jobs:
        print(json.dumps(run_job(job), default=str), flush=True)


if __name__ == "__main__":
    main()
