"""C06 observer (registered into harness.w_obs next to harness.obs_wire; runs with the generator blocked).

  serve_h : like obs_wire's `serve` - every client method is called once per job["serve"] entry against a fake server,
            under the bundled or a pass-through transport - but the fake server's answer also carries the entry's
            RESPONSE HEADERS: `headers` = [[name, value], ...] (a list, so that a header may be repeated; values are sent
            as latin-1 bytes, so that non-ASCII header values can be served).  `ctype`, when present, is sent as
            Content-Type in front of them.  Body fields are obs_wire's (body_json | body_text | body_b64 | none).
"""

from __future__ import annotations

import asyncio
import base64
import inspect
import json
import re
from typing import Any

import httpx

from harness import obs_wire as W
from harness.w_obs import register


def _response(serve: dict) -> httpx.Response:
    headers: list[tuple[bytes, bytes]] = []
    if serve.get("ctype"):
        headers.append((b"content-type", serve["ctype"].encode("latin-1")))
    for name, value in serve.get("headers") or []:
        headers.append((name.encode("latin-1"), value.encode("latin-1")))
    if "body_b64" in serve:
        content = base64.b64decode(serve["body_b64"])
    elif "body_text" in serve:
        content = serve["body_text"].encode()
    elif "body_json" in serve:
        content = json.dumps(serve["body_json"]).encode()
    else:
        content = b""
    return httpx.Response(serve["status"], headers=headers, content=content)


@register("serve_h")
def obs_serve_h(job: dict) -> Any:
    d = W.discover(job)
    out = []
    elsewhere: set[tuple[str, str]] = set()  # methods seen to send their request to a path outside path_re: not called again
    loop = asyncio.new_event_loop()
    try:
        for serve in job["serve"]:
            seen: list[dict] = []

            def handler(req: httpx.Request, serve=serve, seen=seen) -> httpx.Response:
                seen.append({"method": req.method, "path": req.url.raw_path.decode().split("?")[0]})
                return _response(serve)

            if serve.get("transport") == "pass":
                client = W.make_client(job, d, W.PassThrough(handler))
            else:
                W._HANDLER[0] = handler
                client = W.make_client(job, d)
            for pname in sorted(d["props"]):
                try:
                    tc = getattr(client, pname)
                except Exception:  # noqa: BLE001
                    continue
                for mn, fn in W._methods(type(tc)).items():
                    if (pname, mn) in elsewhere:
                        continue
                    hints = W._hints(fn)
                    plan = W.arg_plans(fn, hints)[0]
                    syn = W.Synth()
                    kwargs = {a: syn.make(hints.get(a, inspect._empty))[0] for a in plan["required"]}
                    seen.clear()
                    res = loop.run_until_complete(asyncio.wait_for(W._call(getattr(tc, mn), kwargs, W._nature(fn)), 20))
                    if serve.get("path_re") and not any(re.fullmatch(serve["path_re"], s["path"]) for s in seen):
                        if seen:
                            elsewhere.add((pname, mn))
                        continue
                    out.append({"sid": serve["sid"], "prop": pname, "method": mn, "sent": list(seen), "outcome": res})
    finally:
        loop.close()
    return out
