"""The one translation from abstract scenarios (specs/Docs.tla vocabulary) to OpenAPI documents."""

from __future__ import annotations

from typing import Any


def ref(n: str) -> dict[str, Any]:
    return {"$ref": f"#/components/schemas/{n}"}


def edge_property(kind: str, to: str) -> dict[str, Any]:
    if kind == "ref":
        return ref(to)
    if kind == "arr":
        return {"type": "array", "items": ref(to)}
    if kind == "inline":
        return {"type": "object", "properties": {"x": ref(to)}}
    if kind == "arrInline":
        return {"type": "array", "items": {"type": "object", "properties": {"x": ref(to)}}}
    if kind == "map":
        return {"type": "object", "additionalProperties": ref(to)}
    if kind == "oneOf":
        return {"oneOf": [ref(to), {"type": "string"}]}
    if kind == "anyOf":
        return {"anyOf": [ref(to), {"type": "string"}]}
    if kind == "null":
        return None  # a property left empty in YAML (`metadata:`)
    if kind == "empty":
        return {}
    if kind == "bareobj":
        return {"type": "object"}
    if kind == "barearr":
        return {"type": "array"}
    raise ValueError(kind)


SCHEMA_KINDS = ("allOf", "allOfReq", "addl", "alias")
MARK = "mk_"


def prop_key(doc: dict[str, Any], i: int) -> str:
    """JSON key of the property that carries edge i: `p<i>` unless the document names its keys (doc["keys"]: str(i) -> key)."""
    return (doc.get("keys") or {}).get(str(i), f"p{i}")


def graph_schemas(doc: dict[str, Any]) -> dict[str, Any]:
    """Docs.tla graph document -> components.schemas (insertion order = declaration order)."""
    schemas: dict[str, Any] = {}
    for n in doc["order"]:
        mine = [(i + 1, e) for i, e in enumerate(doc["edges"]) if e["from"] == n]
        alias = [e for _, e in mine if e["kind"] == "alias"]
        if alias:
            schemas[n] = ref(alias[0]["to"])
            continue
        node: dict[str, Any] = {"type": "object", "properties": {"id": {"type": "string"}}, "required": ["id"]}
        if doc.get("markers"):
            # a property that only this schema has: lets the harness recognise the schema's model by CONTENT, whatever it is called
            node["properties"][MARK + n] = {"type": "string"}
        members: list[Any] = []
        for i, e in mine:
            if e["kind"] == "allOf":
                members.append(ref(e["to"]))
            elif e["kind"] == "allOfReq":
                # a required-only member listed BEFORE the member that declares the properties
                tgt_keys = ["id"] + [prop_key(doc, k) for k, x in enumerate(doc["edges"], start=1) if x["from"] == e["to"] and x["kind"] not in SCHEMA_KINDS]
                members.append({"required": tgt_keys})
                members.append(ref(e["to"]))
            elif e["kind"] == "addl":
                node["additionalProperties"] = ref(e["to"])
        if members:
            node["allOf"] = members
        for i, e in mine:
            if e["kind"] in SCHEMA_KINDS:
                continue
            node["properties"][prop_key(doc, i)] = edge_property(e["kind"], e["to"])
            if e.get("req"):
                node["required"].append(prop_key(doc, i))
        style = doc.get("style")
        if style in ("typeless", "atleast"):
            # an object schema need not say `type: object` when it has `properties`; "atleast" adds the usual at-least-one-of idiom,
            # a constraint-only anyOf whose members declare no properties of their own
            node.pop("type")
            if style == "atleast":
                own = [k for k in node["properties"] if k != "id" and not k.startswith(MARK)]
                node["anyOf"] = [{"required": ["id"]}, {"required": [own[0] if own else "id"]}]
        schemas[n] = node
    return schemas


def wrap(schemas: dict[str, Any], paths: dict[str, Any] | None = None, title: str = "T") -> dict[str, Any]:
    if paths is None:
        paths = {"/ping": {"get": {"operationId": "ping", "responses": {"204": {"description": "ok"}}}}}
    return {
        "openapi": "3.0.3",
        "info": {"title": title, "version": "1.0.0"},
        "paths": paths,
        "components": {"schemas": schemas},
    }


def graph_doc(doc: dict[str, Any], use_all: bool = False) -> dict[str, Any]:
    schemas = graph_schemas(doc)
    paths = None
    if use_all:
        paths = {}
        for n in doc["order"]:
            paths[f"/{n.lower()}"] = {
                "get": {
                    "operationId": f"get_{n.lower()}",
                    "responses": {"200": {"description": "ok", "content": {"application/json": {"schema": ref(n)}}}},
                }
            }
    return wrap(schemas, paths)


# ---- string heuristics of the cycle tracker, computed with plain string operations (not code under test)


def tracker_cfg(names: list[str], max_depth: int) -> dict[str, Any]:
    names = sorted(set(names))
    return {
        "maxDepth": max_depth,
        "synthetic": [n for n in names if "Item" in n or "Property" in n],
        "hasChildren": [n for n in names if "Children" in n],
        "hasChildItem": [n for n in names if "ChildrenItem" in n],
        "nestedOf": {n: [m for m in names if m.startswith(n) and m != n and not m.endswith("Item")] for n in names},
    }
