"""C03 - model JSON round-trip preserves every value and wire key.

Gen_Models.tla (TLC) enumerates object schemas (property type x required/optional x key style) and instance choices
(which optional properties are present, which of two values); each schema is generated, imported with the generator
blocked, and every instance goes through the EMITTED structure_from_dict / unstructure_to_dict; Trace_RoundTrip.tla
judges jOut against jIn with the property's tolerance and the bijectivity of the emitted Meta maps."""

from __future__ import annotations

import json
from typing import Any

from . import concretise, core
from .core import Check, run_tlc, tla

LEVEL = "exploration"

# type name -> (openapi property schema, [value1, value2], type-tree kind)
# the referenced model has a key that must be RENAMED (camelCase wire key -> snake_case field): a model reached only
# through a map value / list item still needs its key-transform hooks
SUB = {"type": "object", "properties": {"displayName": {"type": "string"}, "b": {"type": "integer"}}, "required": ["displayName"]}
DOG = {"type": "object", "properties": {"kind": {"type": "string", "enum": ["dog", "puppy"]}, "bark": {"type": "string"}}, "required": ["kind"]}
CAT = {"type": "object", "properties": {"kind": {"type": "string", "enum": ["cat"]}, "lives": {"type": "integer"}}, "required": ["kind"]}
TYPES: dict[str, tuple[dict, list, dict]] = {}


def leaf(p: str) -> dict:
    return {"k": "leaf", "p": p, "of": [], "fields": []}


SUBT = {"k": "obj", "p": "Sub", "of": [], "fields": [{"key": "displayName", "req": True, "ty": leaf("str")}, {"key": "b", "req": False, "ty": leaf("int")}]}
DEEP = {"k": "deep", "p": "", "of": [], "fields": []}


def _t(name, schema, vals, ty):
    TYPES[name] = (schema, vals, ty)


_t("str", {"type": "string"}, ["alpha", "be ta"], leaf("str"))
_t("int", {"type": "integer"}, [7, -3], leaf("int"))
_t("num", {"type": "number"}, [1.5, 2.25], leaf("num"))
_t("bool", {"type": "boolean"}, [True, False], leaf("bool"))
_t("date", {"type": "string", "format": "date"}, ["2024-02-29", "1999-12-31"], leaf("date"))
_t("datetime", {"type": "string", "format": "date-time"}, ["2024-02-29T10:11:12+00:00", "2001-01-01T00:00:00Z"], leaf("datetime"))
_t("uuid", {"type": "string", "format": "uuid"}, ["123e4567-e89b-12d3-a456-426614174000", "00000000-0000-0000-0000-000000000001"], leaf("uuid"))
_t("byte", {"type": "string", "format": "byte"}, ["aGVsbG8=", "AAEC"], leaf("byte"))
_t("binary", {"type": "string", "format": "binary"}, ["aGVsbG8=", "AAEC"], leaf("binary"))
_t("time", {"type": "string", "format": "time"}, ["10:11:12", "23:59:59"], leaf("time"))
_t("email", {"type": "string", "format": "email"}, ["a@b.co", "x@y.org"], leaf("str"))
_t("enum", {"type": "string", "enum": ["on", "off-line", "3rd"]}, ["on", "off-line"], leaf("enum"))
_t("intenum", {"type": "integer", "enum": [1, 2, 5]}, [1, 5], leaf("intenum"))
_t("ref", {"$ref": "#/components/schemas/Sub"}, [{"displayName": "s1", "b": 4}, {"displayName": "s2"}], SUBT)
_t("liststr", {"type": "array", "items": {"type": "string"}}, [["p", "q"], []], {"k": "list", "p": "", "of": [leaf("str")], "fields": []})
_t("listref", {"type": "array", "items": {"$ref": "#/components/schemas/Sub"}}, [[{"displayName": "s1"}, {"displayName": "s2", "b": 1}], [{"displayName": "only"}]], {"k": "list", "p": "", "of": [SUBT], "fields": []})
_t("mapint", {"type": "object", "additionalProperties": {"type": "integer"}}, [{"k1": 1, "k2": 2}, {"z": 0}], {"k": "map", "p": "", "of": [leaf("int")], "fields": []})
_t("mapref", {"type": "object", "additionalProperties": {"$ref": "#/components/schemas/Sub"}}, [{"k1": {"displayName": "s1"}}, {"x": {"displayName": "s2", "b": 9}}], {"k": "map", "p": "", "of": [SUBT], "fields": []})
_t("maplistref", {"type": "object", "additionalProperties": {"type": "array", "items": {"$ref": "#/components/schemas/Sub"}}}, [{"k1": [{"displayName": "s1"}, {"displayName": "s2", "b": 2}]}, {"x": []}],
   {"k": "map", "p": "", "of": [{"k": "list", "p": "", "of": [SUBT], "fields": []}], "fields": []})
# a discriminated union whose mapping sends TWO values to one schema
_t("disc", {"oneOf": [{"$ref": "#/components/schemas/Dog"}, {"$ref": "#/components/schemas/Cat"}], "discriminator": {"propertyName": "kind", "mapping": {"dog": "#/components/schemas/Dog", "puppy": "#/components/schemas/Dog", "cat": "#/components/schemas/Cat"}}},
   [{"kind": "dog", "bark": "woof"}, {"kind": "puppy", "bark": "yip"}], DEEP)
_t("disc_cat", {"oneOf": [{"$ref": "#/components/schemas/Dog"}, {"$ref": "#/components/schemas/Cat"}], "discriminator": {"propertyName": "kind", "mapping": {"dog": "#/components/schemas/Dog", "puppy": "#/components/schemas/Dog", "cat": "#/components/schemas/Cat"}}},
   [{"kind": "cat", "lives": 9}, {"kind": "cat", "lives": 1}], DEEP)  # every field present: the deep comparison knows no optionality
_t("nullstr", {"type": "string", "nullable": True}, ["text", None], leaf("str"))
# falsy-but-supplied values: members / values that a truthiness test would take for "absent"
_t("enumfalsy", {"type": "string", "enum": ["", "asc", "desc"]}, ["", "asc"], leaf("enum"))
_t("intenumzero", {"type": "integer", "enum": [0, 1, 2]}, [0, 2], leaf("intenum"))
_t("nullenumfalsy", {"type": "string", "nullable": True, "enum": ["", "asc", "desc", None]}, ["", None], leaf("enum"))
_t("nullintenumzero", {"type": "integer", "nullable": True, "enum": [0, 1, 2, None]}, [0, None], leaf("intenum"))
# magnitudes at which a representation change (float, 32 / 64 bit) would show
_t("bigint", {"type": "integer", "format": "int64"}, [2**53 + 1, 9223372036854775807], leaf("int"))
_t("negbigint", {"type": "integer", "format": "int64"}, [-(2**53) - 1, -9223372036854775808], leaf("int"))
_t("int32edge", {"type": "integer", "format": "int32"}, [2147483647, -2147483648], leaf("int"))
_t("extremenum", {"type": "number"}, [1.7976931348623157e308, 5e-324], leaf("num"))
_t("listbigint", {"type": "array", "items": {"type": "integer"}}, [[2**53 + 1, 1234567890123456789], [0]], {"k": "list", "p": "", "of": [leaf("int")], "fields": []})
_t("zero", {"type": "integer"}, [0, 0], leaf("int"))
_t("emptystr", {"type": "string"}, ["", ""], leaf("str"))
_t("zeronum", {"type": "number"}, [0.0, 0.0], leaf("num"))
_t("anyobj", {"type": "object", "additionalProperties": True}, [{"free": 1, "form": "x"}, {}], {"k": "map", "p": "", "of": [leaf("any")], "fields": []})

# third key of every style: a name that equals the SUFFIXED / ESCAPED form a de-collision or keyword rule derives from the first
STYLE_KEYS = {"plain": ["alpha", "beta", "gamma"], "camel": ["fooBar", "bazQux", "foo_bar"], "snake": ["foo_bar", "baz_qux", "fooBar"], "kebab": ["foo-bar", "baz-qux", "foo_bar_2"],
              "keyword": ["class", "from", "class_"], "builtin": ["id", "type", "id_"], "digit": ["1st", "2nd", "_1st"], "upper": ["URL", "ID", "url"],
              "collide": ["userId", "user_id", "userId_2"], "dotted": ["a.b", "c.d", "a_b"], "space": ["first name", "last name", "first_name"]}


def tag(j: Any) -> dict:
    if j is None:
        return {"t": "z", "v": "", "items": [], "keys": []}
    if isinstance(j, bool):
        return {"t": "b", "v": "true" if j else "false", "items": [], "keys": []}
    if isinstance(j, int):
        return {"t": "n", "v": str(j), "items": [], "keys": []}   # exact: integers beyond 2**53 must not pass through a float
    if isinstance(j, float):
        v = j
        return {"t": "n", "v": str(int(v)) if (v == v and abs(v) < 1e15 and v == int(v)) else repr(v), "items": [], "keys": []}
    if isinstance(j, str):
        return {"t": "s", "v": j, "items": [], "keys": []}
    if isinstance(j, list):
        return {"t": "l", "v": "", "items": [tag(x) for x in j], "keys": []}
    if isinstance(j, dict):
        ks = sorted(j)
        return {"t": "o", "v": "", "items": [tag(j[k]) for k in ks], "keys": ks}
    return {"t": "s", "v": f"<{type(j).__name__}>", "items": [], "keys": []}


def normalise_leaf(p: str, v: Any) -> Any:
    """Projection of formatted leaves onto comparable values (documented tolerance): instants, lower-case uuids."""
    if isinstance(v, str):
        if p == "datetime":
            import datetime as _d

            try:
                return _d.datetime.fromisoformat(v.replace("Z", "+00:00")).astimezone(_d.timezone.utc).isoformat()
            except ValueError:
                return v
        if p == "uuid":
            return v.lower()
    return v


def normalise(ty: dict, j: Any) -> Any:
    if j is None:
        return None
    k = ty["k"]
    if k == "leaf":
        return normalise_leaf(ty["p"], j)
    if k == "list" and isinstance(j, list):
        return [normalise(ty["of"][0], x) for x in j]
    if k == "map" and isinstance(j, dict):
        return {kk: normalise(ty["of"][0], x) for kk, x in j.items()}
    if k == "obj" and isinstance(j, dict):
        ft = {f["key"]: f["ty"] for f in ty["fields"]}
        return {kk: (normalise(ft[kk], x) if kk in ft else x) for kk, x in j.items()}
    return j


def build(sc: dict) -> tuple[dict, dict, dict]:
    """scenario -> (openapi document, instance JSON, type tree of M)"""
    props, required, fields, inst = {}, [], [], {}
    present = set(sc["present"])
    for i, p in enumerate(sc["props"], start=1):
        schema, vals, ty = TYPES[p["ty"]]
        key = STYLE_KEYS[p["style"]][i - 1]
        props[key] = json.loads(json.dumps(schema))
        if p["req"]:
            required.append(key)
        fields.append({"key": key, "req": bool(p["req"]), "ty": ty})
        if p["req"] or i in present:
            v = vals[(sc["vi"] - 1 + i - 1) % 2]
            if v is None and p["req"]:
                v = vals[0]
            if p["ty"] == "str" and isinstance(v, str):
                v = f"{v}#{i}"  # distinct per property: a value landing under a neighbour's key must be visible
            inst[key] = v
    m = {"type": "object", "properties": props}
    if required:
        m["required"] = required
    doc = concretise.wrap({"Sub": SUB, "Dog": DOG, "Cat": CAT, "M": m}, {"/m": {"post": {"operationId": "postM", "requestBody": {"required": True, "content": {"application/json": {"schema": concretise.ref("M")}}}, "responses": {"200": {"description": "ok", "content": {"application/json": {"schema": concretise.ref("M")}}}}}}})
    return doc, inst, {"k": "obj", "p": "M", "of": [], "fields": fields}


def run(chk: Check) -> None:
    thorough = chk.tier == "thorough"
    types = sorted(TYPES)
    pair_types = ["str", "int", "datetime", "enum", "ref", "liststr", "mapint"] if not thorough else ["str", "int", "num", "bool", "date", "datetime", "enum", "ref", "liststr", "listref", "mapint", "mapref", "nullstr"]
    styles = sorted(STYLE_KEYS)
    pair_styles = [["plain", "plain"], ["collide", "collide"], ["camel", "snake"], ["keyword", "keyword"]] if not thorough else [[a, a] for a in styles] + [["camel", "snake"], ["kebab", "keyword"]]
    mod = f"---- MODULE MC_Gen_Models ----\nEXTENDS Gen_Models\nMCPairStyles == {tla(set(tuple(p) for p in pair_styles)) if False else '{' + ', '.join(tla(p) for p in pair_styles) + '}'}\n====\n"
    triple_styles = [st for st in styles if st != "plain"]
    cfg = f"SPECIFICATION Spec\nCONSTANTS\n Types = {tla(set(types))}\n PairTypes = {tla(set(pair_types))}\n Styles = {tla(set(styles))}\n PairStyles <- MCPairStyles\n MaxProps = 2\n TripleStyles = {tla(set(triple_styles))}\nCHECK_DEADLOCK FALSE\n"
    r = run_tlc(chk.scratch, "MC_Gen_Models", cfg, files={"MC_Gen_Models.tla": mod}, workers=8)
    chk.add_tlc("Gen_Models", r)
    scen = sorted(r.printed.get("SCEN", []), key=lambda s: json.dumps(s, sort_keys=True))
    chk.require(len(scen) > 100, "Gen_Models emitted too few scenarios")
    chk.cov["rule"] = (
        f"object schemas with 1 property ({len(types)} types x required/optional x {len(styles)} key styles) and 2 properties ({len(pair_types)} types squared x required/optional squared x "
        f"{len(pair_styles)} style pairs); instances = every presence subset of the optional properties x 2 values per leaf (TLC Gen_Models); non-trivial = distinct (schema, instance)"
    )
    chk.assumptions += ["date-time values are compared as instants and uuids case-insensitively (harness/c03.py normalise) before the TLA+ judge compares tagged trees", "schemas carry no `default` keyword (DESIGN.md C03)"]
    # group scenarios by schema -> one generated package per schema
    by_schema: dict[str, list[dict]] = {}
    for s in scen:
        by_schema.setdefault(json.dumps(s["props"], sort_keys=True), []).append(s)
    root = chk.scratch.sub("models")
    jobs, plan = [], {}
    for n, (k, group) in enumerate(sorted(by_schema.items())):
        doc, _, ty = build(group[0])
        jid = f"m{n}"
        jobs.append({"id": jid, "root": str(root), "spec": doc, "pkg": f"m{n}.client", "force": True, "nopp": True})
        insts = []
        for gi, s in enumerate(group):
            _, inst, _ = build(s)
            insts.append({"iid": f"{jid}i{gi}", "cls": "M", "j": inst, "_sc": s})
        plan[jid] = (ty, insts, group[0])
    gres = {j["id"]: g for j, g in zip(jobs, core.parallel_py(chk.scratch, "harness.w_gen", jobs))}
    ojobs = []
    for j in jobs:
        if gres[j["id"]]["ok"]:
            ojobs.append({"id": j["id"], "root": j["root"], "pkg": j["pkg"], "want": ["import", "roundtrip"], "instances": [{k: v for k, v in i.items() if not k.startswith("_")} for i in plan[j["id"]][1]]})
        else:
            chk.cov["rejected_visibly"] = chk.cov.get("rejected_visibly", 0) + 1
    ores = {r["id"]: r for r in core.parallel_py(chk.scratch, "harness.w_obs", ojobs, env={"VERIF_OBS_EXTRA": "harness.obs_codec"})}
    traces, meta = [], {}
    for jid, (ty, insts, sc0) in plan.items():
        o = ores.get(jid)
        if o is None:
            continue
        rt = o["roundtrip"]
        if isinstance(rt, dict) and "observer_error" in rt:
            # the models package does not import: C01's business
            chk.cov["unimportable_skipped"] = chk.cov.get("unimportable_skipped", 0) + 1
            continue
        by_iid = {x["iid"]: x for x in rt}
        for inst in insts:
            x = by_iid[inst["iid"]]
            jin = normalise(ty, inst["j"])
            jout = normalise(ty, x["jout"]) if x["jout"] is not None else {}
            traces.append({"id": inst["iid"], "ty": ty, "jin": tag(jin), "jout": tag(jout), "err": x["err"], "errstage": x["errstage"], "load": x["load"], "dump": x["dump"]})
            meta[inst["iid"]] = (inst["_sc"], x, inst["j"])
    d = chk.scratch.sub("rt_traces")
    tf = d / "t.ndjson"
    with tf.open("w") as f:
        for t in traces:
            f.write(json.dumps(t) + "\n")
    r = run_tlc(chk.scratch, "Trace_RoundTrip", "SPECIFICATION Spec\nCHECK_DEADLOCK FALSE\n", workers=8, env={"TRACE_FILE": str(tf)})
    chk.add_tlc("Trace_RoundTrip", r)
    vs = r.printed.get("VERDICT", [])
    chk.require(len(vs) == len(traces), "Trace_RoundTrip verdict count mismatch")
    chk.cov["traces_validated_against_impl"] += len(traces)
    for v in vs:
        sc, x, jin = meta[v["id"]]
        chk.count()
        chk.nontrivial({"s": sc["props"], "p": sc["present"], "v": sc["vi"]})
        if v["clause"] != "ok":
            tys = sorted({p["ty"] for p in sc["props"]})
            styles_ = sorted({p["style"] for p in sc["props"]})
            loc: dict[str, Any] = {"exctype": x["err"] if x["err"] != "none" else ""}
            # which property type is responsible: for single-property schemas it is the type itself
            if len(sc["props"]) == 1:
                loc["ty"] = tys[0]
                loc["style"] = styles_[0]
            else:
                loc["ty"] = "+".join(tys)
                loc["style"] = "+".join(styles_)
            chk.fail(v["clause"], loc, {"props": sc["props"], "present": sc["present"], "vi": sc["vi"], "jin": jin}, json.dumps({"jout": x["jout"], "msg": x.get("msg", "")})[:300])
    chk.sample({"scenario": scen[len(scen) // 2], "instance": build(scen[len(scen) // 2])[1]})
    chk.cov["exhaustive"] = True


def replay(chk: Check, path: str) -> None:
    rec = json.loads(open(path).read())
    sc = rec["scenario"]
    doc, inst, ty = build({"props": sc["props"], "present": sc["present"], "vi": sc["vi"]})
    root = chk.scratch.sub("replay")
    g = core.parallel_py(chk.scratch, "harness.w_gen", [{"id": "r", "root": str(root), "spec": doc, "pkg": "r0.client", "force": True, "nopp": True}])[0]
    print("generation:", g["ok"], g["err"])
    if g["ok"]:
        o = core.parallel_py(chk.scratch, "harness.w_obs", [{"id": "r", "root": str(root), "pkg": "r0.client", "want": ["roundtrip"], "instances": [{"iid": "i", "cls": "M", "j": inst}]}], env={"VERIF_OBS_EXTRA": "harness.obs_codec"})[0]
        print("REPLAY", json.dumps({"in": inst, "out": o["roundtrip"]})[:800])
