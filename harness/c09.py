"""C09 - generation is deterministic; re-running on unchanged input is a no-op.

(a) Det: the same document and options generated under different hash seeds, in a fresh and in a warm process, at two
    output roots and with a shifted clock must give identical file trees (Trace_Det.tla judges the history of runs).
(b) Idem / Complete: GenRun.tla behaviours `generate ; generate(no force)` over existing trees that are equal, locally
    edited, missing a file, emptied, changed in a non-.py file, or carrying a stale extra file - replayed with real
    generations and judged by Trace_GenRun.tla (C09.rerun_failed, C09.rerun_touched, C09.diff_missed).
"""

from __future__ import annotations

import json

from . import c10, core, features
from .core import Check, run_tlc

LEVEL = "model_checking"

SEEDS = ["0", "1", "2", "random"]


def determinism(chk: Check) -> None:
    thorough = chk.tier == "thorough"
    feats = sorted(features.FEATURES)
    docs = [[f] for f in feats]
    docs += [[feats[i], feats[(i * 7 + 3) % len(feats)]] for i in range(0, len(feats), 3 if not thorough else 1)]
    docs += [feats[:20], feats[20:40], feats[40:]]
    if not thorough:
        docs = docs[:: 2] + [feats[:20]]
    base = chk.scratch.sub("det")
    warm = features.build(["oneof_disc", "formats"])
    envs = [("seed0", {"PYTHONHASHSEED": "0"}, {}), ("seed1", {"PYTHONHASHSEED": "1"}, {}), ("seed2_warm", {"PYTHONHASHSEED": "2"}, {"warm": warm}),
            ("seedrandom_root2", {"PYTHONHASHSEED": "random"}, {"rootname": "another_root_dir"}), ("seed3_date", {"PYTHONHASHSEED": "3"}, {"fake_date": True})]
    if thorough:
        envs.append(("seed4_pp", {"PYTHONHASHSEED": "4"}, {}))
    results: dict[str, list] = {}
    for ename, env, extra in envs:
        jobs = []
        for i, fs in enumerate(docs):
            j = {"id": f"d{i}_{ename}", "kind": "det", "base": str(base), "spec": features.build(fs), "pkg": "acme.client" if i % 2 else "acme.api.client", "core": None if i % 3 else "acme.core", "pp": False}
            j.update(extra)
            jobs.append(j)
        res = core.parallel_py(chk.scratch, "harness.w_genrun", jobs, env=env)
        for i, r in enumerate(res):
            results.setdefault(f"doc{i}", []).append({"env": ename, "files": r["files"], "result": r["result"]})
    traces = []
    for k, runs in results.items():
        oks = [r for r in runs if r["result"] == "ok"]
        if len(oks) != len(runs):
            if oks:
                chk.fail("C09.nondeterministic", {"first": "accept/reject differs between environments", "env_a": runs[0]["env"], "env_b": "?", "ndiff": 0}, {"doc": k}, "")
            continue
        traces.append({"id": k, "runs": [{"env": r["env"], "files": r["files"]} for r in oks]})
    d = chk.scratch.sub("det_traces")
    tf = d / "t.ndjson"
    with tf.open("w") as f:
        for t in traces:
            f.write(json.dumps(t) + "\n")
    r = run_tlc(chk.scratch, "Trace_Det", "SPECIFICATION Spec\nCHECK_DEADLOCK FALSE\n", workers=8, env={"TRACE_FILE": str(tf)})
    chk.add_tlc("Trace_Det", r)
    vs = r.printed.get("VERDICT", [])
    chk.require(len(vs) == len(traces), "Trace_Det verdict count mismatch")
    chk.cov["traces_validated_against_impl"] += len(traces)
    for v in vs:
        chk.count(v["nruns"])
        chk.clause("C09.det_pairs", v["nruns"] - 1)
        chk.nontrivial({"det": v["id"]})
        idx = int(v["id"][3:])
        for f in v["fails"]:
            loc = dict(f["locus"])
            first = loc.pop("first")
            loc["file_kind"] = first.split("/")[-2] if "/" in first else "top"
            loc.pop("ndiff", None)
            chk.fail(f["clause"], loc, {"features": docs[idx], "first_differing": first}, "")
    chk.sample({"determinism": {"doc": docs[0], "envs": [e[0] for e in envs], "files": len(traces[0]["runs"][0]["files"]) if traces else 0}})


def reruns(chk: Check) -> None:
    thorough = chk.tier == "thorough"
    beh = c10.model_behaviours(chk, ["equal", "different", "partial"], ["embedded", "sibling", "toplevel"], ["elsewhere", "root"], [False, True])
    beh = [b for b in beh if b["sc"]["fault"] == "none" and not b["sc"]["force"]]
    # mutation kinds beyond the abstract model's three (emptied directory, non-.py change, stale extra file)
    extra = []
    spec_new = features.build(["many_errors", "enum_top", "inline_object"])
    spec_old = features.build(["many_errors", "enum_top", "inline_object"])
    spec_new["components"]["schemas"]["AuditRecord"] = features.obj({"who": {"type": "string"}})   # referenced by nothing
    FILE_CLASSES = ["root_init", "client", "models_init", "model", "endpoints_init", "endpoint", "mocks_init", "mock_client", "mock_endpoint", "core_runtime", "core_aliases", "core_init"]
    for b in beh:
        sc = b["sc"]
        if sc["existing"] == "partial":
            # the model's `partial` (nothing comparable changed) stands for all of these: the code compares only *.py present on both sides
            for kind in ("emptied", "nonpy"):
                extra.append({"sc": dict(sc, existing=kind), "result": b["result"], "viol": b["viol"]})
            if not sc["pp"] and sc["cwd"] == "elsewhere":
                for cls in ("root_init", "models_init", "model", "endpoint", "client"):
                    extra.append(dict(b, variant=f"missing:{cls}"))
        if sc["existing"] == "equal":
            # a stale extra file is not output "that would be generated": the model's `equal` stands for it
            extra.append({"sc": dict(sc, existing="stale_extra"), "result": b["result"], "viol": b["viol"]})
        if sc["existing"] == "different" and not sc["pp"] and sc["cwd"] == "elsewhere":
            # an edit in each class of emitted file, and a tree generated from an older version of the document
            for cls in FILE_CLASSES:
                extra.append(dict(b, variant=f"edit:{cls}"))
            extra.append(dict(b, variant="specchange", spec=spec_new, spec_old=spec_old))
    beh += extra
    # the same re-runs with the process's temporary directory somewhere unusual (the comparison tree is generated there)
    for b in list(beh):
        sc = b["sc"]
        if sc["cwd"] == "elsewhere" and not sc["pp"] and not b.get("spec") and (thorough or sc["core"] == "embedded"):
            beh.append(dict(b, tmpdir="hidden"))
            if thorough:
                beh.append(dict(b, tmpdir="spaced"))
    if not thorough:
        beh = [b for b in beh if b["sc"]["cwd"] == "elsewhere" or b["sc"]["pp"]]
    # "re-running on unchanged input is a no-op" for EVERY document of the catalogue (not only the one the tree variants use): what the
    # first run leaves behind must be what the comparison run produces, whatever the document makes the emitters do
    base = [b for b in beh if b["sc"] == {"existing": "equal", "force": False, "core": "embedded", "cwd": "elsewhere", "pp": False, "fault": "none"} and not b.get("variant")][:1]
    chk.require(len(base) == 1, "no plain `equal, no force` behaviour to instantiate with the catalogue")
    feats = sorted(features.FEATURES)
    for i, f in enumerate(feats):
        if thorough or i % 2 == chk.seed % 2 or f in ("undeclared_var_required_body", "required_with_default", "undeclared_path_var", "case_variant_schemas"):
            beh.append(dict(base[0], spec=features.build([f]), docname=f))
    traces = c10.run_real(chk, beh, "rr")
    c10.judge(chk, traces, "reruns", ("C09.",))


def run(chk: Check) -> None:
    chk.cov["rule"] = (
        "(a) determinism: feature documents (singles, sampled pairs, three 20-feature documents) x 5 environments (hash seeds 0/1/2/random/3, warm process, "
        "second root, shifted clock); (b) re-runs: every non-force GenRun behaviour without fault over existing trees {equal, edited, file missing, emptied, "
        "non-.py changed, stale extra} x 3 core layouts x cwd x post-processing; non-trivial = distinct document or scenario"
    )
    chk.assumptions += ["tree equality is sha256 per file relative to the project root (roots differ only in their own name)", "a stale extra file is not 'output that would be generated' (no clause)"]
    determinism(chk)
    reruns(chk)
    chk.cov["exhaustive"] = False


def replay(chk: Check, path: str) -> None:
    rec = json.loads(open(path).read())
    sc = rec["scenario"]
    if "sc" in sc:
        traces = c10.run_real(chk, [{"sc": sc["sc"], "result": "?", "viol": []}], "replay")
        c10.judge(chk, traces, "replay", ("C09.",))
    else:
        raise core.MachineryError("determinism replays are re-run by the full check")
    for f in chk.fails:
        print("REPLAY-FAIL", f["clause"], json.dumps(f["locus"]), f["detail"][:300])
