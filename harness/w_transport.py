"""Worker (C17): build the REAL HttpxTransport for every configuration emitted by specs/Transport.tla, send the
session's requests through that ONE transport over an httpx.MockTransport and record every captured httpx.Request.

stdin : JSON list of jobs {"id", "cfg"} - cfg is TransportCore!Concrete(sc):
        defaults / params / cookies : [[name, value], ...] (empty list => argument not passed / None),
        requests : [[[name, value], ...], ...] per-request headers of each request of the session (empty => no headers=),
        plugins : [{kind, loc, name, val, hdrs, refresh, rets, ...}], tree (auth nesting, see build_auth), bearer ("" => not passed), body ("" => none);
        rets = what the refresh callback returns at its i-th call: a token, "<same>" (the token it was shown), "" or
        "<none>" (None)
stdout: one JSON line per job {"id", "obs": [one per request {headers: [[raw, lower, value]], query: [[k, v]],
        cookies: [[k, v]], body, refresh: [what the callback was shown during this request], defaults: the dict passed
        as default_headers= as it is AFTER the request, err}]}

The MockTransport is injected by wrapping httpx.AsyncClient.__init__ (no private attribute of the transport is
touched; the default-headers dict is observed through the reference the caller keeps).  Nothing is judged here.
"""

from __future__ import annotations

import asyncio
import json
import sys
import warnings

warnings.simplefilter("ignore")

from harness import core  # noqa: E402

core.install_tree_under_test()

import httpx  # noqa: E402

from pyopenapi_gen.core.auth.base import CompositeAuth  # noqa: E402
from pyopenapi_gen.core.auth.plugins import ApiKeyAuth, BearerAuth, HeadersAuth, OAuth2Auth  # noqa: E402
from pyopenapi_gen.core.http_transport import HttpxTransport  # noqa: E402

_captured: list[httpx.Request] = []
# headers httpx itself adds to every request: not part of what C17 speaks about, dropped to keep the traces small
HTTPX_OWN = {"host", "accept", "accept-encoding", "connection", "user-agent", "content-length", "content-type"}


def _handler(request: httpx.Request) -> httpx.Response:
    _captured.append(request)
    return httpx.Response(200, json={})


_orig_init = httpx.AsyncClient.__init__


def _patched_init(self, *a, **kw):  # type: ignore[no-untyped-def]
    kw["transport"] = httpx.MockTransport(_handler)
    _orig_init(self, *a, **kw)


httpx.AsyncClient.__init__ = _patched_init  # type: ignore[method-assign]


def _txt(v) -> str:
    return "<none>" if v is None else str(v)


def build_plugin(p: dict, calls: list[str]):
    k = p["kind"]
    if k == "bearer":
        return BearerAuth(p["val"])
    if k == "apikey":
        return ApiKeyAuth(p["val"], location=p["loc"], name=p["name"])
    if k == "headers":
        return HeadersAuth({n: v for n, v in p["hdrs"]})
    if k == "oauth2":
        if p["refresh"]:
            rets = list(p["rets"])
            ncalls = [0]

            async def cb(current):
                calls.append(_txt(current))
                r = rets[min(ncalls[0], len(rets) - 1)]
                ncalls[0] += 1
                if r == "<same>":
                    return current
                if r == "<none>":
                    return None
                return r

            return OAuth2Auth(p["val"], refresh_callback=cb)
        return OAuth2Auth(p["val"])
    raise ValueError(f"unknown plug-in kind {k}")


def build_auth(cfg: dict, calls: list[str]):
    """cfg["tree"] is a token list over "(" ")" "*": a parenthesised group is a CompositeAuth of its members, "*" is the
    next plug-in of cfg["plugins"]; [] = no auth=, ["*"] = the bare plug-in."""
    ps = [build_plugin(p, calls) for p in cfg["plugins"]]
    toks = list(cfg["tree"])
    if not toks:
        return None
    nxt = [0]
    pos = [0]

    def parse():
        t = toks[pos[0]]
        pos[0] += 1
        if t == "*":
            p = ps[nxt[0]]
            nxt[0] += 1
            return p
        if t != "(":
            raise ValueError(f"bad auth tree {toks}")
        members = []
        while toks[pos[0]] != ")":
            members.append(parse())
        pos[0] += 1
        return CompositeAuth(*members)

    auth = parse()
    if pos[0] != len(toks) or nxt[0] != len(ps):
        raise ValueError(f"bad auth tree {toks}")
    return auth


def parse_cookie_header(values: list[str]) -> list[list[str]]:
    out = []
    for v in values:
        for part in v.split(";"):
            part = part.strip()
            if part:
                n, _, val = part.partition("=")
                out.append([n, val])
    return out


def _empty(err: str) -> dict:
    return {"headers": [], "query": [], "cookies": [], "body": "", "refresh": [], "defaults": [], "err": err}


async def run_job(job: dict) -> dict:
    cfg = job["cfg"]
    calls: list[str] = []
    tkw: dict = {"base_url": "http://h.test"}
    defaults = None
    out: list[dict] = []
    transport = None
    try:
        auth = build_auth(cfg, calls)
        if auth is not None:
            tkw["auth"] = auth
        if cfg["bearer"]:
            tkw["bearer_token"] = cfg["bearer"]
        if cfg["defaults"]:
            defaults = {n: v for n, v in cfg["defaults"]}
            tkw["default_headers"] = defaults
        transport = HttpxTransport(**tkw)
        for req_headers in cfg["requests"]:
            rkw: dict = {}
            if req_headers:
                rkw["headers"] = {n: v for n, v in req_headers}
            if cfg["params"]:
                rkw["params"] = {n: v for n, v in cfg["params"]}
            if cfg["cookies"]:
                rkw["cookies"] = {n: v for n, v in cfg["cookies"]}
            if cfg["body"]:
                rkw["content"] = cfg["body"].encode()
            _captured.clear()
            shown_before = len(calls)
            obs = _empty("none")
            try:
                await transport.request("POST", "/p", **rkw)
                if len(_captured) != 1:
                    obs["err"] = f"captured {len(_captured)} requests"
                else:
                    r = _captured[0]
                    cookie_values = []
                    for raw, val in r.headers.raw:
                        n = raw.decode("latin-1")
                        v = val.decode("latin-1")
                        if n.lower() == "cookie":
                            cookie_values.append(v)
                        elif n.lower() not in HTTPX_OWN:
                            obs["headers"].append([n, n.lower(), v])
                    obs["query"] = [[k, v] for k, v in r.url.params.multi_items()]
                    obs["cookies"] = parse_cookie_header(cookie_values)
                    obs["body"] = r.content.decode("latin-1")
                    obs["refresh"] = list(calls[shown_before:])
                    obs["defaults"] = [[n, _txt(v)] for n, v in (defaults or {}).items()]
            except Exception as e:  # noqa: BLE001 - the exception type is the observation
                obs = _empty(type(e).__name__)
                obs["detail"] = str(e)[:200]
            out.append(obs)
    except Exception as e:  # noqa: BLE001
        while len(out) < len(cfg["requests"]):
            o = _empty(type(e).__name__)
            o["detail"] = str(e)[:200]
            out.append(o)
    finally:
        if transport is not None:
            try:
                await transport.close()
            except Exception:  # noqa: BLE001
                pass
    return {"id": job["id"], "obs": out}


async def main() -> None:
    jobs = json.loads(sys.stdin.read())
    out = []
    for job in jobs:
        out.append(json.dumps(await run_job(job)))
    sys.stdout.write("\n".join(out) + "\n")


if __name__ == "__main__":
    asyncio.run(main())
