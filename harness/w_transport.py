"""Worker (C17): build the REAL HttpxTransport for every configuration emitted by specs/Transport.tla, send the
session's requests through that ONE transport over an httpx.MockTransport and record every captured httpx.Request.

stdin : JSON list of jobs {"id", "cfg"} - cfg is TransportCore!Concrete(sc):
        defaults / params / cookies : [[name, value], ...] (empty list => argument not passed / None),
        requests : [[[name, value], ...], ...] per-request headers of each request of the session (empty => no headers=),
        reqargs : [{params, cookies, body, path}] the other arguments of each request,
        sched : [] (requests one after the other) or the interleaving of start / resume events to reproduce (see run_job),
        plugins : [{kind, loc, name, val, hdrs, refresh, rets, ...}], tree (auth nesting, see build_auth), bearer ("" => not passed), body ("" => none);
        rets = what the refresh callback returns at its i-th call: a token, "<same>" (the token it was shown), "" or
        "<none>" (None)
stdout: one JSON line per job {"id", "obs": [one per request {headers: [[raw, lower, value]], query: [[k, v]],
        cookies: [[k, v]], body, refresh: [what the callback was shown during this request], defaults: the dict passed
        as default_headers= as it is AFTER the request, err}]}

The MockTransport is injected by wrapping httpx.AsyncClient.__init__ (no private attribute of the transport is
touched; the default-headers dict is observed through the reference the caller keeps).  Nothing is judged here.
"""

from __future__ import annotations

import asyncio
import json
import sys
import warnings

warnings.simplefilter("ignore")

from harness import core  # noqa: E402

core.install_tree_under_test()

import httpx  # noqa: E402

from pyopenapi_gen.core.auth.base import CompositeAuth  # noqa: E402
from pyopenapi_gen.core.auth.plugins import ApiKeyAuth, BearerAuth, HeadersAuth, OAuth2Auth  # noqa: E402
from pyopenapi_gen.core.http_transport import HttpxTransport  # noqa: E402

_captured: list = []  # (asyncio task that sent it, httpx.Request)
# headers httpx itself adds to every request: not part of what C17 speaks about, dropped to keep the traces small
HTTPX_OWN = {"host", "accept", "accept-encoding", "connection", "user-agent", "content-length", "content-type"}


def _handler(request: httpx.Request) -> httpx.Response:
    _captured.append((asyncio.current_task(), request))
    return httpx.Response(200, json={})


_orig_init = httpx.AsyncClient.__init__


def _patched_init(self, *a, **kw):  # type: ignore[no-untyped-def]
    kw["transport"] = httpx.MockTransport(_handler)
    _orig_init(self, *a, **kw)


httpx.AsyncClient.__init__ = _patched_init  # type: ignore[method-assign]


def _txt(v) -> str:
    return "<none>" if v is None else str(v)


class Session:
    """What the harness knows about the requests of one job: which request is being started (callback calls and
    captured requests are attributed through it / through the task), the callback calls made so far."""

    def __init__(self, suspend: bool):
        self.suspend = suspend  # the refresh callback waits until the harness resumes that request
        self.current = 0
        self.calls: list[dict] = []  # {"shown", "req", "fut"}
        self.entered: set[int] = set()


def build_plugin(p: dict, sess: Session):
    k = p["kind"]
    if k == "bearer":
        return BearerAuth(p["val"])
    if k == "apikey":
        return ApiKeyAuth(p["val"], location=p["loc"], name=p["name"])
    if k == "headers":
        return HeadersAuth({n: v for n, v in p["hdrs"]})
    if k == "oauth2":
        if p["refresh"]:
            rets = list(p["rets"])

            async def cb(current):
                n = len(sess.calls)
                rec = {"shown": _txt(current), "req": sess.current, "fut": None}
                sess.calls.append(rec)
                if sess.suspend:
                    # suspend for real: the harness resolves this future when the behaviour says "resume <request>"
                    rec["fut"] = asyncio.get_running_loop().create_future()
                    sess.entered.add(rec["req"])
                    await rec["fut"]
                r = rets[min(n, len(rets) - 1)]
                if r == "<same>":
                    return current
                if r == "<none>":
                    return None
                return r

            return OAuth2Auth(p["val"], refresh_callback=cb)
        return OAuth2Auth(p["val"])
    raise ValueError(f"unknown plug-in kind {k}")


def build_auth(cfg: dict, sess: Session):
    """cfg["tree"] is a token list over "(" ")" "*": a parenthesised group is a CompositeAuth of its members, "*" is the
    next plug-in of cfg["plugins"]; [] = no auth=, ["*"] = the bare plug-in."""
    ps = [build_plugin(p, sess) for p in cfg["plugins"]]
    toks = list(cfg["tree"])
    if not toks:
        return None
    nxt = [0]
    pos = [0]

    def parse():
        t = toks[pos[0]]
        pos[0] += 1
        if t == "*":
            p = ps[nxt[0]]
            nxt[0] += 1
            return p
        if t != "(":
            raise ValueError(f"bad auth tree {toks}")
        members = []
        while toks[pos[0]] != ")":
            members.append(parse())
        pos[0] += 1
        return CompositeAuth(*members)

    auth = parse()
    if pos[0] != len(toks) or nxt[0] != len(ps):
        raise ValueError(f"bad auth tree {toks}")
    return auth


def parse_cookie_header(values: list[str]) -> list[list[str]]:
    out = []
    for v in values:
        for part in v.split(";"):
            part = part.strip()
            if part:
                n, _, val = part.partition("=")
                out.append([n, val])
    return out


def _empty(err: str) -> dict:
    return {"headers": [], "query": [], "cookies": [], "body": "", "path": "", "refresh": [], "defaults": [], "err": err}


def _observe(r: httpx.Request) -> dict:
    obs = _empty("none")
    cookie_values = []
    for raw, val in r.headers.raw:
        n = raw.decode("latin-1")
        v = val.decode("latin-1")
        if n.lower() == "cookie":
            cookie_values.append(v)
        elif n.lower() not in HTTPX_OWN:
            obs["headers"].append([n, n.lower(), v])
    obs["query"] = [[k, v] for k, v in r.url.params.multi_items()]
    obs["cookies"] = parse_cookie_header(cookie_values)
    obs["body"] = r.content.decode("latin-1")
    obs["path"] = r.url.path
    return obs


MAX_TURNS = 2000  # event-loop turns granted to a coroutine to reach its next suspension point / its end (no clock)


async def run_job(job: dict) -> dict:
    """One transport, the session's requests.  cfg["sched"] == []: one after the other.  Otherwise the requests are in
    flight together and cfg["sched"] is the interleaving to reproduce: {"k": "start", "r": n} creates the task of
    request n and lets it run until it suspends inside the refresh callback (or ends); {"k": "resume", "r": n} lets the
    callback of request n answer and runs that request to its end.  Nothing else is runnable in between (every other
    request waits for its own future), so the interleaving is exactly the prescribed one."""
    cfg = job["cfg"]
    n = len(cfg["requests"])
    sched = cfg.get("sched") or []
    sess = Session(suspend=bool(sched))
    events = sched or [{"k": "start", "r": i + 1} for i in range(n)]
    defaults = None
    out: dict[int, dict] = {}
    tasks: dict[int, asyncio.Task] = {}
    transport = None
    _captured.clear()

    def finish(r: int) -> None:
        """request r's task has ended: turn what it sent into its observation"""
        t = tasks[r]
        if t.cancelled():
            out[r] = _empty("cancelled")
            return
        if t.exception() is not None:
            out[r] = _empty(type(t.exception()).__name__)
            out[r]["detail"] = str(t.exception())[:200]
            return
        mine = [q for (task, q) in _captured if task is t]
        if len(mine) != 1:
            out[r] = _empty(f"captured {len(mine)} requests")
            return
        obs = _observe(mine[0])
        obs["refresh"] = [c["shown"] for c in sess.calls if c["req"] == r]
        obs["defaults"] = [[k, _txt(v)] for k, v in (defaults or {}).items()]
        out[r] = obs

    try:
        tkw: dict = {"base_url": "http://h.test"}
        auth = build_auth(cfg, sess)
        if auth is not None:
            tkw["auth"] = auth
        if cfg["bearer"]:
            tkw["bearer_token"] = cfg["bearer"]
        if cfg["defaults"]:
            defaults = {k: v for k, v in cfg["defaults"]}
            tkw["default_headers"] = defaults
        transport = HttpxTransport(**tkw)
        for ev in events:
            r = ev["r"]
            if ev["k"] == "start":
                ra = cfg["reqargs"][r - 1]
                rkw: dict = {}
                if cfg["requests"][r - 1]:
                    rkw["headers"] = {k: v for k, v in cfg["requests"][r - 1]}
                if ra["params"]:
                    rkw["params"] = {k: v for k, v in ra["params"]}
                if ra["cookies"]:
                    rkw["cookies"] = {k: v for k, v in ra["cookies"]}
                if ra["body"]:
                    rkw["content"] = ra["body"].encode()
                sess.current = r
                tasks[r] = asyncio.ensure_future(transport.request("POST", ra["path"], **rkw))
                if not sess.suspend:
                    await asyncio.wait([tasks[r]])  # nothing suspends: the request runs to its end
                for _ in range(MAX_TURNS):
                    if tasks[r].done() or r in sess.entered:
                        break
                    await asyncio.sleep(0)
            else:
                rec = next((c for c in sess.calls if c["req"] == r and c["fut"] is not None and not c["fut"].done()), None)
                if rec is None or r not in tasks:
                    out[r] = _empty("resume-without-suspension")
                    continue
                rec["fut"].set_result(None)
                for _ in range(MAX_TURNS):
                    if tasks[r].done():
                        break
                    await asyncio.sleep(0)
            if r in tasks and tasks[r].done() and r not in out:
                finish(r)
    except Exception as e:  # noqa: BLE001
        for i in range(1, n + 1):
            if i not in out:
                out[i] = _empty(type(e).__name__)
                out[i]["detail"] = str(e)[:200]
    finally:
        for r, t in tasks.items():
            if not t.done():
                t.cancel()
                out.setdefault(r, _empty("not-sent"))
        for t in tasks.values():
            try:
                await t
            except BaseException:  # noqa: BLE001
                pass
        if transport is not None:
            try:
                await transport.close()
            except Exception:  # noqa: BLE001
                pass
    return {"id": job["id"], "obs": [out.get(i, _empty("not-sent")) for i in range(1, n + 1)]}


async def main() -> None:
    jobs = json.loads(sys.stdin.read())
    out = []
    for job in jobs:
        out.append(json.dumps(await run_job(job)))
    sys.stdout.write("\n".join(out) + "\n")


if __name__ == "__main__":
    asyncio.run(main())
