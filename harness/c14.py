"""C14 - union values are decoded as the right variant, never lossily.

(A) MC_Union (TLC, exhaustive): for every union of the families and every conforming payload of every variant the
    code-shaped ImplChoose is judged against the reference ChooseVariant (UnionCodec.tla) through a verdict - one run
    yields the whole counterexample relation of the modelled design - and the same run prints the scenarios.
(B) the same (union, payload) pairs are replayed on the REAL converter: directly (harness.w_union: make_dataclass
    variants + alias/discriminator metadata in the generator's shape; top-level / field / list item) and through
    really generated packages (harness.w_gen + harness.w_obs with the observer harness.w_unionobs).
(C) Trace_Union (TLC, total monitor) judges every observation: C14.lossy, C14.wrong_variant_with_discriminator,
    C14.unmapped_guess, C14.retry_after_mapped_failure, C14.error_on_conforming; disagreement between ImplChoose and
    the observation is DRIFT.
"""

from __future__ import annotations

import hashlib
import json
import threading
from concurrent.futures import ThreadPoolExecutor
from typing import Any

from . import core
from .core import Check, run_tlc
from .w_unionobs import BASE_POSITIONS, EXTRA_POSITIONS

LEVEL = "model_checking"

CLAUSES = ["C14.lossy", "C14.wrong_variant_with_discriminator", "C14.unmapped_guess", "C14.retry_after_mapped_failure", "C14.error_on_conforming", "C14.not_a_variant", "C14.history_dependent"]
NAMES = ["Alpha", "Beta", "Gamma", "Delta"]
DIGIT_NAMES = ["Pet1", "Pet2", "Pet3", "Pet4"]  # file pet_1.py, but the emitted get_mapping() imports .pet1
FIELDS = ["a", "b", "c"]
DIRECT_EXTRA = ["opt", "map", "rows"]
INLINE_POSITIONS = ["ifield", "ilist"]


# ---------------------------------------------------------------------------------------------
# (A) design check + scenario generation


def mc_cfg(family: str, lo: int, hi: int, extra: bool = False) -> str:
    return f"""SPECIFICATION Spec
CONSTANTS
 Family = "{family}"
 MinVars = {lo}
 MaxVars = {hi}
 WithExtra = {"TRUE" if extra else "FALSE"}
CHECK_DEADLOCK FALSE
"""


def ukey(u: dict) -> str:
    return json.dumps(u, sort_keys=True)


def stable_hash(s: str, seed: int) -> int:
    return int(hashlib.sha256(f"{seed}:{s}".encode()).hexdigest()[:12], 16)


def locus_key(clause: str, loc: dict) -> str:
    return clause + " " + json.dumps({k: v for k, v in loc.items() if k != "pos"}, sort_keys=True)


BASE_MODES = {"abs", "opt", "req"}
ANN_MODES = {"reqdef", "optdef", "reqenum", "reqdate"}


def is_nulldisc(u: dict) -> bool:
    return bool(u["nullable"]) and u["disc"]["mode"] != "none"


def is_extra(u: dict) -> bool:
    return u["disc"]["mode"] == "multi" or is_nulldisc(u) or any(set(v["f"]) - BASE_MODES for v in u["vars"])


def is_ann(u: dict) -> bool:
    return any(set(v["f"]) & ANN_MODES for v in u["vars"])


_LOCK = threading.Lock()


class _Sub:
    """Thread-safe stand-in for chk.scratch in run_tlc (which only calls .sub()): independent TLC runs are started
    concurrently with a share of the cores each."""

    def __init__(self, chk: Check):
        self.chk = chk

    def sub(self, name: str):  # noqa: ANN201
        with _LOCK:
            return self.chk.scratch.sub(name)


def designs(chk: Check, specs: list[tuple[str, str, int, int, bool]]) -> dict[str, list[dict]]:
    """specs: (key, family, lo, hi, extra).  The exhaustive design runs are independent: run concurrently, account in order."""
    w = max(2, core.NCPU // max(1, min(3, len(specs))))

    def one(sp):  # noqa: ANN001, ANN202
        key, family, lo, hi, extra = sp
        return run_tlc(_Sub(chk), "MC_Union", mc_cfg(family, lo, hi, extra), coverage=True, workers=w, timeout=1800, heap="4g")

    with ThreadPoolExecutor(max_workers=3) as ex:
        rs = list(ex.map(one, specs))
    return {sp[0]: design_account(chk, sp[1], sp[2], sp[3], sp[4], r) for sp, r in zip(specs, rs)}


def design(chk: Check, family: str, lo: int, hi: int, extra: bool = False) -> list[dict]:
    """extra: the run additionally emits the 2-variant unions of the "extra" family (required-nullable fields,
    non-injective discriminator mappings) - callers split them off with is_extra()."""
    r = run_tlc(chk.scratch, "MC_Union", mc_cfg(family, lo, hi, extra), coverage=True, workers=8, timeout=900)
    return design_account(chk, family, lo, hi, extra, r)


def design_account(chk: Check, family: str, lo: int, hi: int, extra: bool, r: Any) -> list[dict]:
    tag = f"MC_Union[{family}{'+extra' if extra else ''},{lo}..{hi}]"
    chk.add_tlc(tag, r)
    chk.require(r.coverage.get("Emit", (0, 0))[1] > 0, f"vacuous design run: Emit never taken in {tag}")
    scen = r.printed.get("SCEN", [])
    chk.require(len(scen) > 0, f"{tag} produced no scenario")
    chk.require(2 * len(scen) == r.distinct, f"{tag}: {len(scen)} scenarios for {r.distinct} states")
    scen.sort(key=lambda d: ukey(d["u"]))
    rel: dict[str, int] = chk.cov.setdefault("design_counterexample_relation", {})
    npairs = 0
    for d in scen:
        for c in d["cases"]:
            npairs += 1
            if c["verdict"] != "ok":
                k = locus_key(c["verdict"], c["locus"])
                rel[k] = rel.get(k, 0) + 1
    chk.cov["design_pairs"] = chk.cov.get("design_pairs", 0) + npairs
    return scen


# ---------------------------------------------------------------------------------------------
# (B) replay on the real converter, (C) monitor


def direct_jobs(chk: Check, scen: list[dict], label: str, all_positions_upto: int) -> list[dict]:
    jobs = []
    for n, d in enumerate(scen):
        u = d["u"]
        nv = len(u["vars"])
        cases = [{"cid": i + 1, "payload": c["p"]} for i, c in enumerate(d["cases"])]
        # the position through which the union value is reached is a dimension: small unions at the three basic positions
        # plus one hash-chosen wrapper position, larger ones at one hash-chosen position out of all six
        h = stable_hash(ukey(u), chk.seed)
        if nv <= all_positions_upto:
            pos = ["top", "field", "list", DIRECT_EXTRA[h % 3]]
        else:
            pos = [(["top", "field", "list"] + DIRECT_EXTRA)[h % 6]]
        jobs.append({"id": f"{label}#{n}", "vars": u["vars"], "nullable": u["nullable"], "disc": u["disc"], "cases": cases, "positions": pos})
    return jobs


def judge(chk: Check, traces: list[dict], label: str, via: str) -> None:
    """traces: {"id", "u", "cases": [{"cid","p"}], "obs": [...], "_design": scenario record | None}"""
    if not traces:
        return
    by_id = {t["id"]: t for t in traces}
    # chunks of at most ~40k observations per monitor run (TLC holds the whole trace file in memory)
    chunks: list[list[dict]] = [[]]
    nobs = 0
    for t in traces:
        if nobs + len(t["obs"]) > 40000 and chunks[-1]:
            chunks.append([])
            nobs = 0
        chunks[-1].append(t)
        nobs += len(t["obs"])
    # The monitor is evaluated per trace, so chunks are independent: they run as concurrent TLC processes with few
    # workers each (measured: one 16-worker TLC is slower than a 4-worker one on this kind of batch, and -coverage
    # doubles the monitor's run time - vacuity of the monitor is guarded by "one verdict per trace" and the n_* counters).
    def one(arg: tuple[int, list[dict]]) -> tuple[int, Any]:
        i, chunk = arg
        with _LOCK:
            d = chk.scratch.sub("union_traces")
        tf = d / "traces.ndjson"
        with tf.open("w") as f:
            for t in chunk:
                f.write(json.dumps({k: v for k, v in t.items() if not k.startswith("_")}) + "\n")
        r = run_tlc(_Sub(chk), "Trace_Union", "SPECIFICATION Spec\nCHECK_DEADLOCK FALSE\n", workers=max(2, core.NCPU // max(1, min(3, len(chunks)))), env={"TRACE_FILE": str(tf)}, timeout=1800, heap="4g")
        tf.unlink()
        return i, r

    verdicts = []
    with ThreadPoolExecutor(max_workers=3) as ex:
        results = sorted(ex.map(one, list(enumerate(chunks))), key=lambda x: x[0])
    for i, r in results:
        chk.add_tlc(f"Trace_Union[{label},{i}]", r)
        vs = r.printed.get("VERDICT", [])
        chk.require(len(vs) == len(chunks[i]), f"monitor produced {len(vs)} verdicts for {len(chunks[i])} traces")
        verdicts += vs
    ndrift = 0
    for v in verdicts:
        t = by_id[v["id"]]
        u = t["u"]
        chk.cov["traces_validated_against_impl"] += 1
        chk.count(v["nobs"])
        chk.cov["pairs_judged_on_real_code"] = chk.cov.get("pairs_judged_on_real_code", 0) + len(t["cases"])
        chk.cov[f"observations_{via}"] = chk.cov.get(f"observations_{via}", 0) + v["nobs"]
        chk.clause("C14.not_a_variant", v["nobs"])
        chk.clause("C14.history_dependent", v["n_hist"])
        chk.clause("C14.lossy", v["n_value"])
        chk.clause("C14.error_on_conforming", v["n_value"])
        chk.clause("C14.wrong_variant_with_discriminator", v["n_disc_value"])
        chk.clause("C14.unmapped_guess", v["n_unmapped"])
        chk.clause("C14.retry_after_mapped_failure", v["n_mapped_fails"])
        if len(u["vars"]) >= 2:
            chk.nontrivial({"u": u})
        for f in v["fails"]:
            loc = dict(f["locus"])
            loc["pos"] = f["pos"]
            loc["via"] = via
            if "fresh" in t:
                loc["hist"] = t.get("_hist", "classes")  # which kind of history preceded this decode
            p = t["cases"][f["cid"] - 1]["p"]
            o = next(o for o in t["obs"] if o["cid"] == f["cid"] and o["pos"] == f["pos"])
            # observed on the type object itself: does the union at this position still list its members in the document's order?
            loc["type_order"] = o.get("torder", "declared")
            chk.fail(f["clause"], loc, {"u": u, "payload": p, "pos": f["pos"], "via": via, "flavour": t.get("_flavour", "plain"), "hist": t.get("_hist", "classes") if "fresh" in t else "", "shape": t.get("_shape", {})}, f"observed {json.dumps({k: o[k] for k in ('out', 'chosen', 'ckind', 'ekind', 'reenc')})[:400]}")
        if v["drift"] and not t.get("_nodrift"):
            ndrift += len(v["drift"])
            if chk.cov.get("drift_reported", 0) < 3:
                chk.cov["drift_reported"] = chk.cov.get("drift_reported", 0) + 1
                x = v["drift"][0]
                o = next(o for o in t["obs"] if o["cid"] == x["cid"] and o["pos"] == x["pos"])
                chk.note_drift(
                    f"{label}: ImplChoose predicts out={x['model']} chosen={x['chosen']} but the converter gave out={o['out']} chosen={o['chosen']} "
                    f"kind={o['ckind']} err={o['ekind']} for union {json.dumps(u)[:300]} payload {json.dumps(t['cases'][x['cid'] - 1]['p'])[:200]} ({x['pos']}, {via})"
                )
    if ndrift:
        chk.cov["drift_observations"] = chk.cov.get("drift_observations", 0) + ndrift
        chk.note_drift(f"{label}: {ndrift} observation(s) not explained by ImplChoose in total")
    t = traces[len(traces) // 2]
    chk.sample({"family": label, "via": via, "union": t["u"], "payload": t["cases"][0]["p"], "observed": t["obs"][0]}, cap=8)


def replay_direct(chk: Check, groups: list[tuple[str, list[dict], int, Any]], label: str = "direct") -> None:
    """groups: (family label, scenarios, all_positions_upto, history?) - ONE worker round and ONE monitor batch for all
    of them (a JVM start and 16 interpreter starts per family are a noticeable part of the quick tier's budget).
    history: HistoryIndependent on the real converter - another union with an equal (property, value -> class NAME)
    table is decoded first through the same converter module, then this one; `fresh` is the fresh-process outcome."""
    jobs, scen_of = [], []
    for fam, scen, upto, hist in groups:
        js = direct_jobs(chk, scen, fam, upto)
        for j, d in zip(js, scen):
            if hist == "classes":
                j["history"] = {"kind": "classes", "vars": hist_vars(d["u"])}
            elif hist:
                j["history"] = {"kind": hist}
            jobs.append(j)
            scen_of.append(d)
    if not jobs:
        return
    res = core.parallel_py(chk.scratch, "harness.w_union", jobs)
    traces = []
    for d, j, r in zip(scen_of, jobs, res):
        t = {"id": j["id"], "u": d["u"], "cases": [{"cid": c["cid"], "p": c["payload"]} for c in j["cases"]], "obs": r["res"]}
        if "history" in j:
            t["fresh"] = r["fresh"]
            t["_hist"] = j["history"]["kind"]
            t["_nodrift"] = t["_hist"] == "perm"  # wrapper positions follow the OTHER union's order (known finding), see notes
        traces.append(t)
    judge(chk, traces, label, "direct")


def hist_vars(u: dict) -> list[dict]:
    """The 'other client' of a history replay: same number of variants, same discriminator table and class names, but
    every variant reduced to the discriminator property alone (an older API version with fewer properties)."""
    return [{"k": "obj", "of": "-", "f": ["abs", "abs", "abs"]} for _ in u["vars"]]


# ---- generated packages


def variant_schema(v: dict, i: int, names: list[str]) -> dict:
    k = v["k"]
    if k == "obj":
        return {"$ref": f"#/components/schemas/{names[i]}"}
    if k in ("str", "int", "float", "bool"):
        return {"type": {"str": "string", "int": "integer", "float": "number", "bool": "boolean"}[k]}
    prim = {"str": {"type": "string"}, "int": {"type": "integer"}}
    if k == "list":
        return {"type": "array", "items": prim[v["of"]]}
    if k == "map":
        return {"type": "object", "additionalProperties": prim[v["of"]]}
    if k == "anymap":
        return {"type": "object", "additionalProperties": True}
    raise ValueError(k)


def union_doc(u: dict, how: str, names: list[str] = NAMES, kind_enum: bool = False, typed: bool = False, pair: bool = False,
              null_style: str = "flag", desc: bool = False, inline: bool = False) -> dict:
    """The one translation of an abstract union (UnionCodec.tla vocabulary) to an OpenAPI document: the union is the
    schema Pet (declared with `type: object` when typed), reached through every position of w_unionobs.POSITIONS."""
    disc = u["disc"]
    prop = disc["prop"] if disc["mode"] != "none" else None
    schemas: dict[str, Any] = {}
    for i, v in enumerate(u["vars"]):
        if v["k"] != "obj":
            continue
        props: dict[str, Any] = {}
        req = []
        if prop:
            props[prop] = {"type": "string"}
            if kind_enum:  # the variant declares its own discriminator values inline
                props[prop]["enum"] = [tag for tag, vi in disc["mapping"] if vi == i + 1]
            req.append(prop)
        for fld, m in zip(FIELDS, v["f"]):
            if m != "abs":
                props[fld] = {"type": "string"}
            if m == "rnul":
                props[fld]["nullable"] = True
            if m in ("reqdef", "optdef"):
                props[fld]["default"] = "d" + fld
            if m == "reqenum":
                props[fld]["enum"] = ["v" + fld]
            if m == "reqdate":
                props[fld]["format"] = "date"
            if m in ("req", "rnul", "reqdef", "reqenum", "reqdate"):
                req.append(fld)
        node: dict[str, Any] = {"type": "object", "properties": props}
        if req:
            node["required"] = req
        schemas[names[i]] = node
    pet: dict[str, Any] = {how: [variant_schema(v, i, names) for i, v in enumerate(u["vars"])]}
    if prop:
        pet["discriminator"] = {"propertyName": prop, "mapping": {tag: f"#/components/schemas/{names[i - 1]}" for tag, i in disc["mapping"]}}
    # the union schema's own modifiers: nullable in its two spellings, description, type: object
    if u["nullable"]:
        if null_style == "member":
            pet[how] = pet[how] + [{"type": "null"}]
        else:
            pet["nullable"] = True
    if typed:
        pet["type"] = "object"
    if desc:
        pet["description"] = "One of the variants."
    schemas["Pet"] = pet
    if inline:  # the same union declared inline at a property / as array items (only in documents observed there)
        schemas["Hifield"] = {"type": "object", "properties": {"u": json.loads(json.dumps(pet))}, "required": ["u"]}
        schemas["Hilist"] = {"type": "object", "properties": {"items": {"type": "array", "items": json.loads(json.dumps(pet))}}, "required": ["items"]}
    P = {"$ref": "#/components/schemas/Pet"}
    arr = {"type": "array", "items": P}
    schemas["PetList"] = dict(arr)
    schemas["PetMap"] = {"type": "object", "additionalProperties": P}
    schemas["Hfield"] = {"type": "object", "properties": {"u": P}, "required": ["u"]}
    schemas["Hlist"] = {"type": "object", "properties": {"items": dict(arr)}, "required": ["items"]}
    schemas["Hnlist"] = {"type": "object", "properties": {"items": {"$ref": "#/components/schemas/PetList"}}, "required": ["items"]}
    schemas["Hmap"] = {"type": "object", "properties": {"m": {"type": "object", "additionalProperties": P}}, "required": ["m"]}
    schemas["Hnmap"] = {"type": "object", "properties": {"m": {"$ref": "#/components/schemas/PetMap"}}, "required": ["m"]}
    schemas["Hrows"] = {"type": "object", "properties": {"rows": {"type": "array", "items": dict(arr)}}, "required": ["rows"]}
    schemas["Hopt"] = {"type": "object", "properties": {"u": P, "items": dict(arr)}}
    if pair:
        # a SECOND union over the same variant schemas in reversed order (never discriminated), used the same ways
        pet2: dict[str, Any] = {how: [variant_schema(v, i, names) for i, v in reversed(list(enumerate(u["vars"])))]}
        if u["nullable"]:
            if null_style == "member":
                pet2[how] = pet2[how] + [{"type": "null"}]
            else:
                pet2["nullable"] = True
        schemas["PetB"] = pet2
        P2 = {"$ref": "#/components/schemas/PetB"}
        arr2 = {"type": "array", "items": P2}
        schemas["PetBList"] = dict(arr2)
        schemas["Bfield"] = {"type": "object", "properties": {"u": P2}, "required": ["u"]}
        schemas["Blist"] = {"type": "object", "properties": {"items": dict(arr2)}, "required": ["items"]}
        schemas["Bnlist"] = {"type": "object", "properties": {"items": {"$ref": "#/components/schemas/PetBList"}}, "required": ["items"]}
        schemas["Brows"] = {"type": "object", "properties": {"rows": {"type": "array", "items": dict(arr2)}}, "required": ["rows"]}
        schemas["Bopt"] = {"type": "object", "properties": {"u": P2, "items": dict(arr2)}}

    def op(oid: str, name: str) -> dict:
        return {"get": {"operationId": oid, "tags": ["pets"], "summary": oid, "responses": {"200": {"description": "ok", "content": {"application/json": {"schema": {"$ref": f"#/components/schemas/{name}"}}}}}}}

    return {
        "openapi": "3.1.0" if (u["nullable"] and null_style == "member") else "3.0.3",
        "info": {"title": "unions", "version": "1.0.0"},
        "paths": {"/pet": op("getPet", "Pet"), "/pets": op("getPets", "PetList"), "/hfield": op("getHfield", "Hfield"), "/hnlist": op("getHnlist", "Hnlist")},
        "components": {"schemas": schemas},
    }


def pick_generated(chk: Check, fams: dict[str, list[dict]], target: int) -> list[tuple[str, dict]]:
    """A deterministic, stratified choice of (flavour, scenario) to push through real generation."""
    quota = {"disc": target * 4 // 10, "mixed": target * 3 // 10, "obj": target - target * 4 // 10 - target * 3 // 10}
    out: list[tuple[str, dict]] = []
    rank = lambda scen: sorted(scen, key=lambda d: stable_hash(ukey(d["u"]), chk.seed))  # noqa: E731
    for fam, scen in fams.items():
        if fam in quota:
            ranked = rank(scen)
            out += [("plain", d) for d in ranked[: quota[fam]]]
            if fam == "disc":
                # the same discriminated unions once more with schema names that contain digits (emitted module names differ)
                out += [("digit", d) for d in ranked[:8]]
                # two clients sharing one core package: complete mapping, decoded after the other client's union
                out += [("hist", d) for d in [x for x in ranked if x["u"]["disc"]["mode"] == "complete"][: max(6, target // 30)]]
            # one document with TWO unions over the same variant schemas in opposite orders, the other one decoded first
            two = [x for x in ranked if len(x["u"]["vars"]) == 2 and x["u"]["disc"]["mode"] in ("none", "complete") and not any(v["k"] in ("map", "anymap") for v in x["u"]["vars"])]
            out += [("pair", d) for d in two[: max(10, target // 20)]]
        if fam == "extra":
            multi = rank([d for d in scen if d["u"]["disc"]["mode"] == "multi"])
            nul = rank([d for d in scen if d["u"]["disc"]["mode"] == "none" and not is_ann(d["u"])])
            nd = rank([d for d in scen if is_nulldisc(d["u"])])
            out += [("plain", d) for d in nd[: max(24, target // 8)]]
            ann = rank([d for d in scen if is_ann(d["u"])])
            out += [("plain", d) for d in ann[: max(40, target // 5)]]
            out += [("multi-enum", d) for d in multi[: max(10, target // 20)]]
            out += [("multi-plain", d) for d in multi[:4]]
            out += [("plain", d) for d in nul[: max(12, target // 15)]]
    return out


def gen_shape(chk: Check, flavour: str, u: dict) -> dict:
    """Deterministic stratification of the generated family.  The union SCHEMA's own modifiers - `type: object` or not,
    `nullable: true` vs a `{type: null}` member (for nullable unions), with / without description - and the positions
    through which it is observed: always response root / direct field / inline array item, plus 4 of the 9 other
    positions, rotating by hash so that every position sees every flavour and modifier."""
    h = stable_hash(flavour + ukey(u), chk.seed)
    shape = {"typed": h % 4 == 0, "null_style": "member" if (h // 4) % 2 else "flag", "desc": (h // 8) % 2 == 1}
    if flavour == "hist":
        shape["positions"] = list(BASE_POSITIONS)
    elif flavour == "pair":  # (map positions need the hooks the emitted map wrappers register on the first converter module)
        shape["positions"] = list(BASE_POSITIONS) + ["nlist", "rows", "opt", "olist"]
    else:
        # (an inline copy of a discriminated union makes the generator's discriminator-enum collector re-type the variants'
        # discriminator field - with a non-injective mapping that loses a value exactly like C14-F11 - so the flavour that
        # relies on inline enums is observed without inline copies)
        extras = [p for p in EXTRA_POSITIONS if flavour != "multi-enum" or p not in INLINE_POSITIONS]
        start = (h // 16) % len(extras)
        shape["positions"] = list(BASE_POSITIONS) + [extras[(start + k) % len(extras)] for k in range(4)]
    return shape


def replay_generated(chk: Check, picked: list[tuple[str, dict]], label: str, force: dict | None = None) -> None:
    if not picked:
        return
    root = chk.scratch.sub("gen_unions")
    jobs, pre = [], []
    shapes = []
    for j, (flavour, d) in enumerate(picked):
        how = "oneOf" if j % 2 == 0 else "anyOf"
        u = d["u"]
        shape = gen_shape(chk, flavour, u)
        if force:
            shape = dict(shape, **{k: v for k, v in force.items() if k in ("typed", "null_style", "desc")}, positions=[force["pos"]])
        shapes.append(shape)
        doc = union_doc(u, how, DIGIT_NAMES if flavour == "digit" else NAMES, kind_enum=(flavour == "multi-enum"), typed=shape["typed"], pair=(flavour == "pair"),
                        null_style=shape["null_style"], desc=shape["desc"], inline=any(p in INLINE_POSITIONS for p in shape["positions"]))
        job = {"id": f"{label}#{j}", "root": str(root), "spec": doc, "pkg": f"u{j}.client", "force": True, "nopp": True}
        if flavour == "hist":
            # v1 and v2 of one API as two top-level client packages sharing one core package
            job.update({"pkg": f"h{j}v2", "core": f"h{j}core"})
            u1 = dict(u, vars=hist_vars(u))
            pre.append({"id": f"{label}#{j}pre", "root": str(root), "spec": union_doc(u1, how), "pkg": f"h{j}v1", "core": f"h{j}core", "force": True, "nopp": True})
        jobs.append(job)
    pres = {r["id"]: r for r in core.parallel_py(chk.scratch, "harness.w_gen", pre)} if pre else {}
    gres = core.parallel_py(chk.scratch, "harness.w_gen", jobs)
    ojobs = []
    for (flavour, d), j, g, shape in zip(picked, jobs, gres, shapes):
        positions = shape["positions"]
        ok = g["ok"] and (flavour != "hist" or pres[j["id"] + "pre"]["ok"])
        if not ok:
            chk.cov["not_generated"] = chk.cov.get("not_generated", 0) + 1
            if chk.cov["not_generated"] <= 2:
                chk.note_drift(f"generation failed visibly for a union document ({g['errtype']}: {str(g['err'])[:160]}) - not judged")
            continue
        nm = DIGIT_NAMES if flavour == "digit" else NAMES
        names = {nm[i]: i + 1 for i, v in enumerate(d["u"]["vars"]) if v["k"] == "obj"}
        oj = {"id": j["id"], "root": j["root"], "pkg": j["pkg"], "want": ["unions"], "alias": "Pet", "positions": positions, "names": names, "cases": [{"cid": i + 1, "payload": c["p"]} for i, c in enumerate(d["cases"])]}
        if flavour == "hist":
            prop = d["u"]["disc"]["prop"]
            oj["core"] = j["core"]
            oj["history"] = {"pkg": j["pkg"][:-1] + "1", "alias": "Pet", "payloads": [{"t": "o", "v": [{"k": prop, "v": {"t": "s", "v": tag}}]} for tag, _ in d["u"]["disc"]["mapping"]]}
        kinds = {"str": "str", "int": "int", "float": "float", "bool": "bool", "list": "list", "map": "dict", "anymap": "dict"}
        oj["order"] = [nm[i] if v["k"] == "obj" else kinds[v["k"]] for i, v in enumerate(d["u"]["vars"])]
        if flavour == "pair":
            oj["history"] = {"kind": "perm"}
        ojobs.append(oj)
    chk.require(len(ojobs) > 0, "no union document could be generated")
    ores = {r["id"]: r for r in core.parallel_py(chk.scratch, "harness.w_obs", ojobs, env={"VERIF_OBS_EXTRA": "harness.w_unionobs"})}
    traces = []
    for (flavour, d), j, shape in zip(picked, jobs, shapes):
        o = ores.get(j["id"])
        if o is None:
            continue
        ob = o["unions"]
        if "observer_error" in ob:
            # the emitted package could not be imported / has no such alias: C01's business, nothing to judge here
            chk.cov["generated_not_observable"] = chk.cov.get("generated_not_observable", 0) + 1
            if chk.cov["generated_not_observable"] <= 2:
                chk.note_drift(f"emitted union package not observable ({ob['observer_error']['type']}: {ob['observer_error']['msg'][:160]}) for {json.dumps(d['u'])[:200]}")
            continue
        # the generator renders a typed inline map as dict[str, Any] (the fallback type), so the emitted alias is not the
        # union ImplChoose is evaluated on: the property-level judgement is unaffected, the model comparison is skipped
        # (likewise for the flavours whose known generator defects make the emitted code differ from the model)
        nodrift = any(v["k"] == "map" for v in d["u"]["vars"]) or flavour in ("digit", "multi-plain", "pair")
        t = {"id": j["id"], "u": d["u"], "cases": [{"cid": i + 1, "p": c["p"]} for i, c in enumerate(d["cases"])], "obs": ob["res"], "_alias": ob["alias_repr"], "_nodrift": nodrift, "_flavour": flavour, "_shape": {k: shape[k] for k in ("typed", "null_style", "desc")}}
        if flavour in ("hist", "pair"):
            t["fresh"] = ob["fresh"]
            t["_hist"] = "perm" if flavour == "pair" else "classes"
        traces.append(t)
        chk.cov[f"generated_{flavour}"] = chk.cov.get(f"generated_{flavour}", 0) + 1
    chk.cov["generated_unions"] = chk.cov.get("generated_unions", 0) + len(traces)
    chk.require(len(traces) * 2 >= len(picked), f"only {len(traces)} of {len(picked)} generated union packages were observable")
    if traces:
        chk.sample({"generated_alias": traces[0]["_alias"], "union": traces[0]["u"]}, cap=8)
    judge(chk, traces, label, "generated")


# ---------------------------------------------------------------------------------------------


def run(chk: Check) -> None:
    thorough = chk.tier == "thorough"
    chk.cov["rule"] = (
        "TLC enumerates every union of 2..3 variants in every order: objects over fields {a,b,c} x {absent,optional,required} (27 types, "
        "no discriminator), a mixed family (str,int,float,bool,List[str],List[int],Dict[str,str],Dict[str,int],dict[str,Any], 3 objects; "
        "nullable or not), a discriminator family (9 object types over {a,b}; complete mapping and every partial mapping); payloads = every "
        "canonical instance of every variant (discriminator family: with every variant's tag, i.e. also mis-tagged bodies); thorough adds "
        "4-variant unions (objects over {a,b}; mixed; discriminator family) and all three positions for every union of <=3 variants; each pair is replayed on the "
        "real converter (direct) and ~250 unions additionally through generated packages; an 'extra' family adds required-and-nullable fields "
        "(payload value null), annotated properties (default on required / optional, inline enum, format date - what the emitted field accepts) "
        "and non-injective discriminator mappings (two values -> one variant); history replays decode another union with "
        "an equal (property, value -> class name) table first through the same converter module (direct: same-named make_dataclass families; "
        "generated: two clients sharing one core package) or the reversed undiscriminated union over the SAME variant classes (direct: same class "
        "objects; generated: a second union PetB in the same document, decoded first); the position through which the union value is reached is a dimension "
        "(generated: response root, direct field, inline array, NAMED array alias as field and as root, inline map, NAMED map alias, array of "
        "arrays, non-required field / array, union schema declared INLINE at a property / as array items - 3 fixed + 4 hash-rotated positions "
        "per union) and so are the union schema's own modifiers (nullable: true vs a {type: null} member - also on DISCRIMINATED unions -, "
        "description, type: object; "
        "direct: top/field/list + one of Optional / Dict[str,U] / List[List[U]]); non-trivial = distinct union with >=2 variants"
    )
    chk.assumptions += [
        "JSON equality: numbers numerically (1 = 1.0), booleans/strings are not numbers; a null-valued key of the RE-ENCODING that the payload lacks is tolerated, "
        "a key the payload carries (even with null) must come back",
        "payloads that conform to no variant (only possible for mis-tagged bodies without the discriminator property) are not judged",
        "except in history replays, every union is replayed in the state of a freshly started client (converter module re-executed, typing caches cleared): "
        "Union[A,B] == Union[B,A] in Python, so typing/cattrs caches would otherwise hand List[Union[B,A]] to a later Union[A,B]",
        "the produced variant is identified by the class of the result (dataclass variants) or its Python kind (other variants)",
    ]
    fams: dict[str, list[dict]] = {}
    if thorough:
        got = designs(chk, [("disc", "disc", 2, 3, False), ("extra", "extra", 2, 3, False), ("mixed", "mixed", 2, 3, False), ("obj", "obj", 2, 3, False),
                            ("obj2x4", "obj2", 4, 4, False), ("mixed4", "mixed", 4, 4, False), ("disc4", "disc", 4, 4, False)])
        fams.update(got)
    else:
        # the discriminator run also emits the 2-variant "extra" unions (one JVM less)
        got = designs(chk, [("both", "disc", 2, 3, True), ("mixed", "mixed", 2, 3, False), ("obj", "obj", 2, 3, False)])
        fams["disc"] = [d for d in got["both"] if not is_extra(d["u"])]
        fams["extra"] = [d for d in got["both"] if is_extra(d["u"])]
        fams["mixed"], fams["obj"] = got["mixed"], got["obj"]
    chk.require(any(d["u"]["disc"]["mode"] == "multi" for d in fams["extra"]) and any(d["u"]["disc"]["mode"] == "none" for d in fams["extra"]),
                "extra family lacks non-injective mappings or required-nullable variants")
    rel = chk.cov["design_counterexample_relation"]
    chk.require(any(k.startswith("C14.lossy") and '"relation": "subset"' in k for k in rel), "design check vacuous: the modelled algorithm shows no subset-swallowing counterexample")
    chk.require(not any(k.split(" ")[0] in ("C14.unmapped_guess", "C14.retry_after_mapped_failure", "C14.wrong_variant_with_discriminator") for k in rel),
                "the modelled algorithm violates a discriminator clause: model and design notes out of date")
    allpos = 3 if thorough else 2  # unions with more variants are replayed at one (hash-chosen) position each
    groups = []
    for fam, scen in fams.items():
        if fam == "obj" and not thorough:
            # quick tier: every 2-variant object union, a deterministic fifth of the 3-variant ones (the design check above
            # is exhaustive in both tiers; the thorough tier replays all of them)
            scen = [d for d in scen if len(d["u"]["vars"]) == 2 or stable_hash(ukey(d["u"]), chk.seed) % 5 == 0]
            chk.cov["exhaustive_replay"] = False
        if fam == "extra":
            # the annotated-property unions are replayed at ONE hash-chosen position each in the quick tier (positions are
            # exercised by every other family), everything else as usual
            groups.append(("extra-ann", [d for d in scen if is_ann(d["u"])], allpos if thorough else 0, False))
            groups.append(("extra-nulldisc", [d for d in scen if is_nulldisc(d["u"])], allpos if thorough else 0, False))
            scen = [d for d in scen if not is_ann(d["u"]) and not is_nulldisc(d["u"])]
        groups.append((fam, scen, allpos, False))
    hist = [d for d in fams["disc"] if d["u"]["disc"]["mode"] == "complete" and (thorough or len(d["u"]["vars"]) == 2)]
    groups.append(("history", hist, 2, "classes"))
    # one document may hold SEVERAL unions over the same variant set in different orders, and decoding is a history
    # inside one process: the reversed undiscriminated union over the same classes is decoded first, then this one
    perm = [d for fam in ("obj", "mixed", "disc") for d in fams[fam]
            if len(d["u"]["vars"]) == 2 and d["u"]["disc"]["mode"] in ("none", "complete") and (thorough or stable_hash("perm" + ukey(d["u"]), chk.seed) % 3 == 0)]
    groups.append(("history-perm", perm, 2, "perm"))
    replay_direct(chk, groups)
    replay_generated(chk, pick_generated(chk, fams, 300 if thorough else 200), "generated")
    chk.cov["exhaustive"] = True


def replay(chk: Check, path: str) -> None:
    rec = json.loads(open(path).read())
    sc = rec["scenario"]
    u, p = sc["u"], sc["payload"]
    d = {"u": u, "cases": [{"p": p}]}
    if sc.get("via") == "generated":
        replay_generated(chk, [(sc.get("flavour", "plain"), d)], "replay", force=dict(sc.get("shape") or {"typed": sc.get("typed", False)}, pos=sc.get("pos", "top")))
    else:
        jobs = [{"id": "replay", "vars": u["vars"], "nullable": u["nullable"], "disc": u["disc"], "cases": [{"cid": 1, "payload": p}], "positions": [sc.get("pos", "top")]}]
        if sc.get("hist"):
            kind = sc["hist"] if isinstance(sc["hist"], str) else "classes"
            jobs[0]["history"] = {"kind": kind, "vars": hist_vars(u)}
        res = core.parallel_py(chk.scratch, "harness.w_union", jobs)
        print("REPLAY-OBSERVED", json.dumps(res[0]["res"]))
        t = {"id": "replay", "u": u, "cases": [{"cid": 1, "p": p}], "obs": res[0]["res"]}
        if sc.get("hist"):
            t["fresh"] = res[0]["fresh"]
            t["_hist"] = jobs[0]["history"]["kind"]
        judge(chk, [t], "replay", "direct")
    for f in chk.fails:
        print("REPLAY-FAIL", f["clause"], json.dumps(f["locus"]), f["detail"][:300])
