"""C01 - every accepted spec yields a package that compiles and imports.

Feature documents (Gen_Features: singles + pairs x layouts x strategies) -> real generation -> compile + import of
every module in a generator-less interpreter -> PyImport.tla explores EVERY entry module of every package's import
graph (CPython partial-initialisation semantics); predicted failures are confirmed in a fresh interpreter before
they count -> Trace_Load (TLC) judges the events.
"""

from __future__ import annotations

import json

from . import core, features, loadpipe
from .core import Check

LEVEL = "model_checking"
CLAUSES = ("C01.",)


def run_family(chk: Check, clauses: tuple[str, ...], runtime: bool, entries: bool = True) -> None:
    thorough = chk.tier == "thorough"
    feats = sorted(features.FEATURES)
    if thorough:
        scen = loadpipe.gen_feature_scenarios(chk, feats, 2, rotate=True)
        scen += [dict(s, layout=l, strategy=st) for s in scen if len(s["features"]) == 1 for l in loadpipe.LAYOUTS for st in loadpipe.STRATEGIES]
    else:
        scen = loadpipe.gen_feature_scenarios(chk, feats, 2, rotate=True)
        # quick: all singles, every second pair (seed picks the phase)
        scen = [s for i, s in enumerate(scen) if len(s["features"]) == 1 or (i + chk.seed) % 2 == 0]
    # every single feature under EVERY layout (strategy rotated), and a handful of features under the prefix-related layouts
    singles = [s for s in scen if len(s["features"]) == 1]
    for i, s in enumerate(singles):
        for li, l in enumerate(loadpipe.LAYOUTS):
            scen.append(dict(s, layout=l, strategy=loadpipe.STRATEGIES[(i + li) % 3]))
    probe = [s for s in singles if s["features"][0] in ("map_typed", "many_errors", "oneof_disc", "inline_object", "params_everywhere", "sse_response", "enum_top", "formats")]
    for s in (singles if thorough else probe):
        for l in loadpipe.PREFIX_LAYOUTS:
            scen.append(dict(s, layout=l))
    # de-duplicate
    seen = set()
    uniq = []
    for s in scen:
        k = json.dumps(s, sort_keys=True)
        if k not in seen:
            seen.add(k)
            uniq.append(s)
    scen = uniq
    nopp_all = True
    recs = loadpipe.generate_and_observe(chk, scen, nopp=nopp_all, label="f")
    accepted = [r for r in recs if r["gen"]["ok"]]
    chk.cov["documents"] = len(recs)
    chk.cov["accepted"] = len(accepted)
    rejected = [r for r in recs if not r["gen"]["ok"]]
    for r in rejected[:3]:
        chk.note_drift(f"generation rejected {r['sc']['features']} visibly: {r['gen']['errtype']}: {(r['gen']['err'] or '')[:120]}")
    chk.cov["rejected_visibly"] = len(rejected)
    # entry-point exploration: every single-feature package, and every 8th pair (all pairs when thorough)
    first_single: set[str] = set()
    only = set()
    for i, r in enumerate(accepted):
        f = r["sc"]["features"]
        if thorough or i % 8 == 0:
            only.add(r["job"]["id"])
        elif len(f) == 1 and f[0] not in first_single:
            first_single.add(f[0])
            only.add(r["job"]["id"])
    predicted = loadpipe.predict_entries(chk, accepted, "features", only=only) if entries else {}
    traces = loadpipe.build_events(chk, accepted, predicted, runtime=runtime, nopp=nopp_all, max_confirm=1 if not thorough else 2)
    # a post-processed sample (default configuration) for the runtime-verbatim clause and formatting-dependent output
    pp_traces = []
    if runtime:
        sample = [s for s in scen if len(s["features"]) == 1][:: (4 if not thorough else 1)][: (6 if not thorough else 40)]
        # SIZE thresholds of the post-processing step (command-line length, file counts): one large document (600 schemas, > 40 000
        # characters of generated paths) in an embedded (thorough: and a sibling-core) layout
        big = features.build(["many_errors"])
        for i in range(600):
            big["components"]["schemas"][f"Bulk{i:03d}"] = features.obj({"v": {"type": "string"}, "n": {"type": "integer"}})
        sample += [{"features": ["big600"], "spec": big, "layout": l, "strategy": "operationId"} for l in (({"depth": 2, "core": "embedded"}, {"depth": 3, "core": "sibling"}) if thorough else ({"depth": 2, "core": "embedded"},))]
        pp = loadpipe.generate_and_observe(chk, sample, nopp=False, label="pp", want=("compile", "import", "facts"))
        pp_traces = loadpipe.build_events(chk, [r for r in pp if r["gen"]["ok"]], {}, runtime=True, nopp=False)
    by_id = {t["id"]: t for t in traces + pp_traces}
    vs = loadpipe.judge(chk, traces + pp_traces, "features")
    chk.count(len(vs))
    for v in vs:
        t = by_id[v["id"]]
        sc = t["_rec"]["sc"]
        chk.nontrivial({"f": sc["features"], "l": sc["layout"], "s": sc["strategy"], "pp": v["id"].startswith("pp")})
        chk.clause("import_events", v["nimport"])
        chk.clause("import_statements", v["nstmt"])
        chk.clause("entry_points", v["nentry"])
        chk.clause("runtime_files", v["nruntime"])
        for f in v["fails"]:
            if not f["clause"].startswith(clauses):
                continue
            loc = dict(f["locus"])
            if sc["layout"]["core"] in ("repeated_component", "core_is_client_tail"):
                loc["layout"] = sc["layout"]["core"]   # package-name relations under which import arithmetic is known to go wrong (X03-F1, C11-F5)
            chk.fail(f["clause"], loc, {"features": sc["features"], "layout": sc["layout"], "strategy": sc["strategy"], "postprocess": v["id"].startswith("pp")}, json.dumps([e for e in t["ev"] if e["k"] in ("syntax", "export", "genimport") or (e["k"] == "import" and not e["ok"])][:3])[:500])
    mid = traces[len(traces) // 2]
    chk.sample({"scenario": mid["_rec"]["sc"], "events_head": mid["ev"][:5]})


def run(chk: Check) -> None:
    chk.cov["rule"] = (
        "documents = every feature of harness/features.py alone and every unordered pair (TLC Gen_Features), each with a layout "
        "(depth 1..3 x embedded/sibling/top-level core) and naming strategy rotated deterministically; for every accepted document "
        "every emitted module is compiled and imported in a generator-less interpreter and PyImport.tla explores every entry module; "
        "non-trivial = distinct (features, layout, strategy) scenario that the generator accepted"
    )
    chk.assumptions += [
        "PyImport models CPython's import protocol (sys.modules, partial initialisation, from-import fallback to sub-modules); every failure it predicts is confirmed by a real import in a fresh interpreter before it is reported",
        "documents the generator rejects visibly are not judged",
    ]
    run_family(chk, CLAUSES, runtime=False)
    chk.cov["exhaustive"] = True


def replay(chk: Check, path: str) -> None:
    rec = json.loads(open(path).read())
    sc = rec["scenario"]
    recs = loadpipe.generate_and_observe(chk, [sc], nopp=not sc.get("postprocess", False), label="r")
    acc = [r for r in recs if r["gen"]["ok"]]
    predicted = loadpipe.predict_entries(chk, acc, "replay")
    traces = loadpipe.build_events(chk, acc, predicted, runtime=True, nopp=not sc.get("postprocess", False))
    for v in loadpipe.judge(chk, traces, "replay"):
        for f in v["fails"]:
            print("REPLAY-FAIL", f["clause"], json.dumps(f["locus"]))
            chk.fail(f["clause"], f["locus"], sc, "")
