"""Worker for X02: drives the REAL CodeWriter / LineWriter.

Jobs (JSON list on stdin), one JSON line per job on stdout:
  {"id", "kind": "edges", "recs": [{"id", "s": state, "c": call}, ...]}
      every record: a real writer is put into state `s`, the call is made, -> {"id","s","c","r": real post-state,"ret","exc"}
  {"id", "kind": "paths", "paths": [{"id", "mw", "calls": [call, ...]}, ...]}
      every path is replayed from a fresh writer: one step record per call (pre-state = the REAL state before the call)
      plus one "pure" record: the same call sequence on a second instance, interleaved with a third instance doing
      something else, must give the same state and the same text.

Texts use the symbolic alphabet of specs/WriterOps.tla: "|" = newline, "^" = tab, "~" = U+2028.
state = {"level", "lines", "jn", "mw"}; call = {"op", "t", "p", "w", "k", "a"}.
"""

from __future__ import annotations

import json
import signal
import sys

from harness import core

core.install_tree_under_test()

try:  # a runaway buffer in the code under test must end as a MemoryError in the call, not as an OOM kill of the machine
    import resource

    resource.setrlimit(resource.RLIMIT_AS, (3 << 30, 3 << 30))
except Exception:  # noqa: BLE001
    pass

from pyopenapi_gen.core.writers.code_writer import CodeWriter  # noqa: E402
from pyopenapi_gen.core.writers.line_writer import LineWriter  # noqa: E402

CODE_ONLY = {"write_line", "write_block", "write_wrapped_line", "write_wrapped_docstring_line", "write_function_signature", "get_code"}


class Bare:
    """A LineWriter used on its own (as DocumentationFormatter does), behind the attribute layout of a CodeWriter."""

    def __init__(self, max_width: int) -> None:
        self.writer = LineWriter(max_width=max_width)

    def indent(self) -> None:
        self.writer.indent()

    def dedent(self) -> None:
        self.writer.dedent()


def _alarm(signum, frame):  # noqa: ANN001
    raise TimeoutError("call did not return within 5 s")


signal.signal(signal.SIGALRM, _alarm)

DEC = {"|": "\n", "^": "\t", "~": "\u2028"}
ENC = {v: k for k, v in DEC.items()}


def dec(s: str) -> str:
    return "".join(DEC.get(ch, ch) for ch in s)


def enc(s: str) -> str:
    return "".join(ENC.get(ch, ch) for ch in s)


def build(state: dict, bare: bool = False):  # noqa: ANN201
    w = Bare(state["mw"]) if bare else CodeWriter(max_width=state["mw"])
    lw = w.writer
    lw.lines = [dec(x) for x in state["lines"]]
    lw.indent_level = state["level"]
    lw._just_newlined = bool(state["jn"])
    lw.max_width = state["mw"]
    return w


def project(w) -> dict:  # noqa: ANN001
    lw = w.writer
    return {"level": int(lw.indent_level), "lines": [enc(str(x)) for x in lw.lines], "jn": bool(lw._just_newlined), "mw": int(lw.max_width)}


def apply(w: CodeWriter, c: dict) -> str:
    """Make the call on the real object; returns the (encoded) return value of a query, "" otherwise."""
    op, t, p, width, k, a = c["op"], dec(c["t"]), dec(c["p"]), c["w"], c["k"], [dec(x) for x in c["a"]]
    lw = w.writer
    if op == "indent":
        w.indent()
    elif op == "dedent":
        w.dedent()
    elif op == "write_line":
        w.write_line(t)
    elif op == "write_block":
        w.write_block(t)
    elif op == "write_wrapped_line":
        w.write_wrapped_line(t, width=width)
    elif op == "write_wrapped_docstring_line":
        w.write_wrapped_docstring_line(p, t, width=width)
    elif op == "write_function_signature":
        w.write_function_signature(t, a, return_type=(p or None), async_=bool(k))
    elif op == "get_code":
        return enc(w.get_code())
    elif op == "append":
        lw.append(t)
    elif op == "newline":
        lw.newline()
    elif op == "move_to_column":
        lw.move_to_column(k)
    elif op == "replace_current_line":
        lw.replace_current_line(t)
    elif op == "append_wrapped":
        lw.append_wrapped(t)
    elif op == "wrap_and_append":
        lw.wrap_and_append(t, width, prefix=p)
    elif op == "append_wrapped_at_column":
        lw.append_wrapped_at_column(t, width, None if k < 0 else k)
    elif op == "getvalue":
        return enc(lw.getvalue())
    elif op == "current_line":
        return enc(lw.current_line())
    elif op == "current_width":
        return str(lw.current_width())
    else:
        raise KeyError(op)
    return ""


def step(w, c: dict) -> tuple[str, str]:  # noqa: ANN001
    signal.setitimer(signal.ITIMER_REAL, 5.0)
    try:
        return apply(w, c), "none"
    except KeyError:
        raise
    except Exception as e:  # noqa: BLE001
        return "", type(e).__name__
    finally:
        signal.setitimer(signal.ITIMER_REAL, 0)


def run_edges(job: dict) -> dict:
    out = []
    for rec in job["recs"]:
        # LineWriter methods are driven on a LineWriter of its own, CodeWriter methods on a CodeWriter;
        # indent / dedent exist on both: both are driven and must agree
        op = rec["c"]["op"]
        w = build(rec["s"], bare=op not in CODE_ONLY)
        ret, exc = step(w, rec["c"])
        if op in ("indent", "dedent") and exc == "none":
            w2 = build(rec["s"])
            ret2, exc2 = step(w2, rec["c"])
            if exc2 != "none" or project(w2) != project(w):
                w, ret, exc = w2, ret2, exc2
        out.append({"id": rec["id"], "kind": "step", "s": rec["s"], "c": rec["c"], "r": project(w), "ret": ret, "exc": exc})
    return {"id": job["id"], "out": out}


NOISE = [
    {"op": "indent", "t": "", "p": "", "w": 0, "k": 0, "a": []},
    {"op": "write_line", "t": "noise", "p": "", "w": 0, "k": 0, "a": []},
    {"op": "write_wrapped_line", "t": "nn oo ii ss ee", "p": "", "w": 7, "k": 0, "a": []},
    {"op": "append", "t": "tail", "p": "", "w": 0, "k": 0, "a": []},
]


def run_paths(job: dict) -> dict:
    out = []
    for path in job["paths"]:
        w = CodeWriter(max_width=path["mw"])
        fresh = project(w)
        if len(fresh["lines"]) > 50:  # (a runaway buffer: keep the report small)
            fresh["lines"] = fresh["lines"][:50]
        out.append({"id": f"{path['id']}.new", "kind": "fresh", "s": fresh, "mw": path["mw"]})
        if fresh != {"level": 0, "lines": [""], "jn": True, "mw": path["mw"]}:
            continue  # not a new writer: the "fresh" record reports it, replaying the calls would say nothing
        for i, c in enumerate(path["calls"]):
            pre = project(w)
            if len(pre["lines"]) > 500:
                break
            ret, exc = step(w, c)
            out.append({"id": f"{path['id']}.{i}", "kind": "step", "s": pre, "c": c, "r": project(w), "ret": ret, "exc": exc})
        before = (project(w), w.get_code())
        # purity: a second instance, used while a third one is being used for something else
        b, other = CodeWriter(max_width=path["mw"]), CodeWriter(max_width=path["mw"])
        for i, c in enumerate(path["calls"]):
            step(other, NOISE[i % len(NOISE)])
            step(b, c)
            step(other, NOISE[(i + 1) % len(NOISE)])
        same = project(b) == project(w) and b.get_code() == w.get_code() and b.writer.getvalue() == w.writer.getvalue()
        same = same and before == (project(w), w.get_code())  # ... and using other instances did not touch this one
        # ... and the text is a function of the state the calls built, not of when it is asked for
        again = w.get_code() == w.get_code() and project(w) == project(w)
        out.append({"id": f"{path['id']}.pure", "kind": "pure", "same": bool(same and again), "calls": len(path["calls"])})
    return {"id": job["id"], "out": out}


def main() -> None:
    for job in json.load(sys.stdin):
        res = run_edges(job) if job["kind"] == "edges" else run_paths(job)
        print(json.dumps(res), flush=True)


if __name__ == "__main__":
    main()
