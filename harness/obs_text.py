"""Observer for C15: AST skeleton (identifiers, constants and docstrings erased) and the set of string constants of
every emitted non-core file."""

from __future__ import annotations

import ast
import hashlib
from pathlib import Path
from typing import Any

from harness.w_obs import pkg_dir, register


def skeleton(tree: ast.AST) -> str:
    def walk(n: ast.AST) -> Any:
        if isinstance(n, ast.Constant):
            return "K"
        if isinstance(n, ast.JoinedStr):
            return ("F", len([v for v in n.values if isinstance(v, ast.FormattedValue)]))
        kids = []
        for name, val in ast.iter_fields(n):
            if isinstance(val, ast.AST):
                kids.append(walk(val))
            elif isinstance(val, list):
                kids.append([walk(v) if isinstance(v, ast.AST) else "_" for v in val])
        # a docstring statement is an Expr(Constant): keep its presence, not its text
        return (type(n).__name__, kids)

    return hashlib.sha256(repr(walk(tree)).encode()).hexdigest()[:16]


@register("textfacts")
def obs_textfacts(job: dict) -> Any:
    d = pkg_dir(job["root"], job["pkg"])
    files = {}
    consts: set[str] = set()
    for p in sorted(d.rglob("*.py")):
        rel = str(p.relative_to(d))
        if rel.startswith("core/"):
            continue
        try:
            tree = ast.parse(p.read_text())
        except SyntaxError as e:
            files[rel] = "SYNTAXERROR:" + (e.msg or "")[:60]
            continue
        except ValueError as e:  # e.g. null bytes
            files[rel] = "SYNTAXERROR:" + str(e)[:60]
            continue
        files[rel] = skeleton(tree)
        for n in ast.walk(tree):
            if isinstance(n, ast.Constant) and isinstance(n.value, str):
                consts.add(n.value)
    want = job.get("needle")
    return {"files": files, "has_needle": (want in consts) if want is not None else None, "near": sorted(c for c in consts if want and (want.strip() and want.strip()[:1] in c) and len(c) <= len(want) + 4)[:5] if want else []}
