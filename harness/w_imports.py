"""Worker of X03: drives the REAL RenderContext / ImportCollector with the scenarios printed by Gen_Imports.

Job  {"id", "scen": {out, kind, api, where, cur, curpkg, mat, calls:[{op, mod, name, level, ids, quals, text}], render},
      "tree": {out, kind, core, mods:[{path:[...], pkg:bool}]}, "sample": bool}
Result {"id", "stmts": [{kind, level, tail, names, grp, cond}], "rec": {abs, rel, plain, cond}, "text", "same": bool,
        "syntax_ok": bool, "py": null | {"outcomes": [...], "binds": {name: dotted module}, "unbound": {text: [names]}, "whole": str}}

* the tree is materialised under the worker's scratch directory when scen["mat"] (the code looks at the file system:
  os.path.isdir / isfile in calculate_relative_path_for_internal_module), otherwise only the project root exists;
* the rendered block is parsed with Python's own parser (ast): dots -> level, dotted tail, imported names, the index of
  the blank-line separated block, the `if <cond>:` it sits under;
* "same": the same calls made in REVERSE order on a fresh context render the same text;
* sample: the tree is written out with stub modules (every module answers every attribute with a class that knows where
  it came from) and every rendered statement is executed, at the top of the real current module, by the real importer.
"""

from __future__ import annotations

import ast
import importlib
import json
import os
import sys
from pathlib import Path

from harness import core

core.install_tree_under_test()
sys.dont_write_bytecode = True

from pyopenapi_gen import IRSchema  # noqa: E402
from pyopenapi_gen.context.import_collector import ImportCollector  # noqa: E402
from pyopenapi_gen.context.render_context import RenderContext  # noqa: E402

WORK = Path(os.getcwd()) / f"x03w_{os.getpid()}"
_made: set[str] = set()

STUB = """_SUBS = {subs!r}
def __getattr__(name):
    if name.startswith("__") or name in _SUBS:
        raise AttributeError(name)
    return type(name, (), {{"__x03__": (__name__, name)}})
"""


def dotted(p: list[str]) -> str:
    return ".".join(p)


def file_of(root: Path, path: list[str], pkg: bool) -> Path:
    return root.joinpath(*path, "__init__.py") if pkg else root.joinpath(*path[:-1], path[-1] + ".py")


def stub_text(tree: dict, path: list[str]) -> str:
    subs = sorted({m["path"][-1] for m in tree["mods"] if m["path"][:-1] == path})
    return STUB.format(subs=subs)


def tree_root(tree: dict, mat: bool) -> Path:
    key = f"{dotted(tree['out'])}-{tree['kind']}-{'mat' if mat else 'nomat'}"
    root = WORK / key
    if key not in _made:
        root.mkdir(parents=True, exist_ok=True)
        if mat:
            for m in sorted(tree["mods"], key=lambda m: (len(m["path"]), m["path"])):
                f = file_of(root, m["path"], m["pkg"])
                f.parent.mkdir(parents=True, exist_ok=True)
                f.write_text(stub_text(tree, m["path"]))
        _made.add(key)
    return root


def schemas() -> dict:
    out = {}
    for name, stem in (("Pet", "pet"), ("Owner", "owner")):
        s = IRSchema(name=name, type="object")
        s.generation_name = name
        s.final_module_stem = stem
        out[name] = s
    return out


def rel_string(level: int, tail: list[str]) -> str:
    return "." * level + dotted(tail)


def drive(scen: dict, tree: dict, root: Path, calls: list[dict]):
    """Make the calls on a fresh object; returns (collector, rendered text)."""
    cur_file = file_of(root, scen["cur"], scen["curpkg"])
    if scen["api"] == "context":
        if scen["where"] == "client":
            ctx = RenderContext(
                core_package_name=dotted(tree["core"]),
                package_root_for_generated_code=str(root.joinpath(*scen["out"])),
                overall_project_root=str(root),
                parsed_schemas=schemas(),
                output_package_name=dotted(scen["out"]),
            )
        else:  # the way ExceptionsEmitter builds its context for <core>/exception_aliases.py
            ctx = RenderContext(
                package_root_for_generated_code=str(root.joinpath(*tree["core"])),
                core_package_name=dotted(tree["core"]),
                overall_project_root=str(root),
            )
        ctx.set_current_file(str(cur_file))
        col = ctx.import_collector
    else:
        ctx = None
        col = ImportCollector()
        col.set_current_file_context_for_rendering(dotted(scen["cur"]), dotted(scen["out"]), dotted(tree["core"]))
    for c in calls:
        op = c["op"]
        if op == "ctx_import":
            ctx.add_import(dotted(c["mod"]), c["name"] or None)
        elif op == "ctx_core_path":
            where = ctx.get_core_import_path(dotted(c["mod"]))
            if where.startswith("."):
                col.add_relative_import(where, c["name"])
            else:
                col.add_import(where, c["name"])
        elif op == "ctx_plain":
            ctx.add_plain_import(dotted(c["mod"]))
        elif op == "ctx_type":
            ctx.add_typing_imports_for_type(c["text"])
        elif op == "ctx_cond":
            ctx.add_conditional_import(c["text"], dotted(c["mod"]), c["name"])
        elif op == "col_import":
            col.add_import(dotted(c["mod"]), c["name"])
        elif op == "col_relative":
            col.add_relative_import(rel_string(c["level"], c["mod"]), c["name"])
        elif op == "col_typing":
            col.add_typing_import(c["name"])
        elif op == "col_plain":
            col.add_plain_import(dotted(c["mod"]))
        else:
            raise ValueError(op)
    rec = {
        "abs": sorted([m.split("."), n] for m, ns in col.imports.items() for n in ns),
        "rel": sorted([len(m) - len(m.lstrip(".")), [x for x in m.lstrip(".").split(".") if x], n] for m, ns in col.relative_imports.items() for n in ns),
        "plain": sorted(m.split(".") for m in col.plain_imports),
        "cond": sorted([c, m.split("."), n] for c, d in (ctx.conditional_imports.items() if ctx else ()) for m, ns in d.items() for n in ns),
    }
    r = scen["render"]
    if r == "render_imports":
        text = ctx.render_imports()
    elif r == "get_formatted_imports":
        text = col.get_formatted_imports()
    else:
        text = "\n".join(col.get_import_statements())
    return rec, text


def parse_block(text: str):
    """Python's own reading of the block.  Returns (statements, syntax_ok).  A block that does not compile only because a
    `from __future__` import is misplaced is still parsed (ast.parse accepts it; compile() does not)."""
    mod = ast.parse(text)
    lines = text.split("\n")
    blank_before = [0] * (len(lines) + 2)
    n = 0
    for i, ln in enumerate(lines, start=1):
        if not ln.strip():
            n += 1
        blank_before[i] = n
    out = []

    def one(node, cond):
        g = blank_before[node.lineno] + 1
        if isinstance(node, ast.ImportFrom):
            out.append({"kind": "from", "level": node.level, "tail": node.module.split(".") if node.module else [], "names": [a.name for a in node.names], "grp": g, "cond": cond, "src": ast.get_source_segment(text, node)})
            if any(a.asname for a in node.names):
                raise ValueError("alias in rendered import")
        elif isinstance(node, ast.Import):
            for a in node.names:
                if a.asname:
                    raise ValueError("alias in rendered import")
                out.append({"kind": "import", "level": 0, "tail": a.name.split("."), "names": [], "grp": g, "cond": cond, "src": f"import {a.name}"})
        else:
            raise ValueError(f"unexpected statement in import block: {ast.dump(node)[:80]}")

    for node in mod.body:
        if isinstance(node, ast.If):
            if node.orelse:
                raise ValueError("else in import block")
            cond = ast.unparse(node.test)
            for sub in node.body:
                one(sub, cond)
        else:
            one(node, "")
    try:
        compile(text, "<block>", "exec")
        ok = True
    except SyntaxError:
        ok = False
    return out, ok


def purge(tops: set[str]) -> None:
    for k in [k for k in sys.modules if k.split(".")[0] in tops]:
        del sys.modules[k]
    importlib.invalidate_caches()


def execute(scen: dict, tree: dict, stmts: list[dict], text: str) -> dict:
    """The ultimate oracle: Python's importer on a real tree."""
    root = tree_root(tree, True)
    cur_file = file_of(root, scen["cur"], scen["curpkg"])
    tops = {m["path"][0] for m in tree["mods"]}
    body = ["__x03_out = []", "def __x03_cls(e):", "    m = str(e)",
            "    if 'beyond top-level package' in m: return 'beyond'",
            "    if isinstance(e, ModuleNotFoundError): return 'notfound'",
            "    if 'partially initialized module' in m: return 'self'",
            "    return 'other:' + type(e).__name__ + ':' + m[:80]"]
    for i, s in enumerate(stmts):
        if s["cond"]:
            body.append("__x03_out.append('skipped')")
        elif s["kind"] == "from" and s["level"] == 0 and s["tail"] == ["__future__"]:
            body.append("__x03_out.append('ok')")  # judged through syntax_ok
        else:
            body += ["try:", f"    {s['src']}", "    __x03_out.append('ok')", "except BaseException as __e:", "    __x03_out.append(__x03_cls(__e))"]
    body.append(stub_text(tree, scen["cur"]))
    saved = cur_file.read_text()
    types = [c["text"] for c in scen["calls"] if c["op"] == "ctx_type"]
    res: dict = {}
    try:
        cur_file.write_text("\n".join(body) + "\n")
        purge(tops)
        sys.path.insert(0, str(root))
        try:
            m = importlib.import_module(dotted(scen["cur"]))
            res["outcomes"] = list(m.__x03_out)
            binds = {}
            for s, oc in zip(stmts, res["outcomes"]):
                if s["kind"] != "from" or oc != "ok" or s["cond"] or s["tail"] == ["__future__"]:
                    continue
                for n in s["names"]:
                    v = m.__dict__.get(n)
                    tag = getattr(v, "__x03__", None)
                    if tag is not None:
                        binds[n] = tag[0]
                    elif isinstance(v, type(sys)):
                        binds[n] = v.__name__.rsplit(".", 1)[0]
                    else:
                        owners = [dotted(s2["tail"]) for s2 in stmts if s2["kind"] == "from" and s2["level"] == 0 and n in s2["names"] and dotted(s2["tail"]) in sys.modules and getattr(sys.modules[dotted(s2["tail"])], n, None) is v]
                        binds[n] = owners[-1] if owners else "?"
            res["binds"] = binds
            unbound = {}
            for t in types:
                ns = dict(m.__dict__)
                miss = []
                for _ in range(12):
                    try:
                        eval(t, ns)
                        break
                    except NameError as e:
                        nm = e.name
                        miss.append(nm)
                        ns[nm] = type(nm, (), {"__class_getitem__": classmethod(lambda cls, k: cls)})
                    except Exception as e:  # a stub in a subscript etc.: not a name problem
                        break
                unbound[t] = sorted(miss)
            res["unbound"] = unbound
        finally:
            sys.path.remove(str(root))
            purge(tops)
        # the block as a whole, as the body of the module (covers the `if TYPE_CHECKING:` part and __future__)
        try:
            cur_file.write_text(text + "\n" + stub_text(tree, scen["cur"]))
            sys.path.insert(0, str(root))
            try:
                importlib.import_module(dotted(scen["cur"]))
                res["whole"] = "ok"
            except SyntaxError:
                res["whole"] = "syntax"
            except ImportError as e:
                res["whole"] = "import_error"
            except NameError as e:
                res["whole"] = "name_error:" + str(e.name)
            finally:
                sys.path.remove(str(root))
                purge(tops)
        finally:
            pass
    finally:
        cur_file.write_text(saved)
    return res


def run_job(job: dict) -> dict:
    scen, tree = job["scen"], job["tree"]
    root = tree_root(tree, scen["mat"])
    rec, text = drive(scen, tree, root, scen["calls"])
    _, text2 = drive(scen, tree, root, list(reversed(scen["calls"])))
    stmts, ok = parse_block(text)
    out = {"id": job["id"], "stmts": [{k: v for k, v in s.items() if k != "src"} for s in stmts], "rec": rec, "text": text, "same": text == text2, "syntax_ok": ok, "py": None}
    if job.get("sample"):
        out["py"] = execute(scen, tree, stmts, text)
    return out


def main() -> None:
    for job in json.load(sys.stdin):
        print(json.dumps(run_job(job)), flush=True)


if __name__ == "__main__":
    main()
