"""C16 - the bundled converter obeys round-trip laws for any mapped dataclass; DataclassSerializer terminates on
cyclic instance graphs and returns JSON-serialisable data without null-valued keys.

(A) design: MC_Codec (hook registry, every interleaving of <=4 calls over types sharing a nested class:
    HistoryIndependent, LawsInEveryState; the defective "top class only" design must be refuted) and the Laws
    invariant of Gen_Codec (reference codec obeys DecEnc / EncDec / MutantsRejected on every generated type tree);
(B) TLC generates: type trees x instances x non-conforming mutants (Gen_Codec), call histories (MC_Codec),
    instance graphs for the serialiser (Gen_CodecGraphs);
(C) harness/w_codec.py drives the real converter / serialiser (classes via make_dataclass + Meta, histories and
    graphs in forked fresh interpreter states), Trace_Codec (TLC) judges every recorded trace.
"""

from __future__ import annotations

import json
import threading
from typing import Any, Callable

from . import core
from .core import Check, run_tlc, tla

LEVEL = "model_checking"

ALL_LEAFS = ["str", "int", "float", "bool", "bytes", "date", "datetime"]


# ---------------------------------------------------------------------------------------------
# concurrency helper: several TLC runs at once, each with its own scratch numbering


def sub_scratch(chk: Check, tag: str) -> core.Scratch:
    s = core.Scratch.__new__(core.Scratch)
    s.path = chk.scratch.path / f"par_{tag}"
    s.path.mkdir(parents=True, exist_ok=True)
    s._n = 0
    return s


def in_parallel(tasks: dict[str, Callable[[], Any]]) -> dict[str, Any]:
    out: dict[str, Any] = {}
    err: dict[str, BaseException] = {}

    def work(k: str, fn: Callable[[], Any]) -> None:
        try:
            out[k] = fn()
        except BaseException as e:  # noqa: BLE001
            err[k] = e

    th = [threading.Thread(target=work, args=(k, fn)) for k, fn in tasks.items()]
    for t in th:
        t.start()
    for t in th:
        t.join()
    if err:
        k = sorted(err)[0]
        if isinstance(err[k], core.MachineryError):
            raise err[k]
        raise core.MachineryError(f"task {k} failed: {type(err[k]).__name__}: {err[k]}")
    return out


# ---------------------------------------------------------------------------------------------
# TLC runs


def cfg_mc(dstyle: str, astyle: str, maxlen: int, design: str, extra: list[str], invariants: list[str]) -> str:
    inv = "\n".join(f"INVARIANT {i}" for i in invariants)
    return f"""SPECIFICATION Spec
CONSTANTS
 DStyle = {tla(dstyle)}
 AStyle = {tla(astyle)}
 MaxLen = {maxlen}
 Design = {tla(design)}
 Extra = {tla(set(extra))}
{inv}
PROPERTY PropHooksOnlyGrow
CHECK_DEADLOCK FALSE
"""


def cfg_gen(fam: str, wraps: int, pair_leafs: list[str], astyles: list[str], pstyles: list[str], cyc: tuple, hier: tuple) -> str:
    return f"""SPECIFICATION Spec
CONSTANTS
 LeafSet = {tla(set(ALL_LEAFS))}
 Wraps = {wraps}
 AStyles = {tla(set(astyles))}
 DStyles = {tla({"camel", "kw", "plain"})}
 PairStyles = {tla(set(pstyles))}
 PairLeafs = {tla(set(pair_leafs))}
 CycleKinds = {tla(set(cyc[0]))}
 Cycle3Kinds = {tla(set(cyc[1]))}
 CycleStyles = {tla(set(cyc[2]))}
 CycleMixed = {tla(cyc[3])}
 HierStyles = {tla(set(hier[0]))}
 HierMetas = {tla({"inherit", "extend", "own"})}
 HierOverrides = {tla(set(hier[1]))}
 HierDepths = {tla({2, 3})}
 HierMixins = {tla(set(hier[2]))}
 HierTops = {tla({"sub", "base_then_sub", "sub_then_base"})}
 Wheres = {tla({"module", "nested", "local"})}
 Families = {tla({fam})}
INVARIANT Laws
CHECK_DEADLOCK FALSE
"""


def cfg_graphs(minn: int, maxn: int, maxe: int, kinds: list[str], roots: list[str]) -> str:
    return f"""SPECIFICATION Spec
CONSTANTS
 MinNodes = {minn}
 MaxNodes = {maxn}
 MaxEdges = {maxe}
 Kinds = {tla(set(kinds))}
 RootModes = {tla(set(roots))}
INVARIANT GraphLaws
CHECK_DEADLOCK FALSE
"""


def canon(x: Any) -> str:
    return json.dumps(x, sort_keys=True)


def generate(chk: Check) -> dict[str, Any]:
    thorough = chk.tier == "thorough"
    mc_fams = [
        ("kw", "camel", 4, []),
        ("camel", "kw", 3, ["list", "bad", "twin"]),
        ("camel", "kw", 3, ["hier", "nobase"]),
    ]
    if thorough:
        mc_fams = [
            ("kw", "camel", 4, ["list", "bad", "second"]),
            ("camel", "kw", 4, ["list", "bad", "twin"]),
            ("swap", "swap", 4, ["twin"]),
            ("camel", "kw", 4, ["hier", "nobase"]),
            ("kw", "camel", 3, ["hier"]),
            ("plain", "fold", 3, ["list", "bad", "second"]),
        ]
    six = ["nf", "nr", "kf", "kr", "mr", "av"]
    nest = ["ll", "llr", "dl", "ldl", "tu", "nf"]  # container nesting between two instances
    graph_fams = [(1, 2, 2, six, ["node", "list"]), (1, 3, 3, ["nf", "nr", "kf"], ["node"]), (1, 2, 2, nest, ["node"])]
    if thorough:
        graph_fams = [(1, 3, 3, six, ["node", "list"]), (3, 3, 4, ["nf", "nr", "kf"], ["node"]), (1, 3, 3, nest, ["node", "list"])]
    tasks: dict[str, Callable[[], Any]] = {}
    for i, (ds, as_, ml, extra) in enumerate(mc_fams):
        tasks[f"mc{i}"] = lambda ds=ds, as_=as_, ml=ml, extra=extra, i=i: run_tlc(
            sub_scratch(chk, f"mc{i}"),
            "MC_Codec",
            cfg_mc(ds, as_, ml, "ok", extra, ["InvHistoryIndependent", "LawsInEveryState"]),
            workers=4,
            # no -coverage: TLC's coverage mode (cost-model construction) runs out of memory on Codec.tla since the
            # class table became hierarchical (Fs/FsRec reachable from every recursive operator); vacuity is
            # established from what the run emitted (both call kinds occur in the histories, state counts)
            coverage=False,
            heap="3g",
        )
    # the defective designs (hooks for the top class only; structure function cached under the class NAME) must be
    # refuted, otherwise the invariant is toothless
    refute = {"top_only": [], "by_name": ["twin"]}
    for design, extra in refute.items():
        tasks[f"mc_refute_{design}"] = lambda design=design, extra=extra: run_tlc(
            sub_scratch(chk, f"mcref_{design}"),
            "MC_Codec",
            cfg_mc("kw", "camel", 2, design, extra, ["InvHistoryIndependent"]),
            workers=2,
            allow_violation=True,
            heap="2g",
        )
    wraps = 3 if thorough else 2
    pl = ["int", "str", "datetime", "bool"] if thorough else ["int"]
    gen_runs = [("single", [a], ["plain"]) for a in ("plain", "camel", "kw")] + [
        ("pair", ["plain"], ps) for ps in (["plain", "camel", "kw"], ["fold", "swap"], ["diff", "ident"])
    ]
    gen_runs.append(("cycle", ["plain"], ["plain"]))
    gen_runs.append(("hier", ["plain"], ["plain"]))
    gen_runs.append(("where", ["plain"], ["plain"]))
    hier = (["camel", "kw"], ["none", "type"], [False])
    if thorough:
        hier = (["camel", "kw", "plain"], ["none", "type", "default"], [False, True])
    cyc = (["list", "dict", "direct", "opt"], ["list", "direct"], ["camel", "kw"], True)
    if thorough:
        cyc = (["list", "dict", "direct", "opt"], ["list", "dict", "direct", "opt"], ["camel", "kw", "plain"], False)
    for i, (fam, ast, pst) in enumerate(gen_runs):
        tasks[f"gen{i}"] = lambda fam=fam, ast=ast, pst=pst, i=i: run_tlc(
            sub_scratch(chk, f"gen{i}"), "Gen_Codec", cfg_gen(fam, wraps, pl, ast, pst, cyc, hier), workers=2, timeout=1500, heap="3g"
        )
    for i, gf in enumerate(graph_fams):
        tasks[f"graphs{i}"] = lambda gf=gf, i=i: run_tlc(sub_scratch(chk, f"gr{i}"), "Gen_CodecGraphs", cfg_graphs(*gf), workers=4, timeout=1500, heap="3g")
    res = in_parallel(tasks)

    out: dict[str, Any] = {"hist": [], "scen": [], "graphs": []}
    for i, fam in enumerate(mc_fams):
        r = res[f"mc{i}"]
        tagname = f"MC_Codec[D={fam[0]},A={fam[1]},len<={fam[2]},{'+'.join(fam[3]) or 'base'}]"
        chk.add_tlc(tagname, r)
        chk.require(r.ok, f"design model {tagname} violates {r.violated}")
        ncalls = len((r.printed.get("SCEN") or [{}])[0].get("calls", []))
        chk.require(ncalls > 0 and r.distinct > ncalls, f"vacuous design run {tagname}")
        scen = r.printed.get("SCEN", [])
        hs = r.printed.get("HIST", [])
        chk.require(len(scen) == 1 and len(hs) > 0, f"{tagname}: no histories emitted")
        hs.sort(key=lambda h: h["h"])
        ops = {c["id"]: c["op"] for c in scen[0]["calls"]}
        for op in ("S", "U"):
            chk.require(any(ops[i] == op for h in hs for i in h["h"]), f"vacuous design run {tagname}: no {op} call in any history")
        out["hist"].append({"tag": tagname, "classes": scen[0]["classes"], "calls": scen[0]["calls"], "hists": hs})
    for design in refute:
        r = res[f"mc_refute_{design}"]
        chk.add_tlc(f"MC_Codec[Design={design}, must be refuted]", r)
        chk.require("InvHistoryIndependent" in r.violated, f"the defective design {design} was NOT refuted: HistoryIndependent is toothless")
    chk.cov["defective_design_refuted"] = True
    for i, (fam, ast, pst) in enumerate(gen_runs):
        r = res[f"gen{i}"]
        lab = f"Gen_Codec[{fam},{'+'.join(ast if fam == 'single' else pst if fam == 'pair' else cyc[2] if fam == 'cycle' else hier[0] if fam == 'hier' else ['module', 'nested', 'local'])},wraps<={wraps}] (Laws)"
        chk.add_tlc(lab, r)
        chk.require(r.ok, f"reference codec violates Laws in {lab}")
        sc = r.printed.get("SCEN", [])
        chk.require(len(sc) > 0, f"{lab} produced no scenario")
        out["scen"] += sc
    out["scen"].sort(key=canon)
    for i, gf in enumerate(graph_fams):
        r = res[f"graphs{i}"]
        chk.add_tlc(f"Gen_CodecGraphs[{gf[0]}..{gf[1]} nodes,<={gf[2]} edges,{len(gf[3])} kinds]", r)
        chk.require(r.ok, "graph vocabulary violates GraphLaws")
        out["graphs"] += r.printed.get("GRAPH", [])
    seen = set()
    gs = []
    for g in sorted(out["graphs"], key=canon):
        k = canon([g["n"], g["root"], sorted(canon(e) for e in g["edges"])])
        if k not in seen:
            seen.add(k)
            gs.append(g)
    chk.require(len(gs) > 0, "no instance graphs generated")
    for i, g in enumerate(gs):
        g["gid"] = i
    out["graphs"] = gs
    return out


# ---------------------------------------------------------------------------------------------
# driving the real code


def cyclic_table(table: dict) -> bool:
    def refs(ty: dict) -> set:
        return {ty["name"]} if ty["k"] == "cls" else set() if ty["k"] == "leaf" else refs(ty["of"])

    edges = {n: set().union(*[refs(f["ty"]) for f in c["fields"]]) if c["fields"] else set() for n, c in table.items()}
    for n in table:
        seen, todo = set(), list(edges[n])
        while todo:
            m = todo.pop()
            if m == n:
                return True
            if m not in seen:
                seen.add(m)
                todo += list(edges.get(m, ()))
    return False


def drive_rt(chk: Check, scen: list[dict]) -> list[dict]:
    # class tables whose class graph is cyclic: every instance is decoded first in a fresh converter state
    jobs = [
        {"id": f"rt{i}", "kind": "rt", "classes": s["classes"], "top": s["top"], "inst": s["inst"], "bad": s["bad"], "fresh_each": bool(s["cyclic"]) if "cyclic" in s else cyclic_table(s["classes"])}
        for i, s in enumerate(scen)
    ]
    res = core.parallel_py(chk.scratch, "harness.w_codec", jobs)
    return [{"id": j["id"], "kind": "rt", "classes": j["classes"], "top": j["top"], "ev": r["ev"]} for j, r in zip(jobs, res)]


def drive_hist(chk: Check, fams: list[dict]) -> list[dict]:
    traces = []
    jobs = []
    for fi, fam in enumerate(fams):
        base_job = {"id": f"hb{fi}", "kind": "hist", "classes": fam["classes"], "calls": fam["calls"], "hists": [[c["id"]] for c in fam["calls"]]}
        jobs.append(base_job)
        hs = [h["h"] for h in fam["hists"]]
        step = max(1, (len(hs) + 31) // 32)
        for k in range(0, len(hs), step):
            jobs.append({"id": f"h{fi}_{k}", "kind": "hist", "classes": fam["classes"], "calls": fam["calls"], "hists": hs[k : k + step], "fam": fi})
    res = {r["id"]: r for r in core.parallel_py(chk.scratch, "harness.w_codec", jobs)}
    for fi, fam in enumerate(fams):
        base = {c["id"]: r[0] for c, r in zip(fam["calls"], res[f"hb{fi}"]["res"])}
        for j in jobs:
            if j.get("fam") != fi:
                continue
            for h, r in zip(j["hists"], res[j["id"]]["res"]):
                traces.append(
                    {
                        "id": f"hist{fi}_" + "-".join(map(str, h)),
                        "kind": "hist",
                        "classes": fam["classes"],
                        "calls": fam["calls"],
                        "h": h,
                        "res": r,
                        "base": [base[c] for c in h],
                    }
                )
    return traces


def drive_ser(chk: Check, graphs: list[dict]) -> list[dict]:
    def jobs_for(gs: list[dict], limit: int, tagname: str) -> list[dict]:
        step = max(1, (len(gs) + 63) // 64)
        return [{"id": f"{tagname}{k}", "kind": "ser", "graphs": gs[k : k + step], "timeout": 30, "reclimit": limit} for k in range(0, len(gs), step)]

    def plain(g: dict) -> dict:
        return {"gid": g["gid"], "n": g["n"], "root": g["root"], "edges": g["edges"]}

    gs = [plain(g) for g in graphs]
    by = {g["gid"]: g for g in graphs}
    # first pass with a low recursion limit (a diverging serialisation compiles a new cattrs function per level:
    # ~150 ms at the default limit); every divergence the specification does not predict, and a sample of the
    # predicted ones, is confirmed at the interpreter's default limit before it is recorded
    first = {}
    for r in core.parallel_py(chk.scratch, "harness.w_codec", jobs_for(gs, 220, "s")):
        for o in r["out"]:
            first[o["gid"]] = o
    div = [gid for gid, o in first.items() if o["res"].get("t") == "exc" and o["res"]["exc"] in ("RecursionError", "Timeout", "Crashed")]
    unpredicted = [gid for gid in div if not by[gid]["rescycle"]]
    predicted = sorted(gid for gid in div if by[gid]["rescycle"])
    confirm = sorted(unpredicted) + predicted[:: max(1, len(predicted) // 24)]
    if confirm:
        for r in core.parallel_py(chk.scratch, "harness.w_codec", jobs_for([plain(by[g]) for g in confirm], 1000, "c")):
            for o in r["out"]:
                first[o["gid"]] = o
    chk.cov["ser_confirmed_at_default_limit"] = len(confirm)
    traces = []
    ordered = [first[g["gid"]] for g in graphs]
    step = 60
    for k in range(0, len(ordered), step):
        ev = [{"g": {"n": by[o["gid"]]["n"], "root": by[o["gid"]]["root"], "edges": by[o["gid"]]["edges"]}, "gid": o["gid"], "res": o["res"], "json": o["json"]} for o in ordered[k : k + step]]
        traces.append({"id": f"ser{k}", "kind": "ser", "ev": ev})
    return traces


# ---------------------------------------------------------------------------------------------
# judging


def monitor(chk: Check, traces: list[dict], label: str, scratch: core.Scratch) -> list[dict]:
    d = scratch.sub("traces")
    tf = d / "traces.ndjson"
    with tf.open("w") as f:
        for t in traces:
            f.write(json.dumps(t) + "\n")
    r = run_tlc(scratch, "Trace_Codec", "SPECIFICATION Spec\nCHECK_DEADLOCK FALSE\n", workers=4, env={"TRACE_FILE": str(tf)}, coverage=False, timeout=1500, heap="4g")
    vs = r.printed.get("VERDICT", [])
    if len(vs) != len(traces):
        raise core.MachineryError(f"monitor[{label}] produced {len(vs)} verdicts for {len(traces)} traces")
    return [r, vs]


def _first_leaf(tree: Any) -> dict | None:
    """first leaf node ({"t": s|i|f|b, "v": ...}) of a tagged tree, depth first"""
    if isinstance(tree, dict):
        if tree.get("t") in ("s", "i", "f", "b") and "v" in tree:
            return tree
        for v in tree.values():
            r = _first_leaf(v)
            if r is not None:
                return r
    elif isinstance(tree, list):
        for v in tree:
            r = _first_leaf(v)
            if r is not None:
                return r
    return None


def negative_controls(traces: list[dict]) -> list[tuple[dict, str]]:
    """Recorded traces with ONE observation corrupted; the monitor must reject each with the named clause
    (otherwise the run is a machinery failure: a monitor that accepts these would accept anything)."""
    cp = lambda x: json.loads(json.dumps(x))  # noqa: E731
    out: list[tuple[dict, str]] = []
    rt = next((t for t in traces if t["kind"] == "rt" and any(e["k"] == "rt" and e["out"].get("t") == "o" and _first_leaf(e["out"]) for e in t["ev"])), None)
    if rt is not None:
        i = next(i for i, e in enumerate(rt["ev"]) if e["k"] == "rt" and e["out"].get("t") == "o" and _first_leaf(e["out"]))
        t = cp(rt)
        t["ev"] = [t["ev"][i]]
        t["id"] = "NEG/dec_enc"
        _first_leaf(t["ev"][0]["out"])["v"] = "corrupted"
        out.append((t, "C16.dec_enc"))
        t = cp(rt)
        t["ev"] = [t["ev"][i]]
        t["id"] = "NEG/enc_dec"
        t["ev"][0]["v2"] = {"t": "none"}
        out.append((t, "C16.enc_dec"))
        t = cp(rt)
        t["ev"] = [t["ev"][i]]
        t["id"] = "NEG/null_key"
        t["ev"][0]["ser"] = {"t": "o", "f": {"zz": {"t": "n"}}}
        out.append((t, "C16.serializer_null_key"))
    bad = next((t for t in traces if t["kind"] == "rt" and any(e["k"] == "bad" and e["res"]["t"] == "exc" and e["res"]["isvalue"] and any(s["kind"] == "field" for s in e["steps"]) for e in t["ev"])), None)
    if bad is not None:
        i = next(i for i, e in enumerate(bad["ev"]) if e["k"] == "bad" and e["res"]["t"] == "exc" and e["res"]["isvalue"] and any(s["kind"] == "field" for s in e["steps"]))
        for ident, clause in (("error_not_raised", "C16.error_not_raised"), ("error_type", "C16.error_type"), ("error_no_field", "C16.error_no_field")):
            t = cp(bad)
            t["ev"] = [t["ev"][i]]
            t["id"] = f"NEG/{ident}"
            if ident == "error_not_raised":
                t["ev"][0]["res"] = {"t": "ok", "val": {"t": "none"}}
            elif ident == "error_type":
                t["ev"][0]["res"]["isvalue"] = False
                t["ev"][0]["res"]["exc"] = "TypeError"
            else:
                t["ev"][0]["res"]["words"] = ["Failed", "to", "convert"]
            out.append((t, clause))
    hi = next((t for t in traces if t["kind"] == "hist" and len(t["h"]) >= 2), None)
    if hi is not None:
        t = cp(hi)
        t["id"] = "NEG/history"
        t["res"][-1] = {"t": "exc", "exc": "ValueError", "isvalue": True, "msg": "corrupted", "words": []}
        out.append((t, "C16.history_dependent"))
    se = next((t for t in traces if t["kind"] == "ser"), None)
    if se is not None:
        t = cp(se)
        t["id"] = "NEG/diverges"
        t["ev"] = [cp(t["ev"][0])]
        t["ev"][0]["g"] = {"n": 1, "root": "node", "edges": []}
        t["ev"][0]["res"] = {"t": "exc", "exc": "Timeout", "isvalue": False, "msg": "", "words": []}
        out.append((t, "C16.serializer_diverges"))
        t = cp(t)
        t["id"] = "NEG/lossy"
        t["ev"][0]["res"] = {"t": "o", "f": []}
        out.append((t, "C16.serializer_lossy"))
    return out


def judge(chk: Check, traces: list[dict], controls: bool = True) -> None:
    if not traces:
        return
    neg = negative_controls(traces) if controls else []
    expect_neg = {t["id"]: clause for t, clause in neg}
    traces = traces + [t for t, _ in neg]
    # split into a few monitor runs that proceed concurrently
    groups: dict[str, list[dict]] = {}
    rt = [t for t in traces if t["kind"] == "rt"]
    nsplit = 3 if len(rt) > 600 else 1
    for i, t in enumerate(rt):
        groups.setdefault(f"rt{i % nsplit}", []).append(t)
    for t in traces:
        if t["kind"] != "rt":
            groups.setdefault(t["kind"], []).append(t)
    res = in_parallel({k: (lambda k=k, ts=ts: monitor(chk, ts, k, sub_scratch(chk, f"mon_{k}"))) for k, ts in groups.items()})
    by_id = {t["id"]: t for t in traces}
    ndrift = 0
    for k in sorted(res):
        r, vs = res[k]
        chk.add_tlc(f"Trace_Codec[{k}]", r)
        chk.cov["traces_validated_against_impl"] += len(vs)
        for v in vs:
            if v["id"] in expect_neg:
                got = {fl["clause"] for fl in v["fails"]}
                chk.require(expect_neg[v["id"]] in got, f"negative control {v['id']} was not rejected with {expect_neg[v['id']]} (got {sorted(got)})")
                chk.cov["negative_controls_rejected"] = chk.cov.get("negative_controls_rejected", 0) + 1
                chk.cov["traces_validated_against_impl"] -= 1
                continue
            t = by_id[v["id"]]
            n = v["n"]
            ndrift += v["ndrift"]
            chk.count(n["rt"] * 3 + n["bad"] + n["ser"] + n["calls"])
            chk.cov["round_trips"] = chk.cov.get("round_trips", 0) + n["rt"]
            chk.cov["mutants"] = chk.cov.get("mutants", 0) + n["bad"]
            chk.cov["graphs"] = chk.cov.get("graphs", 0) + n["ser"]
            chk.cov["cyclic_graphs"] = chk.cov.get("cyclic_graphs", 0) + n["cyc"]
            chk.cov["history_calls"] = chk.cov.get("history_calls", 0) + n["calls"]
            if t["kind"] == "hist":
                chk.cov["histories"] = chk.cov.get("histories", 0) + 1
            for c in ("C16.dec_enc", "C16.enc_dec", "C16.serializer_lossy"):
                chk.clause(c, n["rt"])
            for c in ("C16.error_not_raised", "C16.error_type", "C16.error_no_field"):
                chk.clause(c, n["bad"])
            for c in ("C16.serializer_diverges", "C16.serializer_not_json", "C16.serializer_null_key"):
                chk.clause(c, n["ser"] + n["rt"])
            chk.clause("C16.history_dependent", n["calls"])
            if t["kind"] == "rt":
                mapped = any(f["py"] != f["wire"] for c in t["classes"].values() for f in c["fields"])
                if mapped or len(t["classes"]) > 1:
                    chk.nontrivial({"classes": t["classes"], "top": t["top"]})
            elif t["kind"] == "hist" and len(t["h"]) >= 2:
                chk.nontrivial({"hist": t["id"]})
            elif t["kind"] == "ser":
                for e in t["ev"]:
                    if e["g"]["edges"]:
                        chk.nontrivial({"graph": e["gid"]})
            for fl in v["fails"]:
                clause = fl["clause"]
                if clause.startswith("diag."):
                    raise core.MachineryError(f"harness self-check failed: {clause} in trace {v['id']} event {fl['i']}")
                if t["kind"] == "rt":
                    e = t["ev"][fl["i"] - 1]
                    scen = {"kind": "rt", "classes": t["classes"], "top": t["top"]}
                    if e["k"] == "rt":
                        scen["inst"] = [{"j": e["j"], "v": e["v"]}]
                        scen["bad"] = []
                        detail = f"j={canon(e['j'])[:300]} dec={canon(e['dec'])[:200]} out={canon(e['out'])[:300]} ser={canon(e['ser'])[:200]}"
                    else:
                        scen["inst"] = []
                        scen["bad"] = [{"j": e["j"], "what": e["what"], "p": e["p"], "steps": e["steps"]}]
                        detail = f"j={canon(e['j'])[:300]} steps={canon(e['steps'])[:200]} res={canon(e['res'])[:400]}"
                elif t["kind"] == "ser":
                    e = t["ev"][fl["i"] - 1]
                    scen = {"kind": "ser", "graph": e["g"]}
                    detail = f"graph={canon(e['g'])[:300]} res={canon(e['res'])[:300]}"
                else:
                    scen = {"kind": "hist", "classes": t["classes"], "calls": t["calls"], "h": t["h"]}
                    detail = f"history {t['h']} call #{fl['i']}: now={canon(t['res'][fl['i'] - 1])[:250]} fresh={canon(t['base'][fl['i'] - 1])[:250]}"
                chk.fail(clause, fl["locus"], scen, detail)
    if ndrift:
        chk.note_drift(f"{ndrift} result(s) differ from the reference codec's prediction although no property clause failed (value of a decoded leaf / registry model)")


def run(chk: Check) -> None:
    chk.cov["rule"] = (
        "type trees: class A with one field over every type with <=2 (thorough 3) wrapper levels (list / dict[str,.] / Optional) "
        "over 7 leaf types or a nested class D (optionally nesting E) x key style of A {plain,camel,keyword} x of D x required/optional; "
        "and A with two fields x 7 key styles (incl. colliding-after-case-fold, swapped, partial and identity Meta) x required pattern; "
        "instances = all presence subsets x 3 representatives per field; mutants = every single-point uncoercible corruption; "
        "histories = every sequence of <=4 structure/unstructure calls over types sharing D; graphs = every instance graph with 1..3 nodes "
        "and <=3 edges; non-trivial = class table with a key mapping or nesting, history of >=2 calls, graph with >=1 edge"
    )
    chk.assumptions += [
        "only UNCOERCIBLE corruptions are judged as non-conforming (python's str()/bool()/int('5') accept almost anything; the property speaks of failures that occur)",
        "datetimes are compared as instants, bytes as base64 text; an absent or null optional may come back absent or null",
        "UUID / time leaf types have no converter hook and belong to C03: recorded as a diagnostic only",
        "a fresh interpreter state = a forked child of a process that imported the converter module and never called it",
        "resolved self-references are produced by patching the dataclass annotations (equivalent to a module-level class / PEP 563 annotations)",
    ]
    import time

    t0 = time.time()
    phase: dict[str, float] = {}
    gen = generate(chk)
    phase["generate_and_design"] = round(time.time() - t0, 1)
    diag = core.parallel_py(chk.scratch, "harness.w_codec", [{"id": "diag", "kind": "diag"}])[0]["diag"]
    chk.cov["diagnostic_unsupported_leafs"] = {k: (v.get("structured") or v["err"]["exc"]) for k, v in diag.items()}
    t1 = time.time()
    traces = drive_rt(chk, gen["scen"])
    phase["drive_round_trips"] = round(time.time() - t1, 1)
    t1 = time.time()
    traces += drive_hist(chk, gen["hist"])
    phase["drive_histories"] = round(time.time() - t1, 1)
    t1 = time.time()
    traces += drive_ser(chk, gen["graphs"])
    phase["drive_serialiser"] = round(time.time() - t1, 1)
    t1 = time.time()
    judge(chk, traces)
    phase["monitor"] = round(time.time() - t1, 1)
    chk.cov["phase_wall_s"] = phase
    for k in ("round_trips", "mutants", "cyclic_graphs", "histories"):
        chk.require(chk.cov.get(k, 0) > 0, f"vacuous run: no {k}")
    chk.cov["scenarios"] = len(gen["scen"])
    chk.cov["max_type_depth"] = max(s["depth"] for s in gen["scen"])
    s = gen["scen"][len(gen["scen"]) // 2]
    chk.sample({"family": "round trip", "classes": s["classes"], "instance": s["inst"][0]["j"]})
    g = gen["graphs"][len(gen["graphs"]) // 2]
    chk.sample({"family": "serialiser graph", "graph": {k: g[k] for k in ("n", "root", "edges", "cyclic", "rescycle")}})
    h = gen["hist"][0]
    chk.sample({"family": "history", "calls": [[c["id"], c["op"], c["ty"]] for c in h["calls"]], "history": h["hists"][len(h["hists"]) // 2]["h"]})
    chk.cov["exhaustive"] = True


def replay(chk: Check, path: str) -> None:
    rec = json.loads(open(path).read())
    sc = rec["scenario"]
    if sc["kind"] == "rt":
        traces = drive_rt(chk, [{"classes": sc["classes"], "top": sc["top"], "inst": sc["inst"], "bad": sc["bad"]}])
    elif sc["kind"] == "ser":
        g = dict(sc["graph"])
        g.update({"gid": 0, "rescycle": False})
        traces = drive_ser(chk, [g])
    else:
        traces = drive_hist(chk, [{"classes": sc["classes"], "calls": sc["calls"], "hists": [{"h": sc["h"]}]}])
    for t in traces:
        print("TRACE", json.dumps(t)[:3000])
    judge(chk, traces, controls=False)
    for f in chk.fails:
        print("REPLAY-FAIL", f["clause"], json.dumps(f["locus"], sort_keys=True), f["detail"][:400])
