"""Worker: load documents with the real loader while recording cycle-tracker events.

stdin: JSON list of jobs {"id", "spec": <openapi dict>, "declared": [names], "want": ["events", "ir"]}
stdout: one JSON line per job.
Observation is by wrapping module attributes of unified_cycle_detection (looked up at call time by
ParsingContext); no source patch.
"""

from __future__ import annotations

import json
import logging
import signal
import sys
import warnings

logging.disable(logging.CRITICAL)
warnings.simplefilter("ignore")

from harness import core  # noqa: E402

core.install_tree_under_test()

import pyopenapi_gen.core.parsing.unified_cycle_detection as ucd  # noqa: E402
from pyopenapi_gen.core.loader.loader import load_ir_from_spec  # noqa: E402

ST = {
    "not_started": "NS",
    "in_progress": "IP",
    "completed": "DONE",
    "placeholder_cycle": "PH_CYCLE",
    "placeholder_depth": "PH_DEPTH",
    "placeholder_self_ref": "PH_SELF",
}
NONE = "__none__"


class Rec:
    def __init__(self) -> None:
        self.ev: list[dict] = []
        self.ctx = None
        self.maxdepth = 0
        self.on = True
        self.light = False
        self.owner: dict[int, tuple] = {}   # id(result IR) -> (id(node), node, result) of the first call that returned it
        self.foreign: list[dict] = []       # calls answered with the REAL IR built from a different node

    def snap(self, ctx) -> dict:
        return {
            "stack": list(ctx.schema_stack),
            "st": {k: ST[v.value] for k, v in ctx.schema_states.items()},
            "depth": ctx.recursion_depth,
        }


REC = Rec()


def rest_event(snap: dict) -> dict:
    return {"k": "rest", "depth": snap["depth"], "stacklen": len(snap["stack"]), "nip": sum(1 for v in snap["st"].values() if v == "IP")}

_orig_enter = ucd.unified_enter_schema
_orig_exit = ucd.unified_exit_schema


def _py_parse_depth() -> int:
    f = sys._getframe(2)
    n = 0
    while f is not None:
        if f.f_code.co_name == "_parse_schema" and f.f_code.co_filename.endswith("schema_parser.py"):
            n += 1
        f = f.f_back
    return n


def _enter(schema_name, context):
    if not REC.on:
        return _orig_enter(schema_name, context)
    REC.ctx = context
    pre = REC.snap(context)
    if REC.ev and _py_parse_depth() == 1:
        REC.ev.append(rest_event(pre))
    res = _orig_enter(schema_name, context)
    post = REC.snap(context)
    REC.maxdepth = max(REC.maxdepth, post["depth"])
    act = res.action.value
    if act == "create":
        o = "create_depth" if (res.cycle_type is not None and res.cycle_type.value == "max_depth") else "create_cycle"
    else:
        o = act
    stored = bool(
        schema_name
        and res.placeholder_schema is not None
        and context.parsed_schemas.get(schema_name) is res.placeholder_schema
    )
    ev = {"k": "enter", "n": schema_name if schema_name else NONE, "self": bool(context.allow_self_reference), "o": o, "stored": stored}
    if REC.light:
        ev.update({"light": True, "depth": post["depth"], "stacklen": len(post["stack"])})
    else:
        ev.update({"light": False, "pre": pre, "post": post})
    REC.ev.append(ev)
    return res


def _exit(schema_name, context):
    if not REC.on:
        return _orig_exit(schema_name, context)
    pre = None if REC.light else REC.snap(context)
    r = _orig_exit(schema_name, context)
    ev = {"k": "exit", "n": schema_name if schema_name else NONE}
    if REC.light:
        ev.update({"light": True, "depth": context.recursion_depth, "stacklen": len(context.schema_stack)})
    else:
        ev.update({"light": False, "pre": pre, "post": REC.snap(context)})
    REC.ev.append(ev)
    return r


ucd.unified_enter_schema = _enter
ucd.unified_exit_schema = _exit

# ---- which raw node was each IR built from?  (SchemaParse!AnswersOwnNode: a named parse call must not be answered with
# the real IR of a DIFFERENT node.)  _parse_schema is wrapped as a module attribute; recursion inside the parser looks the
# name up in the module globals at call time, the loader modules hold their own reference (patched below).
import importlib  # noqa: E402
from collections.abc import Mapping as _Mapping  # noqa: E402

import pyopenapi_gen.core.parsing.schema_parser as _sp  # noqa: E402

_orig_parse = _sp._parse_schema


def _is_real(ir) -> bool:
    return not (getattr(ir, "_is_circular_ref", False) or getattr(ir, "_max_depth_exceeded_marker", False)
                or getattr(ir, "_from_unresolved_ref", False) or getattr(ir, "_is_self_referential_stub", False))


def _parse(schema_name, schema_node, context, *a, **kw):
    res = _orig_parse(schema_name, schema_node, context, *a, **kw)
    if REC.on and schema_name and isinstance(schema_node, _Mapping) and "$ref" not in schema_node and _is_real(res):
        first = REC.owner.get(id(res))
        if first is None:
            REC.owner[id(res)] = (id(schema_node), schema_node, res)
        elif first[0] != id(schema_node) and first[1] != schema_node:
            REC.foreign.append({"n": schema_name})
    return res


_sp._parse_schema = _parse
for _m in ("pyopenapi_gen.core.loader.schemas.extractor", "pyopenapi_gen.core.loader.parameters.parser",
           "pyopenapi_gen.core.loader.operations.request_body", "pyopenapi_gen.core.loader.responses.parser"):
    try:
        _mod = importlib.import_module(_m)
        if getattr(_mod, "_parse_schema", None) is _orig_parse:
            _mod._parse_schema = _parse
    except Exception:  # noqa: BLE001 - a moved module is not this worker's business
        pass


class _Timeout(Exception):
    pass


def _alarm(*a):
    raise _Timeout()


def kind_of(s, depth=0) -> list:
    """Structural kind of an IRSchema used as a property."""
    if s is None:
        return ["none"]
    if depth > 6:
        return ["deep"]
    ref = getattr(s, "_refers_to_schema", None)
    t = s.type
    if s.any_of or s.one_of:
        return ["union"]
    if t == "array":
        return ["list"] + kind_of(s.items, depth + 1)
    if t in ("string", "integer", "number", "boolean"):
        return [{"string": "str", "integer": "int", "number": "num", "boolean": "bool"}[t]] + (["enum"] if s.enum else [])
    if t == "object" or t is None:
        ap = s.additional_properties
        if not s.properties and ap is not None and not isinstance(ap, bool):
            return ["map"] + kind_of(ap, depth + 1)
        return ["obj", s.name or ""]
    # type names another schema
    return ["named", t]


def describe_schema(s) -> dict:
    return {
        "name": s.name,
        "type": s.type,
        "fields": [[k, k in (s.required or []), kind_of(v)] for k, v in (s.properties or {}).items()],
        "circ": bool(getattr(s, "_is_circular_ref", False)),
        "unres": bool(getattr(s, "_from_unresolved_ref", False)),
        "depthph": bool(getattr(s, "_max_depth_exceeded_marker", False)),
        "selfstub": bool(getattr(s, "_is_self_referential_stub", False)),
        "gen": getattr(s, "generation_name", None),
    }


def run_job(job: dict) -> dict:
    REC.ev = []
    REC.owner = {}
    REC.foreign = []
    REC.ctx = None
    REC.maxdepth = 0
    REC.on = "events" in job.get("want", ["events"])
    REC.light = bool(job.get("light"))
    err = "none"
    ir = None
    signal.signal(signal.SIGALRM, _alarm)
    signal.alarm(int(job.get("timeout", 30)))
    try:
        ir = load_ir_from_spec(job["spec"])
    except _Timeout:
        err = "Timeout"
    except RecursionError:
        err = "RecursionError"
    except Exception as e:  # noqa: BLE001
        err = type(e).__name__ + ": " + str(e)[:200]
    finally:
        signal.alarm(0)
    out: dict = {"id": job["id"], "err": err}
    present: list[str] = []
    if ir is not None:
        for k, s in ir.schemas.items():
            present.append(k)
            if s.name:
                present.append(s.name)
    if REC.on:
        ev = REC.ev
        if REC.ctx is not None:
            ev.append(rest_event(REC.snap(REC.ctx)))
        ev.append({"k": "end", "err": err.split(":")[0], "present": sorted(set(present)), "maxdepth": REC.maxdepth})
        out["ev"] = ev
        out["foreign"] = sorted({f["n"] for f in REC.foreign})
    if ir is not None and "ir" in job.get("want", []):
        out["ir"] = {k: describe_schema(s) for k, s in ir.schemas.items()}
    return out


def main() -> None:
    sys.setrecursionlimit(20000)  # only for decoding deeply nested job documents
    jobs = json.load(sys.stdin)
    # the code under test runs with the interpreter's default limit
    sys.setrecursionlimit(int(__import__("os").environ.get("VERIF_RECLIMIT", "1000")))
    for job in jobs:
        r = run_job(job)
        sys.setrecursionlimit(20000)
        line = json.dumps(r)
        sys.setrecursionlimit(int(__import__("os").environ.get("VERIF_RECLIMIT", "1000")))
        print(line, flush=True)


if __name__ == "__main__":
    main()
