"""Worker: drives the real paginate_by_next over abstract servers emitted by Gen_Pagination."""
from __future__ import annotations

import asyncio
import json
import sys

from harness import core

core.install_tree_under_test()
from pyopenapi_gen.core.pagination import paginate_by_next  # noqa: E402

FALSY = {"none": None, "empty": "", "zero": 0}


def run_job(job: dict) -> dict:
    server, max_steps = job["server"], job["max_steps"]
    reqs: list[str] = []

    async def fetch_page(**params):
        tok = params.get("cursor", "NOTOK")
        reqs.append(tok)
        if len(reqs) > max_steps:
            raise RuntimeError("step bound")
        p = server[tok]
        out = {"things": list(p["items"])}
        if p["next"] != "absent":
            out["cursor"] = FALSY.get(p["next"], p["next"])
        return out

    items: list = []
    ended = False

    async def go():
        nonlocal ended
        try:
            async for it in paginate_by_next(fetch_page, items_key="things", next_key="cursor", limit=5):
                items.append(it)
            ended = True
        except RuntimeError:
            ended = False

    asyncio.run(go())
    return {"id": job["id"], "reqs": reqs[:max_steps], "items": items, "ended": ended}


def main() -> None:
    for job in json.load(sys.stdin):
        print(json.dumps(run_job(job)), flush=True)


if __name__ == "__main__":
    main()
