"""Worker for C09 / C10: runs the real generator inside a sentinel-seeded sandbox project while an audit hook
records every file-system operation; faults are injected from the audit hook (a write part-way through a stage
raises) or by replacing a stage function in client_generator's namespace.

stdin: JSON list of jobs
 {"id", "base": scratch dir, "spec": dict, "pkg", "core": null|str, "existing": "absent|equal|different|partial|emptied",
  "mutation": null|{...}, "force": bool, "pp": bool, "cwd": "root|elsewhere", "fault": "none|<stage>", "runs": [...]}
stdout: one JSON line per job with events, result, before/after snapshot delta.
"""

from __future__ import annotations

import hashlib
import io
import json
import logging
import os
import shutil
import sys
import warnings
from contextlib import redirect_stderr, redirect_stdout
from pathlib import Path

from harness import core

core.install_tree_under_test()
logging.disable(logging.CRITICAL)
warnings.simplefilter("ignore")

STATE = {"phase": "pre", "on": False, "events": [], "stage": "none", "fault": "none", "writes_in_stage": 0, "root": "", "out": "", "core": "", "tmp": "", "fired": False}


class InjectedFault(Exception):
    pass


def classify(path: str) -> str:
    try:
        p = os.path.abspath(path)
    except Exception:  # noqa: BLE001
        return "unknown"
    root, out, cored = STATE["root"], STATE["out"], STATE["core"]
    if p == cored or p.startswith(cored + os.sep):
        return "inCore"
    if p == out or p.startswith(out + os.sep):
        return "inOut"
    if p.startswith(root + os.sep) or p == root:
        if os.path.basename(p) == "__init__.py":
            d = os.path.dirname(p)
            if (out.startswith(d + os.sep) or cored.startswith(d + os.sep)) and d != root:
                return "ancestorInit"
        # creating the ancestor package directories themselves is part of laying out the package path
        if out.startswith(p + os.sep) or cored.startswith(p + os.sep):
            return "ancestorDir"
        return "rootOther"
    return "outside"


WRITE_FLAGS = os.O_WRONLY | os.O_RDWR | os.O_CREAT | os.O_TRUNC | os.O_APPEND


def hook(event: str, args) -> None:  # noqa: ANN001
    if not STATE["on"]:
        return
    op = None
    path = None
    if event == "open":
        path, mode, flags = args[0], args[1], args[2]
        if isinstance(path, int):
            return
        writing = (isinstance(mode, str) and any(c in mode for c in "wax+")) or (mode is None and isinstance(flags, int) and flags & WRITE_FLAGS)
        if not writing:
            return
        op = "write"
    elif event in ("os.mkdir",):
        path, op = args[0], "mkdir"
        if len(args) > 2 and args[2] not in (None, -1):
            return
    elif event in ("os.remove", "os.rmdir"):
        path, op = args[0], "remove"
        if len(args) > 1 and args[1] not in (None, -1):
            return  # dir_fd-relative: belongs to an enclosing rmtree event
    elif event == "os.rename":
        path, op = args[1], "rename"
    elif event == "shutil.rmtree":
        path, op = args[0], "rmtree"
    elif event in ("shutil.copyfile", "shutil.move", "shutil.copytree"):
        path, op = args[1], "write"
    elif event == "os.utime":
        path, op = args[0], "utime"
    elif event == "os.truncate":
        path, op = args[0], "write"
    else:
        return
    try:
        path = os.fspath(path)
        if isinstance(path, bytes):
            path = path.decode()
    except Exception:  # noqa: BLE001
        return
    cls = classify(path)
    if cls == "outside":
        return
    stage = STATE["stage"]
    if stage == "none":
        stage = {"pre": "setup", "post": "clientinit"}.get(STATE["phase"], "none")
    STATE["events"].append({"k": "op", "op": op, "cls": cls, "stage": stage, "path": os.path.relpath(path, STATE["root"])[:120]})
    if STATE["fault"] == stage and not STATE["fired"]:
        if stage == "setup" and op in ("mkdir", "write"):
            STATE["fired"] = True
            raise InjectedFault("injected fault in stage setup")
        if op == "write":
            STATE["writes_in_stage"] += 1
            if STATE["writes_in_stage"] >= (1 if stage == "clientinit" else 2):
                STATE["fired"] = True
                raise InjectedFault(f"injected fault in stage {stage}")


sys.addaudithook(hook)


def snapshot(root: Path) -> dict[str, tuple]:
    out = {}
    for p in sorted(root.rglob("*")):
        rel = str(p.relative_to(root))
        try:
            st = p.lstat()
        except OSError:
            continue
        if p.is_dir():
            out[rel] = ("d", 0, "", 0)
        else:
            try:
                h = hashlib.sha256(p.read_bytes()).hexdigest()
            except OSError:
                h = "?"
            out[rel] = ("f", st.st_size, h, st.st_mtime_ns)
    return out


def delta(before: dict, after: dict, root: Path) -> list[dict]:
    out = []
    for rel in sorted(set(before) | set(after)):
        b, a = before.get(rel), after.get(rel)
        if b == a:
            continue
        if "__pycache__" in rel:
            continue
        kind = "created" if b is None else "deleted" if a is None else ("modified" if (b[1], b[2]) != (a[1], a[2]) else "touched")
        out.append({"k": "delta", "kind": kind, "cls": classify(str(root / rel)), "path": rel[:120]})
    return out


def thin(items: list[dict]) -> list[dict]:
    """Keep every record about a path class that is not plainly allowed; for inOut / inCore keep a few examples per
    (kind/op, class, stage) - the judge only needs one of each."""
    out, seen = [], {}
    for e in items:
        if e.get("k") == "stage":
            out.append(e)
            continue
        if e.get("cls") in ("inOut", "inCore"):
            key = (e.get("op") or e.get("kind"), e["cls"], e.get("stage"))
            seen[key] = seen.get(key, 0) + 1
            if seen[key] > 3:
                continue
        out.append(e)
    return out[:2000]


def install_stage_wrappers(fault: str):
    """Wrap the stage entry points in client_generator's namespace so that audit events are attributed to stages
    (and so that 'load' / 'parse' / 'postprocess' / 'diff' faults can be injected where no file is written)."""
    import pyopenapi_gen.generator.client_generator as cg

    saved = {}

    def wrap_emitter(name: str, stage: str):
        orig = getattr(cg, name)
        saved[name] = orig

        class Wrapped(orig):  # type: ignore[misc, valid-type]
            def emit(self, *a, **kw):
                prev = STATE["stage"]
                STATE["stage"] = stage
                STATE["phase"] = "mid"
                STATE["writes_in_stage"] = 0
                STATE["events"].append({"k": "stage", "stage": stage})
                try:
                    return super().emit(*a, **kw)
                finally:
                    STATE["stage"] = prev
                    if stage == "mocks":
                        STATE["phase"] = "post"

        Wrapped.__name__ = orig.__name__
        setattr(cg, name, Wrapped)

    for name, stage in (("ExceptionsEmitter", "exceptions"), ("CoreEmitter", "core"), ("ModelsEmitter", "models"), ("EndpointsEmitter", "endpoints"), ("ClientEmitter", "client"), ("MocksEmitter", "mocks")):
        if hasattr(cg, name):
            wrap_emitter(name, stage)

    def wrap_fn(name: str, stage: str):
        orig = getattr(cg, name)
        saved[name] = orig

        def w(*a, **kw):
            prev = STATE["stage"]
            STATE["stage"] = stage
            STATE["events"].append({"k": "stage", "stage": stage})
            try:
                if STATE["fault"] == stage:
                    STATE["fired"] = True
                    raise InjectedFault(f"injected fault in stage {stage}")
                return orig(*a, **kw)
            finally:
                STATE["stage"] = prev

        setattr(cg, name, w)

    for name, stage in (("fetch_spec", "load"), ("load_ir_from_spec", "parse")):
        if hasattr(cg, name):
            wrap_fn(name, stage)
    # post-processing: a class with run()
    if hasattr(cg, "PostprocessManager"):
        orig_pm = cg.PostprocessManager
        saved["PostprocessManager"] = orig_pm

        class PM(orig_pm):  # type: ignore[misc, valid-type]
            def run(self, *a, **kw):
                prev = STATE["stage"]
                STATE["stage"] = "postprocess"
                STATE["events"].append({"k": "stage", "stage": "postprocess"})
                try:
                    if STATE["fault"] == "postprocess":
                        STATE["fired"] = True
                        raise InjectedFault("injected fault in stage postprocess")
                    return super().run(*a, **kw)
                finally:
                    STATE["stage"] = prev

        cg.PostprocessManager = PM
    # diff
    orig_diff = cg.ClientGenerator._show_diffs
    saved["_show_diffs"] = orig_diff

    def diff(self, *a, **kw):
        prev = STATE["stage"]
        STATE["stage"] = "diff"
        STATE["events"].append({"k": "stage", "stage": "diff"})
        try:
            if STATE["fault"] == "diff":
                STATE["fired"] = True
                raise InjectedFault("injected fault in stage diff")
            return orig_diff(self, *a, **kw)
        finally:
            STATE["stage"] = prev

    cg.ClientGenerator._show_diffs = diff
    # setup / clientinit faults: attributed by path (writes outside any emitter stage) - handled in the hook by stage "none"
    return cg, saved


def uninstall(cg, saved) -> None:
    for k, v in saved.items():
        if k == "_show_diffs":
            cg.ClientGenerator._show_diffs = v
        else:
            setattr(cg, k, v)


def gen(spec_path: Path, root: Path, pkg: str, corep, force: bool, pp: bool) -> tuple[str, str]:
    from pyopenapi_gen import generate_client

    buf = io.StringIO()
    try:
        with redirect_stdout(buf), redirect_stderr(buf):
            generate_client(spec_path=str(spec_path), project_root=str(root), output_package=pkg, core_package=corep, force=force, no_postprocess=not pp)
        return "ok", ""
    except BaseException as e:  # noqa: BLE001
        if isinstance(e, KeyboardInterrupt):
            raise
        chain = []
        x = e
        while x is not None and len(chain) < 5:
            chain.append(type(x).__name__)
            x = x.__cause__ or x.__context__
        return "raised", f"{'<-'.join(chain)}: {str(e)[:200]}"


def run_det(job: dict) -> dict:
    """Plain generation; returns sha256 per emitted file (relative to the package path, so roots are comparable)."""
    base = Path(job["base"]) / job["id"]
    root = base / job.get("rootname", "proj")
    root.mkdir(parents=True)
    spec_path = base / "spec.json"
    spec_path.write_text(json.dumps(job["spec"]))
    if job.get("warm"):
        # an unrelated generation first (exercises process-global caches)
        w = base / "warm"
        w.mkdir()
        wp = base / "warm.json"
        wp.write_text(json.dumps(job["warm"]))
        gen(wp, w, "warmpkg.client", None, True, False)
    if job.get("fake_date"):
        import datetime as _dt
        import time as _t

        real = _t.time
        _t.time = lambda: real() + 86400 * 400  # noqa: E731
    r, e = gen(spec_path, root, job["pkg"], job.get("core"), True, bool(job.get("pp")))
    files = {}
    if r == "ok":
        for p in sorted(root.rglob("*")):
            if p.is_file() and "__pycache__" not in p.parts and ".ruff_cache" not in p.parts:
                files[str(p.relative_to(root))] = hashlib.sha256(p.read_bytes()).hexdigest()[:20]
    shutil.rmtree(base, ignore_errors=True)
    return {"id": job["id"], "result": r, "err": e, "files": files}


def run_job(job: dict) -> dict:
    if job.get("kind") == "det":
        return run_det(job)
    base = Path(job["base"]) / job["id"]
    root = base / "proj"
    elsewhere = base / "elsewhere"
    root.mkdir(parents=True)
    elsewhere.mkdir(parents=True)
    spec_path = base / "spec.json"
    spec_path.write_text(json.dumps(job["spec"]))
    pkg, corep = job["pkg"], job.get("core")
    out = root.joinpath(*pkg.split("."))
    cored = root.joinpath(*(corep or pkg + ".core").split("."))
    # sentinels: at the root, inside ancestor packages, a neighbouring package
    (root / "sentinel.txt").write_text("root sentinel\n")
    (root / "neighbour").mkdir()
    (root / "neighbour" / "__init__.py").write_text("# neighbour\n")
    (root / "neighbour" / "data.py").write_text("import json\nX = [1,\n  2]\n")
    parts = pkg.split(".")
    for i in range(1, len(parts)):
        d = root.joinpath(*parts[:i])
        d.mkdir(exist_ok=True)
        (d / "sentinel_mod.py").write_text("import os, sys\nY = {  'a':1 }\n")  # deliberately not ruff-clean: any tool run over it changes it
    STATE.update({"root": str(root), "out": str(out), "core": str(cored), "on": False, "fault": "none", "fired": False})
    prev_cwd = os.getcwd()
    os.chdir(str(root if job.get("cwd") == "root" else elsewhere))
    res: dict = {"id": job["id"]}
    try:
        existing = job.get("existing", "absent")
        if existing != "absent":
            setup_spec = spec_path
            if existing == "specchange" and job.get("spec_old"):
                setup_spec = base / "spec_old.json"
                setup_spec.write_text(json.dumps(job["spec_old"]))
            r0, e0 = gen(setup_spec, root, pkg, corep, True, bool(job.get("pp")))
            if r0 != "ok":
                return {"id": job["id"], "setup_failed": e0}
            # remove caches the setup run may have left so that the judged run starts from a clean, known tree
            for c in list(root.rglob(".ruff_cache")):
                shutil.rmtree(c, ignore_errors=True)
            pys = sorted(p for p in out.rglob("*.py") if "core" not in p.relative_to(out).parts)
            def by_class(cls: str):
                """one emitted file of the given file class (relative to the output package)"""
                pick = {
                    "root_init": lambda: out / "__init__.py",
                    "client": lambda: out / "client.py",
                    "models_init": lambda: out / "models" / "__init__.py",
                    "model": lambda: sorted(p for p in (out / "models").glob("*.py") if p.name != "__init__.py")[0],
                    "endpoints_init": lambda: out / "endpoints" / "__init__.py",
                    "endpoint": lambda: sorted(p for p in (out / "endpoints").glob("*.py") if p.name != "__init__.py")[0],
                    "mocks_init": lambda: out / "mocks" / "__init__.py",
                    "mock_client": lambda: out / "mocks" / "mock_client.py",
                    "mock_endpoint": lambda: sorted(p for p in (out / "mocks" / "endpoints").glob("mock_*.py"))[0],
                    "core_runtime": lambda: cored / "http_transport.py",
                    "core_aliases": lambda: cored / "exception_aliases.py",
                    "core_init": lambda: cored / "__init__.py",
                    # the __init__.py of the top-level ancestor package (of the client, and of a dotted core as well)
                    "ancestor_init": lambda: root / pkg.split(".")[0] / "__init__.py",
                }
                return pick[cls]()

            if existing == "different":
                t = [p for p in pys if p.name == "client.py"][0]
                t.write_text(t.read_text() + "\n# locally edited\n")
            elif existing.startswith("edit:"):
                t = by_class(existing.split(":", 1)[1])
                t.write_text(t.read_text() + "\n# locally edited\n")
            elif existing.startswith("missing:"):
                by_class(existing.split(":", 1)[1]).unlink()
            elif existing == "userfile":
                # an up-to-date tree that also holds a hand-written module and lacks nothing
                (out / "custom_helpers.py").write_text("HELPER = 1\n")
            elif existing == "specchange":
                # the tree was generated from an older version of the document (without one unreferenced schema)
                pass
            elif existing == "partial":
                for p in pys:
                    if p.parent.name == "models" and p.name != "__init__.py":
                        p.unlink()
                        break
            elif existing == "emptied":
                for p in list(out.iterdir()):
                    if p.is_dir():
                        shutil.rmtree(p)
                    else:
                        p.unlink()
            elif existing == "nonpy":
                t = out / "py.typed"
                t.write_text("changed marker\n")
            elif existing == "stale_extra":
                (out / "models" / "zz_stale.py").write_text("STALE = True\n")
        # where the process keeps its temporary files is part of the environment: "hidden" = below a dot-directory (~/.cache/tmp style),
        # "spaced" = a path with a blank and non-ASCII characters
        import tempfile as _tf
        saved_tmp = (_tf.tempdir, os.environ.get("TMPDIR"))
        if job.get("tmpdir") in ("hidden", "spaced"):
            td = base / ("home/.cache/tmp" if job["tmpdir"] == "hidden" else "my tmp dir é")
            td.mkdir(parents=True, exist_ok=True)
            _tf.tempdir = str(td)
            os.environ["TMPDIR"] = str(td)
        before = snapshot(root)
        cg, saved = install_stage_wrappers(job.get("fault", "none"))
        STATE.update({"phase": "pre", "events": [], "stage": "none", "fault": job.get("fault", "none"), "writes_in_stage": 0, "fired": False, "on": True})
        try:
            result, err = gen(spec_path, root, pkg, corep, bool(job.get("force")), bool(job.get("pp")))
        finally:
            STATE["on"] = False
            uninstall(cg, saved)
            _tf.tempdir = saved_tmp[0]
            if saved_tmp[1] is None:
                os.environ.pop("TMPDIR", None)
            else:
                os.environ["TMPDIR"] = saved_tmp[1]
        after = snapshot(root)
        ev = [e for e in STATE["events"]]
        res.update({"result": result, "err": err, "fault_fired": STATE["fired"], "events": thin(ev), "nevents": len(ev), "delta": thin(delta(before, after, root)), "tree": hashlib.sha256(json.dumps({k: v[:3] for k, v in after.items() if "__pycache__" not in k}, sort_keys=True).encode()).hexdigest()})
    finally:
        os.chdir(prev_cwd)
        shutil.rmtree(base, ignore_errors=True)
    return res


def main() -> None:
    jobs = json.load(sys.stdin)
    for job in jobs:
        print(json.dumps(run_job(job)), flush=True)


if __name__ == "__main__":
    main()
