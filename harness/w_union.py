"""Worker: replay (union, payload) pairs on the REAL converter (pyopenapi_gen.core.cattrs_converter).

stdin: JSON list of jobs
  {"id", "vars": [variant...], "nullable": bool, "disc": {"mode": "none"|"complete"|"partial", "prop": str,
   "mapping": [[tag, variant index (1-based)], ...]}, "cases": [{"cid", "payload": tagged tree}],
   "positions": subset of ["top", "field", "list", "opt", "map", "rows"]}
variant == {"k": "obj", "f": [ma, mb, mc]} (m in abs/opt/req/rnul/reqdef/optdef/reqenum/reqdate, fields a, b, c, string typed;
           rnul = required and nullable, *def = declared default "d<key>", reqenum = enum ["v<key>"], reqdate = format date)   optional job key "history": {"vars": [...]} -> see run_history_job (adds "fresh" to the result)
         | {"k": "str"|"int"|"float"|"bool"} | {"k": "list"|"map", "of": "str"|"int"} | {"k": "anymap"}
stdout: one JSON line per job: {"id", "res": [{"cid", "pos", "out": "ok"|"err", "chosen": int (1-based variant index,
  0 = none of the union's variants could be identified), "ckind": kind of the produced value, "reenc": tagged tree,
  "ekind": normalised error kind}]}

The dataclasses, the alias and the discriminator metadata are built in the shape the generator emits
(python_construct_renderer.render_dataclass / render_alias): required fields first, optional fields
`T | None = None`, an identity `Meta` mapping, `Annotated[Union[...], <Alias>Discriminator()]` with a frozen
metadata dataclass carrying `property_name`, `_mapping_data` and a lazy `get_mapping()` returning the classes.
"""

from __future__ import annotations

import dataclasses
import datetime
import enum
import json
import re
import sys
from typing import Annotated, Any, Dict, List, Optional, Union

from harness import core

core.install_tree_under_test()

import importlib  # noqa: E402

import pyopenapi_gen.core.cattrs_converter as cc  # noqa: E402

import typing  # noqa: E402


def fresh_converter() -> None:
    """Every union is replayed in the state of a freshly started client:
    * the bundled converter appends one predicate hook per structure_from_dict call and per dataclass to its global
      cattrs Converter (never removed), so a long-lived process slows down quadratically, and cattrs caches handlers
      by type EQUALITY (Union[A, B] == Union[B, A]) - re-executing the module gives an empty registry (same code);
    * typing caches List[Union[A, B]] / Optional[...] by the same equality, so `List[Union[A, B]]` would silently be
      the `List[Union[B, A]]` object built for an earlier union of this process - the caches are cleared."""
    importlib.reload(cc)
    for f in typing._cleanups:  # type: ignore[attr-defined]
        f()


def structure_from_dict(data: Any, t: Any) -> Any:
    return cc.structure_from_dict(data, t)


def unstructure_to_dict(x: Any) -> Any:
    return cc.unstructure_to_dict(x)


FIELDS = ("a", "b", "c")
LETTER = {"abs": "X", "opt": "O", "req": "R", "rnul": "N", "reqdef": "D", "optdef": "F", "reqenum": "E", "reqdate": "T"}
_ENUMS: dict[str, type] = {}


def enum_for(fld: str) -> type:
    """inline `enum: ["v<fld>"]` -> the str-Enum class the generator emits for it"""
    if fld not in _ENUMS:
        _ENUMS[fld] = enum.unique(enum.Enum("Enum" + fld.upper(), {("V" + fld).upper(): "v" + fld}, type=str))
    return _ENUMS[fld]

PRIMS = {"str": str, "int": int, "float": float, "bool": bool}

_CLASSES: dict[tuple, type] = {}


def obj_class(f: list[str], disc_prop: str | None, positional: int = 0) -> type:
    """positional > 0: a NEW class named Var<positional> (history replays need two families of classes with equal
    names, like the models of two generated clients), otherwise one cached class per shape."""
    key = (tuple(f), disc_prop)
    c = _CLASSES.get(key) if not positional else None
    if c is not None:
        return c
    name = f"Var{positional}" if positional else ("K" if disc_prop else "") + "Obj" + "".join(LETTER[m] for m in f)
    req: list[Any] = []
    opt: list[Any] = []
    names = []
    if disc_prop:
        req.append((disc_prop, str))
        names.append(disc_prop)
    for fld, m in zip(FIELDS, f):
        if m == "req":
            req.append((fld, str))
            names.append(fld)
        elif m == "rnul":  # required and nullable: `a: str | None` without a default
            req.append((fld, str | None))
            names.append(fld)
        # annotated properties, in the shape the generator emits on the unchanged tree (probed): a declared default on a
        # REQUIRED property is not a field default, on an optional one it is; inline enum -> Enum class; format date -> date
        elif m == "reqdef":
            req.append((fld, str))
            names.append(fld)
        elif m == "optdef":
            opt.append((fld, str | None, dataclasses.field(default="d" + fld)))
            names.append(fld)
        elif m == "reqenum":
            req.append((fld, enum_for(fld)))
            names.append(fld)
        elif m == "reqdate":
            req.append((fld, datetime.date))
            names.append(fld)
        elif m == "opt":
            opt.append((fld, str | None, dataclasses.field(default=None)))
            names.append(fld)
    c = dataclasses.make_dataclass(name, req + opt)
    ident = {n: n for n in sorted(names)}
    c.Meta = type("Meta", (), {"key_transform_with_load": dict(ident), "key_transform_with_dump": dict(ident)})
    if not positional:
        _CLASSES[key] = c
    return c


def variant_type(v: dict, disc_prop: str | None, positional: int = 0) -> Any:
    k = v["k"]
    if k == "obj":
        return obj_class(v["f"], disc_prop, positional)
    if k in PRIMS:
        return PRIMS[k]
    if k == "list":
        return List[PRIMS[v["of"]]]
    if k == "map":
        return Dict[str, PRIMS[v["of"]]]
    if k == "anymap":
        return dict[str, Any]
    raise ValueError(k)


def build_union(job: dict, positional: bool = False) -> tuple[Any, list[Any]]:
    disc = job.get("disc") or {"mode": "none"}
    prop = disc.get("prop") if disc.get("mode", "none") != "none" else None
    vts = [variant_type(v, prop, i + 1 if positional else 0) for i, v in enumerate(job["vars"])]
    u: Any = Union[tuple(vts)] if len(vts) > 1 else vts[0]
    if prop:
        mapping = {tag: vts[i - 1] for tag, i in disc["mapping"]}
        data = tuple((tag, vts[i - 1].__name__) for tag, i in disc["mapping"])

        def get_mapping(self, _m=mapping):  # noqa: ANN001
            return dict(_m)

        dcls = dataclasses.make_dataclass(
            "UDiscriminator",
            [("property_name", str, dataclasses.field(default=prop)), ("_mapping_data", tuple, dataclasses.field(default=data))],
            frozen=True,
            namespace={"get_mapping": get_mapping},
        )
        if job.get("nullable"):
            # the generator's shape for a discriminated union that is itself nullable: Annotated[Union[A, B] | None, D()]
            u = Annotated[Union[tuple(vts) + (type(None),)], dcls()]
        else:
            u = Annotated[u, dcls()]
    elif job.get("nullable"):
        u = u | None
    return u, vts


def to_tree(x: Any) -> dict:
    if x is None:
        return {"t": "null", "v": 0}
    if isinstance(x, enum.Enum):
        return to_tree(x.value)
    if isinstance(x, datetime.date):
        return {"t": "s", "v": x.isoformat()}
    if isinstance(x, bool):
        return {"t": "b", "v": x}
    if isinstance(x, int):
        return {"t": "i", "v": x} if abs(x) < 2**30 else {"t": "x", "v": "bigint"}
    if isinstance(x, float):
        y = x * 10
        if y != y or abs(y) >= 2**30 or abs(y - round(y)) > 1e-9:
            return {"t": "x", "v": "float:" + repr(x)[:40]}
        return {"t": "f", "v": int(round(y))}
    if isinstance(x, str):
        return {"t": "s", "v": x}
    if isinstance(x, (list, tuple)):
        return {"t": "l", "v": [to_tree(e) for e in x]}
    if isinstance(x, dict):
        return {"t": "o", "v": [{"k": str(k), "v": to_tree(x[k])} for k in sorted(x, key=str)]}
    return {"t": "x", "v": type(x).__name__}


def from_tree(t: dict) -> Any:
    k = t["t"]
    if k == "null":
        return None
    if k in ("b", "i", "s"):
        return t["v"]
    if k == "f":
        return t["v"] / 10.0
    if k == "l":
        return [from_tree(e) for e in t["v"]]
    if k == "o":
        return {e["k"]: from_tree(e["v"]) for e in t["v"]}
    raise ValueError(k)


def err_kind(e: BaseException) -> str:
    """Normalised kind of a decoding error, from the message of the converter's ValueError."""
    msg = str(e)
    if "Unknown discriminator value" in msg:
        return "unknown_discriminator"
    if "Failed to deserialize as" in msg and "(discriminator" in msg:
        return "mapped_variant_failed"
    if "Could not structure dict into any variant" in msg:
        return "no_dataclass_variant"
    if "Cannot structure" in msg and "into" in msg:
        return "no_variant"
    if "None is not valid" in msg:
        return "null_not_allowed"
    m = re.search(r"\b([A-Z][A-Za-z]+(Error|Exception))\b", msg)
    return "other:" + (m.group(1) if m else type(e).__name__)


def kind_of_value(r: Any, vts: list[Any]) -> tuple[int, str]:
    if r is None:
        return 0, "null"
    if dataclasses.is_dataclass(r) and not isinstance(r, type):
        for i, t in enumerate(vts):
            if type(r) is t:
                return i + 1, "obj"
        return 0, "foreign:" + type(r).__name__  # a dataclass that is none of THIS union's variant classes
    for name, py in (("bool", bool), ("int", int), ("float", float), ("str", str), ("list", list), ("dict", dict)):
        if type(r) is py:
            return 0, name
    return 0, "other:" + type(r).__name__


def optional_holder(u: Any) -> type:
    h = dataclasses.make_dataclass("HolderO", [("u", Optional[u], dataclasses.field(default=None))])
    h.Meta = type("Meta", (), {"key_transform_with_load": {"u": "u"}, "key_transform_with_dump": {"u": "u"}})
    return h


def _cases(job: dict, u: Any, vts: list[Any]) -> list[dict]:
    holder = dataclasses.make_dataclass("Holder", [("u", u)])
    holder.Meta = type("Meta", (), {"key_transform_with_load": {"u": "u"}, "key_transform_with_dump": {"u": "u"}})
    positions = job.get("positions", ["top", "field", "list"])
    oholder = optional_holder(u) if "opt" in positions else None
    # does the union TYPE OBJECT that Python hands out at a wrapper position still list the members in this union's
    # order?  (typing caches List[X] / Optional[X] / Dict[str, X] by equality and Union[A, B] == Union[B, A])
    import typing

    def members(t: Any) -> list[Any]:
        if typing.get_origin(t) is Annotated:
            t = typing.get_args(t)[0]
        out: list[Any] = []
        for a in typing.get_args(t):
            if a is type(None):
                continue
            out += members(a) if typing.get_origin(a) in (Annotated, Union) else [a]
        return out

    at = {"top": lambda: u, "field": lambda: u, "list": lambda: typing.get_args(List[u])[0], "opt": lambda: Optional[u],
          "map": lambda: typing.get_args(Dict[str, u])[1], "rows": lambda: typing.get_args(typing.get_args(List[List[u]])[0])[0]}
    want = [t for t in vts]
    torder = {}
    for pos in positions:
        got = members(at[pos]()) if len(vts) > 1 else want
        torder[pos] = "declared" if got == want else "collapsed"
    res = []
    for c in job["cases"]:
        payload = from_tree(c["payload"])
        for pos in positions:
            r = run_case(u, vts, holder, payload, pos, oholder)
            r["cid"] = c["cid"]
            r["pos"] = pos
            r["torder"] = torder[pos]
            res.append(r)
    return res


def run_history_job(job: dict) -> dict:
    """Decoding is a HISTORY inside one process.  `fresh` = this union decoded in a fresh process state; `res` = this
    union decoded after ANOTHER union U1 went through the same converter module (nothing is reset in between):
      history.kind == "classes": U1 has the same discriminator (property, values, class names Var1..Varn) but different
                                 variant classes (two clients sharing one core);
      history.kind == "perm":    U1 is an undiscriminated union over the SAME variant classes in reversed order (one
                                 document holding several unions over one variant set; `Union[A, B] == Union[B, A]`)."""
    kind = job["history"].get("kind", "classes")
    positional = kind == "classes"
    fresh_converter()
    u2, vts2 = build_union(job, positional=positional)
    fresh = _cases(job, u2, vts2)
    fresh_converter()
    if kind == "classes":
        h = dict(job)
        h["vars"] = job["history"]["vars"]
        u1, _ = build_union(h, positional=True)
        for tag, _i in job["disc"]["mapping"]:
            for body in ({job["disc"]["prop"]: tag}, {job["disc"]["prop"]: tag, "a": "va", "b": "vb"}):
                try:
                    structure_from_dict(body, u1)
                except Exception:  # noqa: BLE001
                    pass
    else:
        _, vts = build_union(job)
        u1 = Union[tuple(reversed(vts))] if len(vts) > 1 else vts[0]
        if job.get("nullable"):
            u1 = u1 | None
        h1 = dataclasses.make_dataclass("Holder1", [("u", u1)])
        for c in job["cases"]:
            payload = from_tree(c["payload"])
            for typ, body in ((u1, payload), (h1, {"u": payload}), (List[u1], [payload]), (Optional[u1], payload), (Dict[str, u1], {"k": payload})):
                try:
                    structure_from_dict(body, typ)
                except Exception:  # noqa: BLE001
                    pass
    u2, vts2 = build_union(job, positional=positional)
    return {"id": job["id"], "res": _cases(job, u2, vts2), "fresh": fresh}


def run_case(u: Any, vts: list[Any], holder: type | None, payload: Any, pos: str, oholder: type | None = None) -> dict:
    try:
        if pos == "top":
            r = structure_from_dict(payload, u)
        elif pos == "field":
            h = structure_from_dict({"u": payload}, holder)
            r = h.u
        elif pos == "opt":  # `u: <union> | None = None`, the shape of a non-required property
            h = structure_from_dict({"u": payload}, oholder or optional_holder(u))
            r = h.u
        elif pos == "map":
            m = structure_from_dict({"k": payload}, Dict[str, u])
            r = m["k"]
        elif pos == "rows":
            rows = structure_from_dict([[payload]], List[List[u]])
            if not (isinstance(rows, list) and len(rows) == 1 and isinstance(rows[0], list) and len(rows[0]) == 1):
                return {"out": "ok", "chosen": 0, "ckind": "other:listshape", "reenc": to_tree(rows), "ekind": "-"}
            r = rows[0][0]
        else:
            lst = structure_from_dict([payload], List[u])
            if not isinstance(lst, list) or len(lst) != 1:
                return {"out": "ok", "chosen": 0, "ckind": "other:listshape", "reenc": to_tree(lst), "ekind": "-"}
            r = lst[0]
    except Exception as e:  # noqa: BLE001
        return {"out": "err", "chosen": 0, "ckind": "-", "reenc": {"t": "null", "v": 0}, "ekind": err_kind(e)}
    chosen, ckind = kind_of_value(r, vts)
    try:
        re_enc = unstructure_to_dict(r)
    except Exception as e:  # noqa: BLE001
        return {"out": "ok", "chosen": chosen, "ckind": ckind, "reenc": {"t": "x", "v": "unstructure:" + type(e).__name__}, "ekind": "-"}
    return {"out": "ok", "chosen": chosen, "ckind": ckind, "reenc": to_tree(re_enc), "ekind": "-"}


def run_job(job: dict) -> dict:
    if job.get("history"):
        return run_history_job(job)
    fresh_converter()
    u, vts = build_union(job)
    return {"id": job["id"], "res": _cases(job, u, vts)}


def main() -> None:
    jobs = json.load(sys.stdin)
    for job in jobs:
        print(json.dumps(run_job(job)), flush=True)


if __name__ == "__main__":
    main()
