"""Conformance of the real parser with specs/SchemaParse.tla (used by C02 and C08 as an additional stage):
runs the big-step model on the same abstract documents and compares call sequence and per-schema field sets."""

from __future__ import annotations

import json
from typing import Any

from . import concretise, core, schemanode
from .core import Check, run_tlc


def conformance(chk: Check, docs: list[dict], label: str, use_all: bool = False) -> dict[str, Any]:
    """docs: Docs.tla graph documents (PascalCase names only).  Returns summary; DRIFT notes are added to chk."""
    jobs = []
    specs = []
    for j, d in enumerate(docs):
        spec = concretise.graph_doc(d, use_all=use_all)
        specs.append(spec)
        jobs.append({"id": f"sp{j}", "spec": spec, "declared": list(d["order"]), "want": ["ir", "events"], "light": True, "timeout": 60})
    res = core.parallel_py(chk.scratch, "harness.w_parse", jobs)
    traces = []
    for d, spec, r in zip(docs, specs, res):
        if r["err"] != "none":
            continue
        schemas = spec["components"]["schemas"]
        raw, names = schemanode.build_raw(schemas)
        cfg = concretise.tracker_cfg(names, 150)
        cfg["hasItem"] = [n for n in names if "Item" in n]
        cfg["san"] = {n: schemanode.san_class(n) for n in names}
        fields = {}
        for n in d["order"]:
            hits = [(k, s) for k, s in r["ir"].items() if k == n or s["name"] == n]
            if hits:
                k, s = sorted(hits, key=lambda h: (h[0] != n,))[0]
                fields[n] = [f[0] for f in s["fields"]]
        ev = [{"k": e["k"], "n": e["n"], "o": e.get("o", "none")} for e in r["ev"] if e["k"] in ("enter", "exit")]
        traces.append({"id": r["id"], "order": list(d["order"]), "raw": raw, "cfg": cfg, "doc": {"order": d["order"], "edges": d["edges"]}, "inhcycle": bool(d.get("inhcycle")),
                       "real": {"ev": ev, "keys": sorted(r["ir"].keys()), "fields": fields, "foreign": r.get("foreign", [])}})
    if not traces:
        return {"docs": 0}
    dd = chk.scratch.sub("spconf")
    vs = []
    CH = 1500   # documents per TLC run: the whole thorough family in one run passed the time limit
    for k in range(0, len(traces), CH):
        tf = dd / f"t{k}.ndjson"
        with tf.open("w") as f:
            for t in traces[k : k + CH]:
                f.write(json.dumps(t) + "\n")
        r = run_tlc(chk.scratch, "Trace_SchemaParse", "SPECIFICATION Spec\nCHECK_DEADLOCK FALSE\n", workers=core.NCPU, env={"TRACE_FILE": str(tf)}, timeout=1800)
        chk.add_tlc(f"Trace_SchemaParse[{label}/{k // CH}]", r)
        vs += r.printed.get("VERDICT", [])
        tf.unlink()
    chk.require(len(vs) == len(traces), "Trace_SchemaParse verdict count mismatch")
    by_id = {t["id"]: t for t in traces}
    ev_ok = sum(1 for v in vs if v["evdiff"] == 0)
    fd_ok = sum(1 for v in vs if not v["fielddiff"])
    design_lost = sum(1 for v in vs if v["designLost"])
    design_foreign = sum(1 for v in vs if v["designForeign"])
    fo_ok = sum(1 for v in vs if not v["foreigndiff"])
    not_rest = sum(1 for v in vs if not v["atrest"])
    not_term = sum(1 for v in vs if not v["terminated"])
    summ = {"docs": len(vs), "call_sequence_identical": ev_ok, "field_sets_identical": fd_ok, "design_predicts_lost_fields": design_lost, "foreign_answers_identical": fo_ok, "design_predicts_foreign_answers": design_foreign, "design_not_at_rest": not_rest, "design_not_terminated": not_term}
    chk.cov.setdefault("schemaparse_conformance", {})[label] = summ
    for v in [v for v in vs if v["foreigndiff"]][:3]:
        chk.note_drift(f"SchemaParse.tla vs real parser on {json.dumps(by_id[v['id']]['doc'])[:220]}: names answered with another node's IR differ: model {v['designForeign']} symmetric difference {v['foreigndiff']}")
    bad = [v for v in vs if v["evdiff"] != 0 or v["fielddiff"]]
    for v in bad[:3]:
        t = by_id[v["id"]]
        fmt = lambda es: " ".join(f"{'>' if e['k'] == 'enter' else '<'}{e['n']}{':' + e['o'] if e['k'] == 'enter' else ''}" for e in es)  # noqa: E731
        chk.note_drift(f"SchemaParse.tla vs real parser on {json.dumps(t['doc'])[:220]}: first differing call #{v['evdiff']} model[{fmt(v['modelAround'])}] real[{fmt(v['realAround'])}], schemas with different field sets {v['fielddiff']}")
    if len(bad) > 3:
        chk.note_drift(f"SchemaParse.tla: {len(bad)} of {len(vs)} documents of {label} differ from the real parser in call sequence or field sets")
    if not_rest or not_term:
        chk.fail("C08.design_rest" if not_rest else "C08.design_terminates", {"level": "design", "family": label}, {"label": label}, f"{not_rest} documents not at rest / {not_term} not terminated in the MODEL")
    return summ
