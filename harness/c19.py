"""C19 - output depends on the document's meaning, not its rendering.

Render.tla (TLC) enumerates the variants of one abstract document (rendering x permutation of schemas / paths /
properties); each variant is generated and imported next to the reference variant (JSON, declared order); manifests
(models -> fields, clients -> method signatures, operation set) and - for pure re-renderings - file bytes are compared;
Trace_Render.tla judges with Render!Clause."""

from __future__ import annotations

import copy
import hashlib
import json
from pathlib import Path
from typing import Any

import yaml

from . import concretise, core, features
from .c08 import gen_graphs
from .core import Check, run_tlc, tla

LEVEL = "exploration"

FEATS = ["allof_parent", "oneof_disc", "enum_top", "inline_object", "arr_inline", "map_typed", "nullable", "prim_alias", "arr_alias", "params_everywhere", "param_types",
         "body_form", "secondary_2xx", "default_response", "multi_tag", "no_tag", "many_errors", "fastapi_ids", "all_methods", "inline_response_object",
         "component_params_responses", "keyword_props", "defaults", "enum_inline", "union_prop", "pathlevel_only", "shared_param_inline", "nullable", "body_optional",
         "disc_numeric_keys", "numeric_prop_keys", "case_variant_schemas"]


def perm(items: list, how: str) -> list:
    if how == "rev":
        return list(reversed(items))
    if how == "rot" and len(items) > 1:
        return items[1:] + items[:1]
    return list(items)


def permute_props(node: Any, how: str) -> Any:
    if isinstance(node, dict):
        out = {}
        for k, v in node.items():
            if k == "properties" and isinstance(v, dict):
                out[k] = {pk: permute_props(v[pk], how) for pk in perm(list(v), how)}
            else:
                out[k] = permute_props(v, how)
        return out
    if isinstance(node, list):
        return [permute_props(x, how) for x in node]
    return node


def render(spec: dict, variant: dict) -> tuple[str, str]:
    d = copy.deepcopy(spec)
    sch = d.get("components", {}).get("schemas", {})
    d.setdefault("components", {})["schemas"] = {k: sch[k] for k in perm(list(sch), variant["schemas"])}
    d["paths"] = {k: d["paths"][k] for k in perm(list(d["paths"]), variant["paths"])}
    if variant.get("pathitem", "id") != "id":
        d["paths"] = {k: {ik: item[ik] for ik in perm(list(item), variant["pathitem"])} for k, item in d["paths"].items()}
    if variant["props"] != "id":
        d = permute_props(d, variant["props"])
    r = variant["rendering"]
    if r == "json":
        return json.dumps(d), "json"
    if r == "jsonSorted":
        return json.dumps(d, sort_keys=True), "json"
    if r == "yamlBareKeys":
        # EVERY mapping key that looks like a number is written bare (status codes, discriminator values, property names, ...)
        def bare(node):
            if isinstance(node, dict):
                return {(int(k) if isinstance(k, str) and k.isdigit() and str(int(k)) == k else k): bare(v) for k, v in node.items()}
            if isinstance(node, list):
                return [bare(x) for x in node]
            return node

        d = bare(d)
    if r == "yamlMixedKeys":
        # every OTHER number-like key of each mapping is written bare, its neighbours stay quoted strings: `200:` next to `'404':`
        def mixed(node):
            if isinstance(node, dict):
                out, n = {}, 0
                for k, v in node.items():
                    if isinstance(k, str) and k.isdigit() and str(int(k)) == k:
                        n += 1
                        out[int(k) if n % 2 else k] = mixed(v)
                    else:
                        out[k] = mixed(v)
                return out
            if isinstance(node, list):
                return [mixed(x) for x in node]
            return node

        d = mixed(d)
    txt = yaml.safe_dump(d, sort_keys=False, default_flow_style=(r == "yamlFlow"), width=100000)
    if r == "yamlCapBool":
        # YAML 1.1 booleans may be written True / False / TRUE / FALSE: same meaning
        import re as _re

        txt = _re.sub(r"(:\s)true(\s*$)", r"\1True\2", txt, flags=_re.M)
        txt = _re.sub(r"(:\s)false(\s*$)", r"\1False\2", txt, flags=_re.M)
        assert yaml.safe_load(txt) == yaml.safe_load(yaml.safe_dump(d, sort_keys=False)), "capitalised booleans changed the document"
    return txt, "yaml"


def _canon_ann(text: str) -> str:
    """Order of the entries of a discriminator mapping inside an annotation's metadata follows the document's key order:
    that is ordering, not meaning - sort the pairs before comparing."""
    import re as _re

    def fix(m):
        pairs = _re.findall(r"\('([^']*)', '([^']*)'\)", m.group(1))
        return "_mapping_data=(" + ", ".join(f"('{a}', '{b}')" for a, b in sorted(pairs)) + ")"

    return _re.sub(r"_mapping_data=\(((?:\('[^']*', '[^']*'\),? ?)*)\)", fix, text)


def manifest(o: dict) -> dict:
    models = {}
    for c in o["models"]["classes"]:
        if c["kind"] == "dataclass":
            models[c["cls"]] = sorted(json.dumps([f["wire"], f["required"], f["kind"]]) for f in c["fields"])
        elif c["kind"] == "enum":
            models[c["cls"]] = sorted(json.dumps(m) for m in c["members"])
        else:
            models[c["cls"]] = ["class"]
    for a in o["models"]["aliases"]:
        models[a["name"]] = [json.dumps(a["kind"])]
    ops = {}
    for c in o["surface"]["clients"]:
        ops[c["cls"]] = {m: _canon_ann(json.dumps([v["sig"], v["ret"], v["nature"]])) for m, v in c["methods"].items()}
    return {"models": models, "ops": ops}


def tree_hash(root: str, pkg: str) -> str:
    d = Path(root).joinpath(*pkg.split("."))
    h = hashlib.sha256()
    for p in sorted(d.rglob("*")):
        if p.is_file() and "__pycache__" not in p.parts:
            # package names differ between the two runs: neutralise the package name inside file text
            h.update(str(p.relative_to(d)).encode())
            h.update(p.read_bytes().replace(pkg.split(".")[0].encode(), b"PKG"))
    return h.hexdigest()


def run(chk: Check) -> None:
    thorough = chk.tier == "thorough"
    cfg = f"SPECIFICATION Spec\nCONSTANTS\n Renderings = {tla({'json', 'jsonSorted', 'yamlBlock', 'yamlFlow', 'yamlBareKeys', 'yamlMixedKeys', 'yamlCapBool'})}\n Perms = {tla({'id', 'rev', 'rot'})}\nCHECK_DEADLOCK FALSE\n"
    r = run_tlc(chk.scratch, "Render", cfg, workers=4)
    chk.add_tlc("Render", r)
    variants = sorted(r.printed.get("SCEN", []), key=lambda v: json.dumps(v, sort_keys=True))
    chk.require(len(variants) > 5, "Render emitted too few variants")
    if not thorough:
        variants = [v for v in variants if v["pure"] or v["variant"]["rendering"] in ("json", "yamlBlock") and "rot" not in v["variant"].values()]
    must = ["pathlevel_only", "shared_param_inline", "nullable", "params_everywhere", "disc_numeric_keys", "numeric_prop_keys", "case_variant_schemas"]  # path-level parameters, shared component parameters, booleans
    docs: list[tuple[str, dict]] = [(f"feat:{f}", features.build([f])) for f in (FEATS if thorough else sorted(set(FEATS[::2]) | set(must)))]
    docs.append(("feat:mix", features.build(FEATS[:8])))
    kinds = ["ref", "arr", "inline", "map", "oneOf", "allOf"]
    for names in (["A", "B"], ["User", "UserGroup"]):
        gd = gen_graphs(chk, names, kinds, 2, orders="one")
        step = 1 if thorough else 17
        picked = list(gd[::step])
        if not thorough and names == ["A", "B"]:
            # order-dependence lives where a self-referential schema is first reached THROUGH another schema: always in the quick family
            picked += [d for d in gd if d not in picked and len(d["edges"]) == 2 and any(e["from"] == e["to"] for e in d["edges"]) and any(e["from"] != e["to"] and any(x["from"] == x["to"] == e["to"] for x in d["edges"]) for e in d["edges"])]
        for j, d in enumerate(picked):
            shape = "|".join(f"{e['from']}-{e['kind']}>{e['to']}" for e in d["edges"]) + "@" + ",".join(d["order"])
            docs.append((f"graph:{'+'.join(names)}:{j}:{shape}" + ("" if d in gd[::step] else ":order"), concretise.graph_doc(d, use_all=True)))
    chk.cov["documents"] = len(docs)
    chk.cov["variants"] = len(variants)
    chk.cov["rule"] = (
        "documents = collision-free single-feature documents + a feature mix + schema graphs (Docs.tla family) over {A,B} and {User,UserGroup}; variants from Render.tla "
        "(4 renderings x permutations of schemas / paths / properties, one dimension at a time + all-permuted), each compared with the JSON / declared-order reference; "
        "non-trivial = distinct (document, variant) pair"
    )
    chk.assumptions += ["manifests are compared after import + introspection; for pure re-renderings additionally sha256 of the file tree with the package name neutralised", "pyyaml's safe_dump is the YAML renderer (block, flow, bare integer status keys)"]
    root = chk.scratch.sub("render")
    jobs = []
    ref_variant = {"rendering": "json", "schemas": "id", "paths": "id", "props": "id", "pathitem": "id"}
    n = 0
    plan = []
    for di, (dname, spec) in enumerate(docs):
        for vi, v in enumerate([{"variant": ref_variant, "pure": True}] + variants):
            if dname.endswith(":order") and vi > 0 and v["variant"]["schemas"] == "id":
                continue  # documents added for their declaration-order sensitivity meet the schema permutations only
            txt, ext = render(spec, v["variant"])
            jid = f"d{di}v{vi}"
            jobs.append({"id": jid, "root": str(root), "spec_text": txt, "ext": ext, "pkg": f"r{n}.client", "force": True, "nopp": True})
            plan.append((jid, di, vi, v))
            n += 1
    gres = {j["id"]: g for j, g in zip(jobs, core.parallel_py(chk.scratch, "harness.w_gen", jobs))}
    ojobs = [{"id": j["id"], "root": j["root"], "pkg": j["pkg"], "want": ["import", "models", "surface"]} for j in jobs if gres[j["id"]]["ok"]]
    ores = {r["id"]: r for r in core.parallel_py(chk.scratch, "harness.w_obs", ojobs, env={"VERIF_OBS_EXTRA": "harness.obs_wire"})}
    pk = {j["id"]: j["pkg"] for j in jobs}

    def observed(jid: str):
        g = gres[jid]
        if not g["ok"]:
            return None
        o = ores[jid]
        # the manifest needs the models and the client; a broken mocks package is C01's business
        if not all(m["ok"] for m in o["import"] if ".mocks" not in m["m"]):
            return "unimportable"
        for w in ("surface", "models"):
            if "observer_error" in (o.get(w) or {}):
                raise core.MachineryError(f"observer {w} crashed on an importable package {jid}: {o[w]}")
        return manifest(o)

    traces = []
    meta = {}
    for jid, di, vi, v in plan:
        if vi == 0:
            continue
        ref_id = f"d{di}v0"
        a, b = observed(ref_id), observed(jid)
        if a == "unimportable" or b == "unimportable":
            chk.cov["unimportable_skipped"] = chk.cov.get("unimportable_skipped", 0) + 1
            continue
        acc_a, acc_b = a is not None, b is not None
        t = {"id": jid, "variant": v["variant"], "pure": v["pure"], "accepted_a": acc_a, "accepted_b": acc_b, "same_models": True, "same_fields": True, "same_ops": True, "same_sigs": True, "same_bytes": True,
             "permuted": "sorted" if v["variant"]["rendering"] == "jsonSorted" else ("+".join(k for k in ("schemas", "paths", "props", "pathitem") if v["variant"][k] != "id") or "none")}
        if acc_a and acc_b:
            t["same_models"] = set(a["models"]) == set(b["models"])
            t["same_fields"] = all(a["models"][k] == b["models"].get(k) for k in a["models"] if k in b["models"])
            opsa = {(c, m) for c, ms in a["ops"].items() for m in ms}
            opsb = {(c, m) for c, ms in b["ops"].items() for m in ms}
            t["same_ops"] = opsa == opsb
            t["same_sigs"] = all(a["ops"][c][m] == b["ops"][c][m] for (c, m) in opsa & opsb)
            if v["pure"]:
                t["same_bytes"] = tree_hash(str(root), pk[ref_id]) == tree_hash(str(root), pk[jid])
        traces.append(t)
        meta[jid] = (docs[di][0], v, a, b)
    d = chk.scratch.sub("render_traces")
    tf = d / "t.ndjson"
    with tf.open("w") as f:
        for t in traces:
            f.write(json.dumps(t) + "\n")
    r = run_tlc(chk.scratch, "Trace_Render", "SPECIFICATION Spec\nCHECK_DEADLOCK FALSE\n", workers=8, env={"TRACE_FILE": str(tf)})
    chk.add_tlc("Trace_Render", r)
    vs = r.printed.get("VERDICT", [])
    chk.require(len(vs) == len(traces), "Trace_Render verdict count mismatch")
    chk.cov["traces_validated_against_impl"] += len(traces)
    for v in vs:
        dname, var, a, b = meta[v["id"]]
        chk.count()
        chk.nontrivial({"doc": dname, "v": var["variant"]})
        if v["clause"] != "ok":
            loc = dict(v["locus"])
            loc["family"] = dname.split(":")[0]
            if loc["family"] == "graph":
                loc["shape"] = dname.split(":")[3]   # the document itself (edges @ declaration order): known order-dependences are listed per shape
            if var["variant"]["rendering"] in ("yamlBareKeys", "yamlMixedKeys"):
                # which kind of key was written bare in this document (observation of the DOCUMENT, plain inspection)
                loc["bare_key_kinds"] = "+".join(sorted(k for k, has in (("property", dname == "feat:numeric_prop_keys"), ("discriminator_value", dname == "feat:disc_numeric_keys")) if has)) or "status"
            detail = ""
            if isinstance(a, dict) and isinstance(b, dict):
                dm = sorted(set(a["models"]) ^ set(b["models"]))[:4]
                df = sorted(k for k in a["models"] if k in b["models"] and a["models"][k] != b["models"][k])[:4]
                # was a differing model emptied on one side (cycle placeholder took its place)? - observation-derived cause
                loc["emptied_model"] = any((a["models"][k] == []) != (b["models"][k] == []) for k in df) or any((a["models"][k] == [] or b["models"][k] == []) for k in df)
                detail = f"models only on one side: {dm}; models with different fields: {df}; ops a={sum(len(x) for x in a['ops'].values())} b={sum(len(x) for x in b['ops'].values())}"
            chk.fail(v["clause"], loc, {"doc": dname, "variant": var["variant"]}, detail)
    chk.sample({"doc": docs[0][0], "variant": variants[0]["variant"], "reference": ref_variant})
    chk.cov["exhaustive"] = False


def replay(chk: Check, path: str) -> None:
    raise core.MachineryError("C19 replays are re-run by the full check (document families are regenerated by TLC)")
