"""Worker for C20: calls the name derivations that are ON THE GENERATION PATH of the tree under test.

Which functions those are was decided by reading the emitters / visitors (docs/C20_NOTES.md lists the call sites):

  class         NameSanitizer.sanitize_class_name(x)                  tags (EndpointsEmitter.emit, ClientVisitor), promoted names
  class_ir      sanitize_class_name(IRSchema(name=x).name)            schema -> class: IRSchema.__post_init__ then ModelsEmitter.emit
  model_module  sanitize_module_name(IRSchema(name=x).name)           schema -> module stem (ModelsEmitter.emit)
  tag_module    sanitize_module_name(tag)                             endpoints/<stem>.py AND the APIClient attribute (ClientVisitor)
  tag_class     sanitize_class_name(tag) + "Client"                   client class
  method        sanitize_method_name(operationId)                     EndpointsEmitter / signature_generator
  param         sanitize_method_name(sanitize_method_name(name))      parameter_processor then signature_generator (applied twice)
  field         sanitize_method_name(property key)                    DataclassGenerator.generate
  enum_str      EnumGenerator._generate_member_name_for_string_enum   EnumGenerator.generate
  enum_int      EnumGenerator._generate_member_name_for_integer_enum  EnumGenerator.generate (value, int(value) or 0)

NameSanitizer.sanitize_tag_class_name / sanitize_tag_attr_name / sanitize_filename are NOT called by anything that is
emitted (grep over src/), so they are not judged.

stdin: JSON list of jobs
  {"id", "k": "derive", "inputs": [[code points], ...]}  -> {"id", "kinds": [...], "out": [[[st, [code points]] per kind] per input]}
      st = "ok" | "raised" (the derivation failed visibly) | "na" (this derivation is not reached for this input)
  {"id", "k": "validate", "docs": [openapi dict, ...]}   -> {"id", "valid": [bool, ...], "errs": [str, ...]}
"""

from __future__ import annotations

import json
import logging
import sys

from harness import core

core.install_tree_under_test()
logging.disable(logging.CRITICAL)

KINDS = ["class", "class_ir", "model_module", "tag_module", "tag_class", "method", "param", "field", "enum_str", "enum_int"]


def derivations():
    from pyopenapi_gen import IRSchema
    from pyopenapi_gen.core.utils import NameSanitizer as N
    from pyopenapi_gen.core.writers.python_construct_renderer import PythonConstructRenderer
    from pyopenapi_gen.visit.model.enum_generator import EnumGenerator

    eg = EnumGenerator(PythonConstructRenderer())

    class NotReached(Exception):
        pass

    def ir_name(x: str) -> str:
        n = IRSchema(name=x).name
        if not n or not n.strip():
            raise NotReached()  # ModelsEmitter.should_generate_file: schemas without a name get no class / module
        return n

    def as_int(x: str) -> int:
        try:
            return int(x)
        except (ValueError, TypeError):
            return 0  # EnumGenerator.generate's fallback

    fns = {
        "class": lambda x: N.sanitize_class_name(x),
        "class_ir": lambda x: N.sanitize_class_name(ir_name(x)),
        "model_module": lambda x: N.sanitize_module_name(ir_name(x)),
        "tag_module": lambda x: N.sanitize_module_name(x),
        "tag_class": lambda x: N.sanitize_class_name(x) + "Client",
        "method": lambda x: N.sanitize_method_name(x),
        "param": lambda x: N.sanitize_method_name(N.sanitize_method_name(x)),
        "field": lambda x: N.sanitize_method_name(x),
        "enum_str": lambda x: eg._generate_member_name_for_string_enum(x),
        "enum_int": lambda x: eg._generate_member_name_for_integer_enum(x, as_int(x)),
    }
    return fns, NotReached


def run_derive(job: dict) -> dict:
    fns, NotReached = derivations()
    out = []
    for cps in job["inputs"]:
        x = "".join(chr(c) for c in cps)
        row = []
        for k in KINDS:
            try:
                o = fns[k](x)
                if not isinstance(o, str):
                    row.append(["raised", []])
                else:
                    row.append(["ok", [ord(c) for c in o]])
            except NotReached:
                row.append(["na", []])
            except Exception:  # noqa: BLE001 - a derivation that raises fails visibly
                row.append(["raised", []])
        out.append(row)
    return {"id": job["id"], "kinds": KINDS, "out": out}


def run_validate(job: dict) -> dict:
    from openapi_spec_validator import validate

    valid, errs = [], []
    for d in job["docs"]:
        try:
            validate(d)
            valid.append(True)
            errs.append("")
        except Exception as e:  # noqa: BLE001
            valid.append(False)
            errs.append(f"{type(e).__name__}: {str(e)[:160]}")
    return {"id": job["id"], "valid": valid, "errs": errs}


def main() -> None:
    jobs = json.load(sys.stdin)
    for job in jobs:
        r = run_validate(job) if job.get("k") == "validate" else run_derive(job)
        print(json.dumps(r), flush=True)


if __name__ == "__main__":
    main()
