"""X01 (beyond the listed properties) - pagination helper: Pagination.tla model-checked (safety + liveness under WF), every
server of the bounded family replayed on the real paginate_by_next and compared with the specification's expected
requests and items."""

from __future__ import annotations

import json

from . import core
from .core import Check, run_tlc, tla

LEVEL = "model_checking"


def run(chk: Check) -> None:
    consts = f"CONSTANTS\n Tokens = {tla({'t1', 't2'})}\n Falsy = {tla({'absent', 'none', 'empty', 'zero'})}\n ItemSets <- MCItemSets\n MaxSteps = 4\n"
    mc = lambda base: f"---- MODULE MC_{base} ----\nEXTENDS {base}\nMCItemSets == {{<<>>, <<\"a\">>, <<\"b\", \"c\">>}}\n====\n"  # noqa: E731
    r = run_tlc(chk.scratch, "MC_Pagination", "SPECIFICATION Spec\n" + consts + "INVARIANT RequestsFollowChain\nINVARIANT ItemsInOrder\nINVARIANT DoneMeansComplete\nINVARIANT NoTerminationOnCycle\nPROPERTY Terminates\nCHECK_DEADLOCK FALSE\n", workers=8, coverage=True, timeout=600, files={"MC_Pagination.tla": mc("Pagination")})
    chk.add_tlc("Pagination[design]", r)
    for a in ("Fetch", "Yield", "Advance"):
        chk.require(r.coverage.get(a, (0, 0))[1] > 0, f"vacuous Pagination run: {a}")
    g = run_tlc(chk.scratch, "MC_Gen_Pagination", "SPECIFICATION GSpec\n" + consts + "CHECK_DEADLOCK FALSE\n", workers=8, files={"MC_Gen_Pagination.tla": mc("Gen_Pagination")})
    chk.add_tlc("Gen_Pagination", g)
    scen = sorted(g.printed.get("SCEN", []), key=lambda s: json.dumps(s, sort_keys=True))
    chk.require(len(scen) > 100, "Gen_Pagination emitted too few servers")
    jobs = [{"id": f"s{i}", "server": s["server"], "max_steps": 4} for i, s in enumerate(scen)]
    res = core.parallel_py(chk.scratch, "harness.w_paginate", jobs)
    for s, o in zip(scen, res):
        chk.count()
        chk.nontrivial({"s": s["server"]})
        if o["reqs"] != s["reqs"]:
            chk.fail("X01.requests", {"acyclic": s["acyclic"]}, s, json.dumps(o))
        elif o["items"][: len(s["items"])] != s["items"][: len(o["items"])] or (s["acyclic"] and o["items"] != s["items"]):
            chk.fail("X01.items", {"acyclic": s["acyclic"]}, s, json.dumps(o))
        elif s["acyclic"] != o["ended"]:
            chk.fail("X01.termination", {"acyclic": s["acyclic"]}, s, json.dumps(o))
    chk.cov["traces_validated_against_impl"] += len(scen)
    chk.cov["rule"] = "every server over tokens {NOTOK,t1,t2} -> page(items in {[], [a], [b,c]}, next in {t1,t2,absent,None,'',0}); cyclic servers bounded at 4 fetches"
    chk.sample({"server": scen[len(scen) // 2]["server"], "expected": scen[len(scen) // 2]["items"]})
    chk.cov["exhaustive"] = True


def replay(chk: Check, path: str) -> None:
    raise core.MachineryError("re-run ./check X01")
