"""C11 - clients sharing one core package keep working as more are generated.

(A) SharedCore.tla model-checked by TLC (3 clients, every subset of {404,409,500}, force, core depth 0..4,
    histories <= 4): mechanism invariants must hold; `Served` / `NeverShrinksNeeded` are evaluated per core depth
    with allow_violation - a counterexample is the specification-level statement of a defect (-> findings).
(B) Gen_SharedCore.tla: TLC dumps the TREE of all histories (every node = history + the specification's state).
    Every edge of the tree is replayed with one REAL generate_client call into a sandbox project (w_sharedcore);
    after every call a fresh interpreter without the generator imports every client generated so far and resolves
    every name it takes from the core package.
(C) the projected real state (registry, alias classes, per-client needs) is compared with the specification's
    successor state (disagreement = DRIFT) and every step is judged by the total monitor Trace_SharedCore.tla
    (clauses C11.client_import_broken, C11.alias_missing, C11.registry_lost_client).
"""

from __future__ import annotations

import json
import re
from typing import Any

from . import core, tlaval
from .core import Check, run_tlc, tla
from .w_sharedcore import abstract_paths, packages

LEVEL = "model_checking"

NAME2CODE = {"NotFoundError": 404, "ConflictError": 409, "InternalServerError": 500}
ALL_CLIENTS = ["c1", "c2", "c3"]
ENV_KINDS = ["conflict", "empty", "truncated", "bom", "list", "reg-deleted", "aliases-deleted", "aliases-emptied", "int-registry", "int-aliases"]


def lid(depth: int, lay: str) -> str:
    return f"d{depth}.{lay}"


def families(tier: str) -> list[dict[str, Any]]:
    """The history families replayed with real generations; "layouts" = (core depth, layout, max history length).
    A: long histories, code sets with inclusion and disjointness, unrelated names;
    B: the other layouts (incl. unrelated branch, core depth 4), with the empty code set, unrelated names;
    C1/C2: PREFIX-RELATED names (one package name a string prefix of another without being its parent) - the
    specification treats names as atoms, so the same trees must behave the same under these spellings."""
    S1, S2, S3 = [[404], [404, 409], [500]], [[], [404], [409, 500]], [[404], [500]]
    # E: histories with ONE environment step (the world corrupts / deletes the registry or the alias file, or a run is
    # killed in the middle) after every env-free prefix, the kind rotated over the prefixes, followed by generator steps
    if tier == "quick":
        return [
            {"name": "E", "naming": "plain", "clients": ["c1", "c2"], "codesets": S3, "canon": False, "split": 1,
             "layouts": [(1, "sib", 3)], "maxenv": 1, "envkinds": ENV_KINDS, "rot_width": 1, "gens_after_env": 1},
            {"name": "A", "naming": "plain", "clients": ["c1", "c2"], "codesets": S1, "canon": False, "split": 1,
             "layouts": [(1, "api", 3), (3, "sib", 3), (2, "sib", 2), (0, "sib", 2)]},
            {"name": "B", "naming": "plain", "clients": ["c1", "c2"], "codesets": S2, "canon": False, "split": 1,
             "layouts": [(0, "api", 2), (1, "sib", 2), (2, "api", 2), (2, "far", 2), (3, "api", 2), (4, "api", 2)]},
            {"name": "C1", "naming": "n1", "clients": ["c1", "c2"], "codesets": S3, "canon": False, "split": 1,
             "layouts": [(0, "sib", 2), (1, "sib", 2), (1, "api", 2), (2, "sib", 2), (2, "far", 2), (3, "sib", 2)]},
            {"name": "C2", "naming": "n2", "clients": ["c1", "c2"], "codesets": S3, "canon": False, "split": 1,
             "layouts": [(1, "sib", 2), (1, "api", 2), (2, "sib", 2), (3, "api", 2)]},
        ]
    return [
        {"name": "E", "naming": "plain", "clients": ["c1", "c2"], "codesets": S1, "canon": False, "split": 1,
         "layouts": [(1, "sib", 3), (2, "far", 3), (3, "api", 3)], "maxenv": 1, "envkinds": ENV_KINDS, "rot_width": 3, "gens_after_env": 1},
        {"name": "E1", "naming": "n1", "clients": ["c1", "c2"], "codesets": S3, "canon": False, "split": 1,
         "layouts": [(1, "sib", 3), (2, "sib", 3)], "maxenv": 1, "envkinds": ENV_KINDS, "rot_width": 2, "gens_after_env": 2},
        {"name": "A", "naming": "plain", "clients": ALL_CLIENTS, "codesets": S1, "canon": True, "split": 2,
         "layouts": [(1, "api", 4), (3, "sib", 4), (2, "sib", 3), (0, "sib", 3)]},
        {"name": "B", "naming": "plain", "clients": ["c1", "c2"], "codesets": S2, "canon": False, "split": 1,
         "layouts": [(0, "api", 2), (1, "sib", 3), (2, "api", 2), (2, "far", 3), (3, "api", 2), (4, "api", 3)]},
        {"name": "C1", "naming": "n1", "clients": ALL_CLIENTS, "codesets": S3, "canon": False, "split": 1,
         "layouts": [(0, "sib", 2), (1, "sib", 3), (1, "api", 2), (2, "sib", 3), (2, "far", 2), (3, "sib", 2)]},
        {"name": "C2", "naming": "n2", "clients": ALL_CLIENTS, "codesets": S3, "canon": False, "split": 1,
         "layouts": [(1, "sib", 3), (1, "api", 2), (2, "sib", 2), (3, "api", 2)]},
    ]


def layout_tla(depth: int, lay: str, clients: list[str]) -> str:
    """The layout as SharedCore.tla sees it: package PATHS over abstract name atoms."""
    return tla({"id": lid(depth, lay), "depth": depth, "core": abstract_paths("c1", depth, lay)[1], "pkg": {c: abstract_paths(c, depth, lay)[0] for c in clients}})


def names_relation(clients: list[str], depth: int, lay: str, naming: str) -> str:
    """Observed spelling of the packages in play (plain string facts about the dotted names, nothing of the generator):
    core-name-is-client-suffix: a client package ends with "." + the full core package name (`api_v2.api` with core `api`);
    prefix-related: one package name is a string prefix of another without being its parent (`shop` / `shop_core`);
    unrelated: neither."""
    names = set()
    suffix = False
    for c in clients:
        pkg, core = packages(c, depth, lay, naming)
        names.add(pkg)
        names.add(core or pkg + ".core")
        if core and pkg.endswith("." + core):
            suffix = True
    if suffix:
        return "core-name-is-client-suffix"
    for x in names:
        for y in names:
            if x != y and y.startswith(x) and not y.startswith(x + "."):
                return "prefix-related"
    return "unrelated"


# ---------------------------------------------------------------------------------------------
# (A) design model checking


DESIGN_LAYOUTS = [(0, "sib"), (1, "sib"), (1, "api"), (2, "far"), (3, "sib"), (4, "api")]


ENV_DESIGN_LAYOUTS = [(1, "sib"), (2, "far")]
ENV_DESIGN_CLIENTS = ["c1", "c2"]


def design_configs() -> list[dict[str, Any]]:
    """(a) no interference: 3 clients, every code set, 6 layouts, histories <= 4; Served / NeverShrinksNeeded per layout.
    (b) with ONE environment step anywhere in a history of <= 3 generations (2 clients, 4 code sets, 2 layouts):
        KeepsWorking per kind of environment step.  One named formula per layout / kind, so that TLC can tell where."""
    a_lines = ["---- MODULE MC_SharedCore ----", "EXTENDS SharedCore", "MCCodeSets == SUBSET {404, 409, 500}", "MCEnvKinds == {}"]
    a_lines.append("MCLayouts == {" + ",\n  ".join(layout_tla(d, lay, ALL_CLIENTS) for d, lay in DESIGN_LAYOUTS) + "}")
    a_formulas = {}
    for i, (d, lay) in enumerate(DESIGN_LAYOUTS):
        a_lines.append(f'Served_{i} == layout.id = "{lid(d, lay)}" => Served')
        a_lines.append(f'NeverShrinksNeeded_{i} == [][layout.id = "{lid(d, lay)}" => NeverShrinksNeededStep]_vars')
        a_formulas[f"Served_{i}"] = ("INVARIANT", "Served", {"core_depth": d, "layout": lay, "env": "none", "level": "design"})
        a_formulas[f"NeverShrinksNeeded_{i}"] = ("PROPERTY", "NeverShrinksNeeded", {"core_depth": d, "layout": lay, "env": "none", "level": "design"})
    a_lines.append("====")
    b_lines = ["---- MODULE MC_SharedCoreEnv ----", "EXTENDS SharedCore", "MCCodeSets == {{}, {404}, {404, 409}, {500}}",
               "MCEnvKinds == " + tla(set(ENV_KINDS))]
    b_lines.append("MCLayouts == {" + ",\n  ".join(layout_tla(d, lay, ENV_DESIGN_CLIENTS) for d, lay in ENV_DESIGN_LAYOUTS) + "}")
    b_formulas = {}
    for i, k in enumerate(ENV_KINDS):
        b_lines.append(f'KeepsWorking_{i} == [][(IsGenStep /\\ envkind = "{k}") => KeepsWorkingStep]_vars')
        b_formulas[f"KeepsWorking_{i}"] = ("PROPERTY", "KeepsWorking", {"env": k, "level": "design"})
    b_lines.append("====")
    return [
        {"module": "MC_SharedCore", "text": "\n".join(a_lines) + "\n", "clients": ALL_CLIENTS, "maxlen": 4, "maxenv": 0, "formulas": a_formulas, "min_states": 1000},
        {"module": "MC_SharedCoreEnv", "text": "\n".join(b_lines) + "\n", "clients": ENV_DESIGN_CLIENTS, "maxlen": 3, "maxenv": 1, "formulas": b_formulas, "min_states": 1000},
    ]


def mc_cfg(cfg: dict[str, Any], formulas: list[str]) -> str:
    lines = [
        "SPECIFICATION Spec",
        "CONSTANTS",
        f" Clients = {tla(set(cfg['clients']))}",
        " CodeSets <- MCCodeSets",
        " Layouts <- MCLayouts",
        " EnvKinds <- MCEnvKinds",
        f" MaxLen = {cfg['maxlen']}",
        f" MaxEnv = {cfg['maxenv']}",
        "INVARIANT TypeOK",
        "INVARIANT LayoutOK",
        "INVARIANT RegistryKeepsClients",
        "INVARIANT AliasesAreUnion",
    ]
    lines += [f"{cfg['formulas'][f][0]} {f}" for f in formulas]
    lines.append("CHECK_DEADLOCK FALSE")
    return "\n".join(lines) + "\n"


_CEX = re.compile(r"^State \d+: <((?:Generate|Corrupt|Interrupted)\(.*?\)) line", re.M)


def design(chk: Check) -> None:
    """Model-check SharedCore.tla.  The mechanism invariants must hold (else machinery failure: the model is wrong);
    the C11 formulas are evaluated per layout / per kind of environment step: every one TLC refutes is recorded as a
    design-level failure (its counterexample is the specification-level statement of the defect), removed, and TLC is
    run again until the remaining formulas hold on the complete state space."""
    holding = []
    for cfg in design_configs():
        files = {cfg["module"] + ".tla": cfg["text"]}
        todo = list(cfg["formulas"])
        while True:
            r = run_tlc(chk.scratch, cfg["module"], mc_cfg(cfg, todo), files=files, workers=1, coverage=True, allow_violation=True)
            chk.add_tlc(f"{cfg['module']}[{len(todo)} C11 formulas + mechanism invariants]", r)
            if not r.violated:
                break
            bad = r.violated[0]
            chk.require(bad in todo, f"the design model breaks its own mechanism invariant {bad!r}:\n{r.out[-1500:]}")
            _kind, name, locus = cfg["formulas"][bad]
            cex = _CEX.findall(r.out)
            chk.fail(
                f"C11.design.{name}",
                dict(locus),
                {"level": "design", "module": "SharedCore", "property": name, **{k: v for k, v in locus.items() if k != "level"}, "counterexample": cex},
                "TLC counterexample of the implementation-shaped model: " + " ; ".join(cex),
            )
            chk.sample({"kind": "design counterexample", "property": name, "locus": locus, "behaviour": cex}, cap=8)
            todo.remove(bad)
        chk.clause("C11.design", len(todo))
        holding += [f"{cfg['formulas'][t][1]}[{' '.join(f'{k}={v}' for k, v in cfg['formulas'][t][2].items() if k != 'level')}]" for t in todo]
        chk.require(r.coverage.get("Generate", (0, 0))[1] > 0, "vacuous design run: Generate never taken")
        if cfg["maxenv"]:
            for act in ("Corrupt", "Interrupted"):
                chk.require(r.coverage.get(act, (0, 0))[1] > 0, f"vacuous design run: {act} never taken")
        chk.require(r.distinct > cfg["min_states"], f"design state space unexpectedly small ({r.distinct})")
    chk.cov["design_formulas_holding"] = holding


# ---------------------------------------------------------------------------------------------
# (B) the history tree


def gen_tree(chk: Check, fam: dict[str, Any]) -> list[dict[str, Any]]:
    """-> nodes [{depth, hist: [[c, [codes], force], ...], state: {...}}] (root nodes included, hist = [])"""
    mod = f"""---- MODULE MC_GenSharedCore ----
EXTENDS Gen_SharedCore
MCOrder == {tla(fam['clients'])}
MCCodeSets == {{{", ".join(tla(set(cs)) if cs else "{}" for cs in fam['codesets'])}}}
MCLayouts == {{{", ".join(layout_tla(d, lay, fam['clients']) for d, lay, _ in fam['layouts'])}}}
MCEnvKinds == {tla(set(fam.get('envkinds', []))) if fam.get('envkinds') else "{}"}
====
"""
    cfg = f"""INIT GInit
NEXT GNext
CONSTANTS
 Clients = {tla(set(fam['clients']))}
 Order <- MCOrder
 Canon = {tla(bool(fam['canon']))}
 CodeSets <- MCCodeSets
 Layouts <- MCLayouts
 EnvKinds <- MCEnvKinds
 MaxLen = {max(m for _, _, m in fam['layouts'])}
 MaxEnv = {fam.get('maxenv', 0)}
CHECK_DEADLOCK FALSE
"""
    r = run_tlc(chk.scratch, "MC_GenSharedCore", cfg, files={"MC_GenSharedCore.tla": mod}, workers=8, coverage=True, extra=["-dump", "dot,actionlabels", "graph.dot"])
    chk.add_tlc(f"Gen_SharedCore[{fam['name']}:{len(fam['clients'])} clients,{len(fam['layouts'])} layouts,<={max(m for _, _, m in fam['layouts'])}]", r)
    nodes, _edges, _init = tlaval.parse_dot((r.workdir / "graph.dot").read_text())
    chk.require(len(nodes) == r.distinct, f"dump has {len(nodes)} nodes, TLC found {r.distinct} states")
    out = []
    maxlen = {lid(d, lay): m for d, lay, m in fam["layouts"]}
    layof = {lid(d, lay): (d, lay) for d, lay, _ in fam["layouts"]}
    for st in nodes.values():
        hist = [[h["c"], sorted(h["codes"]), bool(h["force"])] + ([] if h["env"] == "gen" else [h["env"]]) for h in st["hist"]]
        L = st["layout"]["id"]
        if sum(1 for h in hist if len(h) == 3) > maxlen[L]:
            continue
        reg = st["registry"]
        out.append(
            {
                "lid": L,
                "depth": layof[L][0],
                "lay": layof[L][1],
                "hist": hist,
                "state": {
                    "generated": sorted(st["generated"]),
                    "needs": {c: sorted(v) for c, v in st["needs"].items()},
                    "registry": {c: sorted(v) for c, v in reg.items()} if isinstance(reg, dict) else {},
                    "aliases": sorted(st["aliases"]),
                    "priv": {c: sorted(v) for c, v in st["priv"].items()},
                    "regstate": st["regstate"],
                },
            }
        )
    out.sort(key=lambda n: (n["lid"], len(n["hist"]), json.dumps(n["hist"])))
    if fam.get("maxenv") and not fam.get("norotate"):
        out = rotate_env(fam, out)
    chk.require(sum(1 for n in out if n["hist"]) > 0, "history tree is empty")
    return out


def rotate_env(fam: dict[str, Any], nodes: list[dict[str, Any]]) -> list[dict[str, Any]]:
    """Stratified selection from the tree with environment steps: every env-free prefix (shorter than the longest
    history) is kept; after the i-th prefix of a layout `rot_width` kinds of environment step are taken, rotating
    through ENV kinds (the next enabled kind when one is not enabled there), each followed by <= gens_after_env
    generator steps.  Deterministic; no knowledge of what the code does enters the selection."""
    kinds = fam["envkinds"]
    keep: list[dict[str, Any]] = []
    bylay: dict[str, list[dict[str, Any]]] = {}
    for n in nodes:
        bylay.setdefault(n["lid"], []).append(n)
    for L, ns in bylay.items():
        maxlen = {lid(d, lay): m for d, lay, m in fam["layouts"]}[L]
        envfree = [n for n in ns if all(len(h) == 3 for h in n["hist"])]
        prefixes = sorted((n for n in envfree if 1 <= len(n["hist"]) < maxlen), key=lambda n: json.dumps(n["hist"]))
        keep += [n for n in envfree if len(n["hist"]) < maxlen]
        children: dict[str, list[dict[str, Any]]] = {}
        for n in ns:
            envpos = [i for i, h in enumerate(n["hist"]) if len(h) == 4]
            if envpos:
                children.setdefault(json.dumps(n["hist"][: envpos[0]]), []).append(n)
        for i, p in enumerate(prefixes):
            sub = children.get(json.dumps(p["hist"]), [])
            plen = len(p["hist"])
            first = sorted((n for n in sub if len(n["hist"]) == plen + 1), key=lambda n: json.dumps(n["hist"]))
            chosen: list[str] = []
            for w in range(fam["rot_width"]):
                for j in range(len(kinds)):
                    k = kinds[(i * fam["rot_width"] + w + j) % len(kinds)]
                    cands = [n for n in first if n["hist"][-1][3] == k and json.dumps(n["hist"]) not in chosen]
                    if cands:
                        chosen.append(json.dumps(cands[(i // len(kinds)) % len(cands)]["hist"]))
                        break
            for c in chosen:
                ch = json.loads(c)
                keep += [n for n in sub if n["hist"][: plen + 1] == ch and len(n["hist"]) <= plen + 1 + fam["gens_after_env"]]
    keep.sort(key=lambda n: (n["lid"], len(n["hist"]), json.dumps(n["hist"])))
    return keep


def hkey(fam: str, layout_id: str, hist: list) -> str:
    return f"{fam}|{layout_id}|{json.dumps(hist)}"


def make_jobs(chk: Check, fam: dict[str, Any], nodes: list[dict[str, Any]], spawn_every: int) -> list[dict[str, Any]]:
    groups: dict[tuple, list] = {}
    L = fam["split"]
    for n in nodes:
        h = n["hist"]
        if not h:
            continue
        key = (n["depth"], n["lay"], json.dumps(h[:L]))
        groups.setdefault(key, []).append(h)
    jobs = []
    for (d, lay, pre), hs in sorted(groups.items(), key=lambda kv: (-len(kv[1]), kv[0])):
        jid = f"{fam['name']}.{lid(d, lay)}.{len(jobs)}"
        jobs.append(
            {
                "id": jid,
                "root": str(chk.scratch.path / "c11" / jid),
                "depth": d,
                "layout": lay,
                "lid": lid(d, lay),
                "naming": fam["naming"],
                "hists": hs,
                "spawn_every": spawn_every,
                "fam": fam["name"],
            }
        )
    return jobs


# ---------------------------------------------------------------------------------------------
# (C) projection, conformance, traces


def codes_of(names: list[str], unknown: set[str]) -> list[int]:
    out = []
    for n in names:
        if n in NAME2CODE:
            out.append(NAME2CODE[n])
        else:
            m = re.fullmatch(r"Error(\d{3})", n)
            if m:
                out.append(int(m.group(1)))
            else:
                unknown.add(n)
    return sorted(out)


def project(ob: dict, depth: int, layout: str, naming: str, clients: list[str], unknown: set[str]) -> dict[str, Any]:
    """Observed post-state of a step in the vocabulary of SharedCore.tla."""
    pkg2id = {packages(c, depth, layout, naming)[0]: c for c in clients}
    probes = {p["client"]: p for p in ob["probes"] if p["exists"]}
    return {
        "generated": sorted(probes),
        "needs": {c: (codes_of(probes[c]["needs"], unknown) if c in probes else []) for c in clients},
        "registry": {pkg2id.get(k, "?" + k): v for k, v in ob["registry"].items()},
        "aliases": codes_of(ob["aliases"], unknown) if depth >= 1 else [],
        "priv": {c: (codes_of(probes[c]["visible"], unknown) if (depth == 0 and c in probes) else []) for c in clients},
        "regstate": ob.get("regstate", "absent"),
    }


def pre_of(parent: dict | None) -> dict[str, Any]:
    if parent is None:
        return {"generated": [], "ok": [], "served": [], "declared": {}, "regfile": False, "regstate": "absent", "registry": {}, "env": "none"}
    return parent["post"]


def post_of(ob: dict, pre: dict, depth: int, layout: str, naming: str, clients: list[str]) -> dict[str, Any]:
    pkg2id = {packages(c, depth, layout, naming)[0]: c for c in clients}
    cid, codes, force = ob["h"][-1][:3]
    env = ob.get("env", "gen")
    declared = dict(pre["declared"])
    if ob["applied"] or (env.startswith("int-") and not ob.get("env_applied") and ob["gen"]["ok"]):
        declared[cid] = sorted(codes)
    elif (env == "gen" and not ob["gen"]["ok"] and (force or not ob["existed"])) or (env.startswith("int-") and ob.get("env_applied")):
        declared[cid] = []  # a direct generation that failed / was killed: the package directory was re-created empty
    ps = [p for p in ob["probes"] if p["exists"]]
    return {
        "generated": sorted(p["client"] for p in ps),
        "ok": sorted(p["client"] for p in ps if p["imports"] and not p["missing"]),
        "served": sorted(p["client"] for p in ps if set(p["needs"]) <= set(p["visible"])),
        "declared": declared,
        "regfile": bool(ob["regfile"]),
        "regstate": ob.get("regstate", "absent"),
        "registry": {pkg2id.get(k, "?" + k): v for k, v in ob["registry"].items()},
        "env": pre.get("env", "none") if env == "gen" else env,
    }


def trace_of(tid: str, ob: dict, pre: dict, post: dict, depth: int, layout: str, names: str) -> dict[str, Any]:
    cid, codes, force = ob["h"][-1][:3]
    ev: list[dict[str, Any]] = [
        {
            "k": "generate",
            "client": cid,
            "codes": sorted(codes),
            "force": bool(force),
            "applied": bool(ob["applied"]),
            "errtype": ob["gen"]["errtype"],
            "regfile": post["regfile"],
            "regstate": post["regstate"],
            "registry": post["registry"],
            "aliases": ob["aliases"],
        }
    ]
    for p in ob["probes"]:
        if p["exists"]:
            ev.append({"k": "probe", "client": p["client"], "imports": bool(p["imports"]), "missing": p["missing"], "needs": p["needs"], "visible": p["visible"], "exc": p["exc"]})
    return {"id": tid, "depth": depth, "layout": layout, "names": names, "env": pre.get("env", "none"), "pre": {k: v for k, v in pre.items() if k != "env"}, "ev": ev}


def monitor(chk: Check, traces: list[dict], label: str) -> dict[str, dict]:
    d = chk.scratch.sub("traces")
    tf = d / "traces.ndjson"
    with tf.open("w") as f:
        for t in traces:
            f.write(json.dumps(t) + "\n")
    r = run_tlc(chk.scratch, "Trace_SharedCore", "SPECIFICATION Spec\nCHECK_DEADLOCK FALSE\n", workers=8, env={"TRACE_FILE": str(tf)}, coverage=True)
    chk.add_tlc(f"Trace_SharedCore[{label}]", r)
    vs = r.printed.get("VERDICT", [])
    chk.require(len(vs) == len(traces), f"monitor produced {len(vs)} verdicts for {len(traces)} traces")
    chk.cov["traces_validated_against_impl"] += len(traces)
    return {v["id"]: v for v in vs}


def replay_and_judge(chk: Check, fams: list[tuple[dict, list[dict]]], spawn_every: int, label: str) -> None:
    jobs = []
    for fam, nodes in fams:
        jobs += make_jobs(chk, fam, nodes, spawn_every)
    # big sub-trees first, dealt round-robin over the worker processes
    jobs.sort(key=lambda j: -len(j["hists"]))
    res = core.parallel_py(chk.scratch, "harness.w_sharedcore", jobs, timeout=3000)
    obs: dict[str, dict] = {}
    executed = 0
    spawned = 0
    for job, r in zip(jobs, res):
        spawned += r["spawned"]
        for ob in r["obs"]:
            executed += 1
            k = hkey(job["fam"], job["lid"], ob["h"])
            if k not in obs:
                ob["_fam"], ob["_depth"], ob["_layout"] = job["fam"], job["depth"], job["layout"]
                obs[k] = ob
    chk.cov["real_generations"] = chk.cov.get("real_generations", 0) + executed
    chk.cov["probes_confirmed_by_exec"] = chk.cov.get("probes_confirmed_by_exec", 0) + spawned
    # walk the tree top-down: pre/post chaining, conformance with the specification's successor state
    traces = []
    meta: dict[str, dict] = {}
    unknown: set[str] = set()
    ndrift = 0
    first_drift = None
    nhist = 0
    for fam, nodes in fams:
        naming = fam["naming"]
        relation = {lid(d, lay): names_relation(fam["clients"], d, lay, naming) for d, lay, _ in fam["layouts"]}
        children = {json.dumps(n["hist"][:-1]) + f"|{n['lid']}" for n in nodes if n["hist"]}
        for n in nodes:  # sorted by (layout, len(hist)): parents come first
            if not n["hist"]:
                continue
            k = hkey(fam["name"], n["lid"], n["hist"])
            ob = obs.get(k)
            chk.require(ob is not None, f"history {k} was not replayed")
            if json.dumps(n["hist"]) + f"|{n['lid']}" not in children:
                nhist += 1
            parent = obs.get(hkey(fam["name"], n["lid"], n["hist"][:-1])) if len(n["hist"]) > 1 else None
            pre = pre_of(parent)
            post = post_of(ob, pre, n["depth"], n["lay"], naming, fam["clients"])
            ob["post"] = post
            chk.require(not ob.get("generator_imported"), "the generator was importable inside the probe interpreter")
            real = project(ob, n["depth"], n["lay"], naming, fam["clients"], unknown)
            if real != n["state"]:
                ndrift += 1
                if first_drift is None:
                    first_drift = f"family {fam['name']} (names {naming}: {relation[n['lid']]}) depth {n['depth']} layout {n['lay']} packages {[packages(c, n['depth'], n['lay'], naming) for c in fam['clients'][:2]]} after {json.dumps(n['hist'])}: real {json.dumps(real, sort_keys=True)} vs SharedCore.tla {json.dumps(n['state'], sort_keys=True)} (generate: {ob['gen']['errtype']})"
            if ob.get("env", "gen") != "gen":
                # an environment step: observed (it is the `pre` of the next generator step), compared, never judged
                chk.cov.setdefault("env_steps", {}).setdefault(ob["env"], 0)
                chk.cov["env_steps"][ob["env"]] += 1
                if not ob.get("env_applied", False):
                    # e.g. a run that never reaches the kill point simply completes: the model disagrees (DRIFT below), the
                    # observation still is the `pre` of the next generator step
                    chk.cov["env_steps_not_applicable"] = chk.cov.get("env_steps_not_applicable", 0) + 1
                continue
            if ob["existed"] and not n["hist"][-1][2]:
                key = "nonforce_over_existing_returned" if ob["gen"]["ok"] else "nonforce_over_existing_raised"
                chk.cov[key] = chk.cov.get(key, 0) + 1
            elif not ob["gen"]["ok"]:
                chk.cov.setdefault("direct_generation_raised", {}).setdefault(ob["gen"]["errtype"], 0)
                chk.cov["direct_generation_raised"][ob["gen"]["errtype"]] += 1
            if post["env"] != "none":
                chk.cov.setdefault("gen_steps_after_env", {}).setdefault(post["env"], 0)
                chk.cov["gen_steps_after_env"][post["env"]] += 1
            tid = k
            traces.append(trace_of(tid, ob, pre, post, n["depth"], n["lay"], relation[n["lid"]]))
            meta[tid] = {"fam": fam["name"], "depth": n["depth"], "layout": n["lay"], "naming": naming, "hist": n["hist"], "ob": ob, "spec_state": n["state"]}
            chk.cov.setdefault("steps_by_names", {}).setdefault(relation[n["lid"]], 0)
            chk.cov["steps_by_names"][relation[n["lid"]]] += 1
    chk.cov["histories_maximal"] = chk.cov.get("histories_maximal", 0) + nhist
    chk.cov["steps_replayed"] = chk.cov.get("steps_replayed", 0) + len(traces)
    chk.cov["steps_conforming_to_spec_state"] = chk.cov.get("steps_conforming_to_spec_state", 0) + len(traces) - ndrift
    chk.count(len(traces))
    if ndrift:
        chk.note_drift(f"{label}: projected real state differs from SharedCore.tla's successor state after {ndrift} of {len(traces)} steps; first: {first_drift}")
    if unknown:
        chk.note_drift(f"{label}: alias class names without a known status code: {sorted(unknown)[:5]}")
    verdicts = monitor(chk, traces, label)
    nother = 0
    nreg = 0
    for tid, v in verdicts.items():
        m = meta[tid]
        chk.clause("C11.client_import_broken", v["nprobe"])
        chk.clause("C11.alias_missing", v["nprobe"])
        if v["regchecked"]:
            nreg += 1
        if v["nother"] > 0:
            nother += 1
            chk.nontrivial(tid + "|" + m["layout"])
        for f in v["fails"]:
            ob = m["ob"]
            pr = next((p for p in ob["probes"] if p["client"] == f["client"]), {})
            pk, ck = packages(f["client"], m["depth"], m["layout"], m["naming"])
            scen = {
                "family": m["fam"],
                "depth": m["depth"],
                "layout": m["layout"],
                "naming": m["naming"],
                "hist": m["hist"],
                "packages": {c: packages(c, m["depth"], m["layout"], m["naming"])[0] for c in sorted({s[0] for s in m["hist"] if s[0] != "-"})},
                "core_package": ck,
                "broken_client": pk,
            }
            detail = f"after {json.dumps(m['hist'])} (core_package={ck}): {json.dumps(pr.get('failed', [])[:1])} missing={pr.get('missing')} needs={pr.get('needs')} visible={pr.get('visible')} registry={json.dumps(ob['registry'])}"
            chk.fail(f["clause"], dict(f["locus"]), scen, detail)
    chk.clause("C11.registry_lost_client", nreg)
    chk.cov["steps_with_another_client_present"] = chk.cov.get("steps_with_another_client_present", 0) + nother
    chk.require(nother > 0, "no step was taken with another client present (family does not exercise sharing)")
    chk.require(nreg > 0 or label == "replay", "the registry was never observed (family does not exercise the mechanism)")
    if label != "replay":
        missing_env = [k for k in ENV_KINDS if not chk.cov.get("gen_steps_after_env", {}).get(k)]
        chk.require(not missing_env, f"no generator step was replayed after environment step(s) {missing_env}")
    chk.require(label == "replay" or sum(v for k, v in chk.cov.get("steps_by_names", {}).items() if k != "unrelated") > 0, "no step with prefix-related package names was replayed")
    # samples
    some = []
    for d, nm in ((1, "plain"), (3, "plain"), (1, "n1")):
        some += [m for m in meta.values() if m["depth"] == d and m["naming"] == nm and len(m["hist"]) >= 2 and len({s[0] for s in m["hist"] if s[0] != "-"}) >= 2 and m["ob"]["applied"]][:1]
    for m in some:
        chk.sample({"kind": "replayed step", "depth": m["depth"], "layout": m["layout"], "naming": m["naming"], "hist": m["hist"], "spec_state": m["spec_state"], "observed": {k: m["ob"][k] for k in ("regfile", "registry", "aliases")},
                    "probes": [{k: p[k] for k in ("client", "pkg", "imports", "missing", "needs")} for p in m["ob"]["probes"]]}, cap=10)


def run(chk: Check) -> None:
    chk.cov["rule"] = (
        "TLC model-checks SharedCore.tla (3 clients x every subset of {404,409,500} x force x 6 layouts [embedded, sibling, below-sibling, "
        "unrelated branch; core depth 0..4], histories <=4) and enumerates the history tree per family (A: histories <=3 [thorough <=4, 3 "
        "clients up to renaming] x 3 code sets x force; B: other layouts incl. the empty code set; C1/C2: the same layouts spelled with "
        "prefix-related package names such as shop / shop2 / shop_core or api / api_v2); every edge = one real generate_client call + a "
        "fresh-interpreter import of every client generated so far; non-trivial = applied step with another client already present, "
        "distinct by (family, layout, naming, history)"
    )
    chk.assumptions += [
        "the fresh interpreter is a fork of a /venv/bin/python zygote that has loaded only third-party libraries with the generator blocked; "
        "a sample of steps and every step with a broken client is re-observed from a newly exec'ed interpreter and must agree",
        "a generate call that raises, or a non-force call over an existing client package, is a step that is not applied (C09/C10 judge those)",
        "a break is attributed to the step that caused it (a client already broken before a step is not reported again)",
        "thorough family A keeps one history per renaming of the clients",
    ]
    design(chk)
    fams = []
    for fam in families(chk.tier):
        fams.append((fam, gen_tree(chk, fam)))
    replay_and_judge(chk, fams, 40 if chk.tier == "quick" else 150, chk.tier)
    chk.cov["exhaustive"] = True


def replay(chk: Check, path: str) -> None:
    rec = json.loads(open(path).read())
    sc = rec["scenario"]
    if sc.get("level") == "design":
        design(chk)
    else:
        hist = sc["hist"]
        clients = sorted({s[0] for s in hist if s[0] != "-"} | {"c1", "c2"})
        envs = sorted({s[3] for s in hist if len(s) > 3})
        # the specification's states along this one history come from the history tree of a one-path family
        fam = {"name": "R", "naming": sc.get("naming", "plain"), "clients": clients, "codesets": [list(c) for c in sorted({tuple(s[1]) for s in hist if s[0] != "-"})],
               "canon": False, "split": 1, "layouts": [(sc["depth"], sc["layout"], sum(1 for s in hist if len(s) == 3))],
               "maxenv": len([s for s in hist if len(s) > 3]), "envkinds": envs, "norotate": True}
        allnodes = gen_tree(chk, fam)
        want = {json.dumps(hist[:i]) for i in range(1, len(hist) + 1)}
        nodes = [n for n in allnodes if json.dumps(n["hist"]) in want]
        replay_and_judge(chk, [(fam, nodes)], 1, "replay")
        print(f"REPLAY depth={sc['depth']} layout={sc['layout']} naming={sc.get('naming', 'plain')} hist={json.dumps(hist)}")
    for f in chk.fails:
        print("REPLAY-FAIL", f["clause"], json.dumps(f["locus"], sort_keys=True), f["detail"][:300])
