"""Backbone of the verification harness: scratch space, TLC runner, verdict pipeline,
known findings, evidence and replay files.

Exit codes of a check: 0 = held (modulo listed known findings), 1 = violation, 2 = machinery failure.
"""

from __future__ import annotations

import hashlib
import json
import os
import re
import shutil
import subprocess
import sys
import tempfile
import time
from dataclasses import dataclass, field
from pathlib import Path
from typing import Any, Iterable

VERIF = Path(__file__).resolve().parent.parent
REPO = Path(os.environ.get("VERIF_REPO", "/repo")).resolve()
SPECS = VERIF / "specs"
PY = os.environ.get("VERIF_PY", "/venv/bin/python")
TLA_CP = "/opt/veriftools/tla/tla2tools.jar:/opt/veriftools/tla/CommunityModules-deps.jar"
NCPU = os.cpu_count() or 4


class MachineryError(Exception):
    """Something in the checking machinery itself failed (never a VIOLATION)."""


# --------------------------------------------------------------------------------------------
# scratch


class Scratch:
    def __init__(self, tag: str):
        self.path = Path(tempfile.mkdtemp(prefix=f"verif.{tag}."))
        self._n = 0

    def sub(self, name: str) -> Path:
        self._n += 1
        p = self.path / f"{self._n:03d}_{name}"
        p.mkdir(parents=True)
        return p

    def cleanup(self) -> None:
        # removing tens of thousands of small files can take minutes on a busy disk: do it detached
        try:
            trash = self.path.with_name(self.path.name + ".trash")
            self.path.rename(trash)
            subprocess.Popen(["rm", "-rf", str(trash)], stdout=subprocess.DEVNULL, stderr=subprocess.DEVNULL, start_new_session=True)
        except OSError:
            shutil.rmtree(self.path, ignore_errors=True)


def child_env(scratch: Path, **extra: str) -> dict[str, str]:
    """Environment for any child that runs the code under test: the tree under test first on PYTHONPATH,
    TMPDIR inside scratch (the generator appends a debug log to tempfile.gettempdir())."""
    env = dict(os.environ)
    tmp = scratch / "tmp"
    tmp.mkdir(exist_ok=True)
    env["PYTHONPATH"] = f"{REPO / 'src'}:{VERIF}"
    env["TMPDIR"] = str(tmp)
    env.setdefault("PYTHONHASHSEED", "0")
    env["PYOPENAPI_GEN_VERIF"] = "1"
    env["VERIF_REPO"] = str(REPO)
    env.pop("PYOPENAPI_MAX_DEPTH", None)
    for k, v in extra.items():
        env[k] = v
    return env


def install_tree_under_test() -> None:
    """Make the current process import pyopenapi_gen from the tree under test."""
    src = str(REPO / "src")
    if sys.path[0] != src:
        sys.path.insert(0, src)


# --------------------------------------------------------------------------------------------
# TLC


@dataclass
class TlcResult:
    rc: int
    out: str
    states: int = 0
    distinct: int = 0
    depth: int = 0
    printed: dict[str, list[Any]] = field(default_factory=dict)  # tag -> decoded JSON payloads
    coverage: dict[str, tuple[int, int]] = field(default_factory=dict)  # action -> (distinct, total)
    violated: list[str] = field(default_factory=list)  # invariant / property names reported violated
    wall: float = 0.0
    workdir: Path | None = None

    @property
    def ok(self) -> bool:
        return self.rc == 0 and not self.violated


_STATES = re.compile(r"(\d+) states generated, (\d+) distinct states found")
_DEPTH = re.compile(r"The depth of the complete state graph search is (\d+)")
_COV = re.compile(r"^<(\w+) line \d+, col \d+ to line \d+, col \d+ of module (\w+)(?: \([\d ]+\))?>: (\d+):(\d+)")
_INV = re.compile(r"Invariant (\S+) is violated|Action property (\S+) is violated|Temporal properties were violated")


def run_tlc(
    scratch: Scratch,
    module: str,
    cfg: str,
    *,
    workers: int | str = "auto",
    env: dict[str, str] | None = None,
    extra: Iterable[str] = (),
    timeout: int = 900,
    files: dict[str, str] | None = None,
    coverage: bool = False,
    seed: int | None = None,
    heap: str = "6g",
    allow_violation: bool = False,
) -> TlcResult:
    """Run TLC on specs/<module>.tla with the given cfg text.  All of specs/*.tla is copied into a scratch
    working directory so that TLC's state files never land in /verif."""
    wd = scratch.sub(f"tlc_{module}")
    for f in SPECS.glob("*.tla"):
        shutil.copy(f, wd / f.name)
    for name, text in (files or {}).items():
        (wd / name).write_text(text)
    (wd / f"{module}.cfg").write_text(cfg)
    e = dict(os.environ)
    e.update(env or {})
    jtmp = wd / "jtmp"
    jtmp.mkdir()
    cmd = [
        "java",
        f"-Xmx{heap}",
        "-XX:+UseParallelGC",
        f"-Djava.io.tmpdir={jtmp}",
        "-cp",
        TLA_CP,
        "tlc2.TLC",
        "-workers",
        str(workers),
        "-metadir",
        str(wd / "meta"),
        "-noGenerateSpecTE",
    ]
    if coverage:
        cmd += ["-coverage", "1"]
    if seed is not None:
        cmd += ["-seed", str(seed)]
    cmd += list(extra)
    cmd += ["-config", f"{module}.cfg", module]
    t0 = time.time()
    try:
        p = subprocess.run(cmd, cwd=wd, env=e, capture_output=True, text=True, timeout=timeout)
    except subprocess.TimeoutExpired as ex:
        raise MachineryError(f"TLC timed out after {timeout}s on {module}") from ex
    res = TlcResult(rc=p.returncode, out=p.stdout + p.stderr, wall=time.time() - t0, workdir=wd)
    for line in p.stdout.splitlines():
        if line.startswith('"') and line.endswith('"'):
            try:
                s = json.loads(line)
            except Exception:
                continue
            tag, _, payload = s.partition(" ")
            try:
                res.printed.setdefault(tag, []).append(json.loads(payload))
            except Exception:
                res.printed.setdefault(tag, []).append(payload)
            continue
        m = _STATES.search(line)
        if m:
            res.states, res.distinct = int(m.group(1)), int(m.group(2))
        m = _DEPTH.search(line)
        if m:
            res.depth = int(m.group(1))
        m = _COV.match(line)
        if m:
            name = m.group(1)
            d, t = int(m.group(3)), int(m.group(4))
            od, ot = res.coverage.get(name, (0, 0))
            res.coverage[name] = (od + d, ot + t)
        m = _INV.search(line)
        if m:
            res.violated.append(m.group(1) or m.group(2) or "temporal")
    if res.rc != 0 and not (allow_violation and res.violated):
        tail = "\n".join(res.out.splitlines()[-40:])
        raise MachineryError(f"TLC failed on {module} (rc={res.rc}):\n{tail}")
    return res


def sany_all() -> None:
    """Parse every module under specs/ (setup step)."""
    with tempfile.TemporaryDirectory(prefix="verif.sany.") as d:
        for f in SPECS.glob("*.tla"):
            shutil.copy(f, Path(d) / f.name)
        bad = []
        for f in sorted(Path(d).glob("*.tla")):
            p = subprocess.run(
                ["java", f"-Djava.io.tmpdir={d}", "-cp", TLA_CP, "tla2sany.SANY", f.name],
                cwd=d,
                capture_output=True,
                text=True,
            )
            if p.returncode != 0 or "*** Errors" in p.stdout or "Fatal error" in p.stdout:
                bad.append((f.name, p.stdout[-1500:]))
        if bad:
            for n, o in bad:
                print(f"SANY FAILED {n}\n{o}")
            raise MachineryError("SANY errors")


def parse_dot(path: Path) -> tuple[dict[str, str], list[tuple[str, str, str]], set[str]]:
    """Parse a `-dump dot,actionlabels` file: returns (node id -> state label, edges (src, dst, label), initial ids)."""
    nodes: dict[str, str] = {}
    edges: list[tuple[str, str, str]] = []
    init: set[str] = set()
    node_re = re.compile(r'^(-?\d+) \[label="(.*)"(,style = filled)?\]\s*;?$')
    edge_re = re.compile(r'^(-?\d+) -> (-?\d+) \[label="(.*?)"')
    for line in path.read_text().splitlines():
        line = line.strip()
        m = edge_re.match(line)
        if m:
            edges.append((m.group(1), m.group(2), m.group(3).replace('\\"', '"')))
            continue
        m = node_re.match(line)
        if m:
            nodes[m.group(1)] = m.group(2).replace("\\n", "\n").replace('\\"', '"').replace("\\\\", "\\")
            if m.group(3):
                init.add(m.group(1))
    return nodes, edges, init


# --------------------------------------------------------------------------------------------
# TLA+ value rendering (Python -> TLA+ literal) for cfg constants / generated modules


def tla(v: Any) -> str:
    if isinstance(v, bool):
        return "TRUE" if v else "FALSE"
    if isinstance(v, int):
        return str(v)
    if isinstance(v, str):
        return '"' + v.replace("\\", "\\\\").replace('"', '\\"') + '"'
    if isinstance(v, (list, tuple)):
        return "<<" + ", ".join(tla(x) for x in v) + ">>"
    if isinstance(v, (set, frozenset)):
        return "{" + ", ".join(sorted(tla(x) for x in v)) + "}"
    if isinstance(v, dict):
        if not v:
            return "<<>>"
        return "[" + ", ".join(f"{k} |-> {tla(x)}" for k, x in v.items()) + "]"
    raise TypeError(f"cannot render {v!r} as TLA+")


# --------------------------------------------------------------------------------------------
# verdict pipeline


def load_findings() -> list[dict[str, Any]]:
    out = []
    for p in [VERIF / "known_findings.jsonl"] + sorted((VERIF / "findings").glob("*.jsonl")):
        if p.exists():
            for line in p.read_text().splitlines():
                line = line.strip()
                if line and not line.startswith("#"):
                    out.append(json.loads(line))
    return out


def _match(entry: dict[str, Any], clause: str, locus: dict[str, Any]) -> bool:
    if entry.get("status") != "finding":
        return False
    if entry.get("clause") != clause:
        return False
    for k, v in (entry.get("match") or {}).items():
        lv = locus.get(k)
        if isinstance(v, list) and not isinstance(lv, list):
            if lv not in v:
                return False
        elif lv != v:
            return False
    return True


class Check:
    """One run of one property's check."""

    def __init__(self, prop: str, level: str, tier: str, seed: int):
        self.prop, self.level, self.tier, self.seed = prop, level, tier, seed
        self.t0 = time.time()
        self.scratch = Scratch(prop)
        self.fails: list[dict[str, Any]] = []
        self.drift: list[str] = []
        self.cov: dict[str, Any] = {
            "evaluations": 0,
            "distinct_nontrivial": 0,
            "rule": "",
            "samples": [],
            "states": 0,
            "transitions": 0,
            "traces_validated_against_impl": 0,
            "exhaustive": False,
            "tlc_runs": [],
            "clauses_checked": {},
        }
        self.assumptions: list[str] = []
        self._nontrivial: set[str] = set()

    # ---- accounting
    def add_tlc(self, name: str, r: TlcResult) -> None:
        self.cov["states"] += r.distinct
        self.cov["transitions"] += r.states
        self.cov["tlc_runs"].append(
            {
                "name": name,
                "distinct_states": r.distinct,
                "states_generated": r.states,
                "depth": r.depth,
                "wall_s": round(r.wall, 2),
                "coverage": {k: list(v) for k, v in sorted(r.coverage.items())},
            }
        )

    def count(self, n: int = 1) -> None:
        self.cov["evaluations"] += n

    def nontrivial(self, key: Any) -> None:
        self._nontrivial.add(key if isinstance(key, str) else json.dumps(key, sort_keys=True, default=str))

    def sample(self, s: Any, cap: int = 6) -> None:
        if len(self.cov["samples"]) < cap:
            self.cov["samples"].append(s)

    def clause(self, name: str, n: int = 1) -> None:
        """Count that a clause's antecedent was actually evaluated (vacuity guard)."""
        c = self.cov["clauses_checked"]
        c[name] = c.get(name, 0) + n

    def fail(self, clause: str, locus: dict[str, Any], scenario: Any, detail: str = "") -> None:
        self.fails.append({"clause": clause, "locus": locus, "scenario": scenario, "detail": detail})

    def note_drift(self, msg: str) -> None:
        self.drift.append(msg)

    def require(self, cond: bool, msg: str) -> None:
        if not cond:
            raise MachineryError(msg)

    # ---- finish
    def finish(self) -> int:
        findings = [f for f in load_findings() if f.get("property") == self.prop]
        matched: dict[str, int] = {}
        violations = []
        for f in self.fails:
            hit = None
            for e in findings:
                if _match(e, f["clause"], f["locus"]):
                    hit = e
                    break
            if hit is not None:
                matched[hit["id"]] = matched.get(hit["id"], 0) + 1
            else:
                violations.append(f)
        for e in findings:
            if e.get("status") == "finding" and e["id"] in matched:
                print(f"KNOWN-FINDING: property={self.prop} {e['id']} {e['what']} [{matched[e['id']]} observation(s)]")
        seen = set()
        rdir = VERIF / "replays" / self.prop
        nviol = 0
        for v in violations:
            key = json.dumps([v["clause"], v["locus"]], sort_keys=True, default=str)
            if key in seen:
                continue
            seen.add(key)
            nviol += 1
            if nviol > 25:
                continue
            rdir.mkdir(parents=True, exist_ok=True)
            h = hashlib.sha256(json.dumps(v, sort_keys=True, default=str).encode()).hexdigest()[:16]
            rp = rdir / f"{h}.json"
            rp.write_text(json.dumps({"property": self.prop, **v}, indent=1, default=str))
            print(f"VIOLATION property={self.prop} replay={rp}")
            print(f"  clause={v['clause']} locus={json.dumps(v['locus'], sort_keys=True, default=str)} {v['detail'][:300]}")
        if os.environ.get("VERIF_DUMP"):
            uniq = sorted({json.dumps([v["clause"], v["locus"]], sort_keys=True, default=str) for v in violations})
            Path(os.environ["VERIF_DUMP"]).write_text("\n".join(uniq) + "\n")
        for d in self.drift[:20]:
            print(f"DRIFT: property={self.prop} {d}")
        self.cov["distinct_nontrivial"] = len(self._nontrivial)
        self.cov["failing_observations"] = len(self.fails)
        self.cov["known_findings_matched"] = matched
        self.cov["drift"] = self.drift[:50]
        ev = {
            "property_id": self.prop,
            "tier": self.tier,
            "seed": self.seed,
            "level": self.level,
            "coverage": self.cov,
            "assumptions": self.assumptions,
            "wall_s": round(time.time() - self.t0, 2),
            "violations": nviol,
        }
        (VERIF / "evidence").mkdir(exist_ok=True)
        (VERIF / "evidence" / f"{self.prop}.json").write_text(json.dumps(ev, indent=1, default=str))
        print(
            f"{self.prop}: tier={self.tier} evaluations={self.cov['evaluations']} nontrivial={len(self._nontrivial)} "
            f"states={self.cov['states']} traces={self.cov['traces_validated_against_impl']} "
            f"failing={len(self.fails)} known={sum(matched.values())} violations={nviol} wall={ev['wall_s']}s"
        )
        return 1 if nviol else 0


def run_py(scratch: Scratch, args: list[str], *, input_text: str | None = None, timeout: int = 900, env=None, cwd=None):
    e = child_env(scratch.path)
    e.update(env or {})
    return subprocess.run([PY] + args, input=input_text, capture_output=True, text=True, timeout=timeout, env=e, cwd=cwd)


MAX_JOBS_PER_WORKER = int(os.environ.get("VERIF_MAX_JOBS_PER_WORKER", "60"))


def parallel_py(scratch: Scratch, script: str, jobs: list[Any], *, nproc: int | None = None, timeout: int = 5400, env=None) -> list[Any]:
    """Run `script` (a module path under harness/, executed as `python -m`) in nproc children; each child gets a
    JSON list of jobs on stdin and must print one JSON line per job result.  Jobs are dealt round-robin
    deterministically.  Returns results in job order (each result must carry the job's "id")."""
    nproc = nproc or min(NCPU, max(1, len(jobs)))
    # the code under test keeps state for the lifetime of a process (a worker that runs the generator or the loader thousands of times
    # grows by several MB per document): no child handles more than MAX_JOBS_PER_WORKER jobs, larger families run in rounds
    if len(jobs) > nproc * MAX_JOBS_PER_WORKER:
        out: list[Any] = []
        step = nproc * MAX_JOBS_PER_WORKER
        for k in range(0, len(jobs), step):
            out += parallel_py(scratch, script, jobs[k : k + step], nproc=nproc, timeout=timeout, env=env)
        return out
    buckets: list[list[Any]] = [[] for _ in range(nproc)]
    for i, j in enumerate(jobs):
        buckets[i % nproc].append(j)
    procs = []
    e = child_env(scratch.path)
    e.update(env or {})
    for b in buckets:
        if not b:
            continue
        p = subprocess.Popen([PY, "-m", script], stdin=subprocess.PIPE, stdout=subprocess.PIPE, stderr=subprocess.PIPE, text=True, env=e, cwd=str(scratch.path))
        procs.append((p, b))
    # feed all, then collect (children read all of stdin first)
    import threading

    outs: list[tuple[str, str, int]] = [("", "", 0)] * len(procs)

    def work(i: int, p: subprocess.Popen, b: list[Any]) -> None:
        try:
            o, er = p.communicate(json.dumps(b), timeout=timeout)
            outs[i] = (o, er, p.returncode)
        except subprocess.TimeoutExpired:
            p.kill()
            outs[i] = ("", "TIMEOUT", -9)

    th = [threading.Thread(target=work, args=(i, p, b)) for i, (p, b) in enumerate(procs)]
    for t in th:
        t.start()
    for t in th:
        t.join()
    by_id: dict[Any, Any] = {}
    for (o, er, rc), (p, b) in zip(outs, procs):
        if rc != 0:
            raise MachineryError(f"worker {script} failed rc={rc}: {er[-2000:]}")
        for line in o.splitlines():
            if line.startswith("{"):
                r = json.loads(line)
                by_id[r["id"]] = r
    missing = [j["id"] for j in jobs if j["id"] not in by_id]
    if missing:
        raise MachineryError(f"worker {script}: {len(missing)} results missing, e.g. {missing[:3]}")
    return [by_id[j["id"]] for j in jobs]
