"""C04 - request fidelity: what the caller passes is what goes on the wire.

(A) design model checking of specs/Wire.tla (one generated method call as a state machine: Process, BindPath, BindQuery,
    BindHeader, BindCookie, BindBody | Dispatch, Send, Judge) - the code path AS IT IS over the whole operation family
    (clauses it violates are evaluated into a verdict and printed per modelled call, DESIGN lines) and, over a small slice,
    the variant "fixed" with RequestOK as a real INVARIANT plus the as-is variant with the invariants it does satisfy and
    -coverage (every stage must fire);
(B) the same family run prints one SCEN line per operation (specs/Gen_Wire.tla: deterministic stratified family);
    operations are packed into OpenAPI documents (one path per operation), the real generator is run (harness/w_gen.py),
    every method of every emitted client is called with distinct-token arguments for several subsets of the optional
    arguments against an httpx.MockTransport (harness/w_obs.py + obs_wire.py, `surface` + `wire`);
(C) specs/Trace_Wire.tla (run by TLC) judges every call with Wire!Failures - the operator that judged the modelled request -
    and evaluates the as-is model on the same call (DRIFT when it did not predict the observation).

Python arguments are bound to declared parameters WITHOUT the sanitiser under test: folded names (lower-case alphanumerics),
then position; methods are identified with operations by the request they send (first path segment), or by elimination in a
package that holds a single operation.  Operations whose package does not import (C01's findings) are counted and skipped.
"""

from __future__ import annotations

import base64
import json
import re
from collections import Counter
from concurrent.futures import ThreadPoolExecutor
from pathlib import Path
from typing import Any
from urllib.parse import parse_qsl, unquote

from . import core
from .core import Check, run_tlc, tla
from .loadpipe import msgclass as import_msgclass

LEVEL = "model_checking"

ACTIONS = ["Plan", "Process", "BindPath", "BindQuery", "BindHeader", "BindCookie", "BindBody", "Dispatch", "Send", "Judge"]
HOLDING = ["TypeOK", "MachineIsModel", "VerdictIsJudge", "ReferenceAccepted", "ExactlyOneOrRaise", "MethodOK"]
FIXED_INV = HOLDING + ["RequestOK", "NeverDead"]
LOCATED = ["query", "header", "cookie"]
CLAUSES = (
    ["C04.count", "C04.method", "C04.path", "C04.wrong_location", "C04.body_ctype", "C04.body_json", "C04.none_sent", "C04.call_raised", "C04.no_argument"]
    + [f"C04.{loc}_{k}" for loc in LOCATED for k in ("missing", "extra", "value", "name")]
)
BASE = "http://srv.test"
# every client of the family is driven through ONE bundled transport configured with a default header: the calls of a client form a
# sequence (all subsets of the optional arguments, then falsy values), so state carried from one call to the next shows on the wire
DEFAULT_HEADERS = {"X-Verif-Default": "dflt"}
PACK = 12
CHUNK = 4000  # operations per Trace_Wire run


# ---------------------------------------------------------------------------------------------
# TLC runs


def wire_cfg(ops: str, variant: str, emit: bool, tier: str, invariants: list[str], spec: str = "Spec") -> str:
    inv = "".join(f"INVARIANT {i}\n" for i in invariants)
    return f"SPECIFICATION {spec}\nCONSTANTS\n Ops <- {ops}\n Variant = {tla(variant)}\n Emit = {tla(emit)}\n Tier = {tla(tier)}\n{inv}CHECK_DEADLOCK FALSE\n"


class _SubScratch:
    """A private numbering space inside the check's scratch directory for TLC runs started from a helper thread."""

    def __init__(self, chk: Check, name: str):
        self.path = chk.scratch.path / name
        self.path.mkdir(parents=True, exist_ok=True)
        self._n = 0

    def sub(self, name: str):
        self._n += 1
        p = self.path / f"{self._n:03d}_{name}"
        p.mkdir(parents=True)
        return p


def side_runs(sub: _SubScratch) -> list[tuple[str, core.TlcResult, str]]:
    a = run_tlc(sub, "MC_Wire", wire_cfg("MCOps", "as_is", False, "mini", HOLDING), coverage=True, allow_violation=True, workers=4)
    f = run_tlc(sub, "MC_Wire", wire_cfg("MCOps", "fixed", False, "mini", FIXED_INV), allow_violation=True, workers=4)
    return [("MC_Wire[as_is,mini,coverage]", a, "as_is"), ("MC_Wire[fixed,mini]", f, "fixed")] + sched_runs(sub)


def sched_cfg(where: str, invariants: list[str]) -> str:
    inv = "".join(f"INVARIANT {i}\n" for i in invariants)
    return f"SPECIFICATION Spec\nCONSTANTS\n Calls = {{\"a\", \"b\", \"c\"}}\n Where = {tla(where)}\n{inv}CHECK_DEADLOCK FALSE\n"


def sched_runs(sub: _SubScratch) -> list[tuple[str, core.TlcResult, str]]:
    """specs/MC_WireSched.tla: per-call fidelity under every interleaving of three calls on one transport - holds when the
    request arguments live in the coroutine frame (the code as it is); the same invariant must FAIL when they live in an
    attribute of the shared transport, and the schedule the observer realises must be among the explored ones."""
    ok = run_tlc(sub, "MC_WireSched", sched_cfg("frame", ["TypeOK", "PerCallFidelity", "ExactlyOne"]), coverage=True, allow_violation=True, workers=2)
    neg = run_tlc(sub, "MC_WireSched", sched_cfg("instance", ["PerCallFidelity"]), allow_violation=True, workers=2)
    reach = run_tlc(sub, "MC_WireSched", sched_cfg("frame", ["ObserverScheduleReached"]), allow_violation=True, workers=2)
    return [("MC_WireSched[frame]", ok, "sched_frame"), ("MC_WireSched[instance,must-fail]", neg, "sched_negative"), ("MC_WireSched[frame,reachability]", reach, "sched_reach")]


def account_side(chk: Check, name: str, r: core.TlcResult, variant: str) -> None:
    chk.add_tlc(name, r)
    chk.require(r.distinct > 0, f"{name} explored nothing")
    if variant in ("sched_negative", "sched_reach"):
        # negative runs: the invariant has to FAIL (shared-attribute design; reachability of the observer's schedule)
        chk.require(bool(r.violated), f"{name}: the invariant was expected to be violated and is not - the schedule model is vacuous")
        return
    if variant == "sched_frame" and not r.violated:
        for a in ("Enter", "Suspend", "Resume", "Put"):
            chk.require(r.coverage.get(a, (0, 0))[1] > 0, f"vacuous schedule run: action {a} never taken")
    if r.violated:
        chk.fail("C04.design_invariant", {"invariant": r.violated[0], "variant": variant}, {"run": name}, r.out[-1500:])
    elif variant == "as_is":
        for a in ACTIONS:
            chk.require(r.coverage.get(a, (0, 0))[1] > 0, f"vacuous design run: action {a} never taken")


def clean_locus(l: dict[str, Any]) -> dict[str, Any]:
    return {k: v for k, v in l.items() if v != ""}


def fkey(clause: str, locus: dict[str, Any], drop=()) -> str:
    return json.dumps([clause, {k: v for k, v in clean_locus(locus).items() if k not in drop}], sort_keys=True)


def family_run(chk: Check, tier: str) -> tuple[list[dict], Counter]:
    """Design run of the as-is machine over the family = scenario generation."""
    r = run_tlc(chk.scratch, "Gen_Wire", wire_cfg("Family", "as_is", True, tier, ["TypeOK", "ExactlyOneOrRaise", "MethodOK"]), allow_violation=True, timeout=1500)
    chk.add_tlc(f"Gen_Wire[as_is,{tier}]", r)
    if r.violated:
        chk.fail("C04.design_invariant", {"invariant": r.violated[0], "variant": "as_is"}, {"tier": tier}, r.out[-1500:])
        return [], Counter()
    scen = r.printed.get("SCEN", [])
    chk.require(len(scen) > 0, "Gen_Wire emitted no operation")
    chk.require(len({s["op"]["id"] for s in scen}) == len(scen), "Gen_Wire emitted an operation twice")
    scen.sort(key=lambda s: s["op"]["id"])
    dev: Counter = Counter()
    for d in r.printed.get("DESIGN", []):
        for f in d["fails"]:
            dev[fkey(f["clause"], f["locus"])] += 1
    return scen, dev


# ---------------------------------------------------------------------------------------------
# concretiser: abstract operation -> OpenAPI


def _obj(props: dict, required: list[str] | None = None) -> dict:
    d: dict[str, Any] = {"type": "object", "properties": props}
    if required:
        d["required"] = required
    return d


def _ref(n: str) -> dict:
    return {"$ref": "#/components/schemas/" + n}


COMPONENTS = {
    "R": _obj({"x": {"type": "string"}}),
    "Sub": _obj({"sku": {"type": "string"}, "qty": {"type": "integer"}}, ["sku"]),
    # two fields and a list field of ONE sub-model: the aliased value mode shares a single Sub instance between them
    "M": _obj({"a": {"type": "string"}, "b-c": {"type": "integer"}, "first": _ref("Sub"), "second": _ref("Sub"), "subs": {"type": "array", "items": _ref("Sub")}}, ["a"]),
    "FormM": _obj({"user": {"type": "string"}, "n": {"type": "integer"}}, ["user"]),
    "UploadM": _obj({"file": {"type": "string", "format": "binary"}}),
    "Color": {"type": "string", "enum": ["red", "green"]},
}

TYPE_SCHEMA = {
    "str": {"type": "string"},
    "int": {"type": "integer"},
    "bool": {"type": "boolean"},
    "enum": _ref("Color"),
    "date": {"type": "string", "format": "date"},
    "datetime": {"type": "string", "format": "date-time"},
    "array": {"type": "array", "items": {"type": "string"}},
}

BODY_CONTENT = {
    "json_model": {"application/json": {"schema": _ref("M")}},
    "json_prim": {"application/json": {"schema": {"type": "string"}}},
    "json_array": {"application/json": {"schema": {"type": "array", "items": _ref("Sub")}}},
    "json_map": {"application/json": {"schema": {"type": "object", "additionalProperties": True}}},
    "form": {"application/x-www-form-urlencoded": {"schema": _ref("FormM")}},
    "multipart": {"multipart/form-data": {"schema": _ref("UploadM")}},
    "octet": {"application/octet-stream": {"schema": {"type": "string", "format": "binary"}}},
    "two": {"application/json": {"schema": _ref("M")}, "multipart/form-data": {"schema": _ref("UploadM")}},
}
JSON_KINDS = ("json_model", "json_prim", "json_array", "json_map")


def body_ctype_of(body: dict) -> str:
    """The declared request content type of a single-content body."""
    k = body["kind"]
    if k == "other":
        return body["media"]
    return {"form": "application/x-www-form-urlencoded", "multipart": "multipart/form-data", "octet": "application/octet-stream"}.get(k, "application/json")


def path_template(op: dict) -> str:
    return "/" + "/".join(s["v"] if s["k"] == "lit" else "{" + s["v"] + "}" for s in op["segs"])


def param_node(p: dict) -> dict:
    return {"name": p["name"], "in": p["in"], "required": bool(p["required"]), "schema": TYPE_SCHEMA[p["type"]]}


def document(ops: list[dict], own_tags: bool = False) -> dict:
    """own_tags: one tag (= one endpoints module) per operation.  Operations with the same `item` share one path item (and its
    path-level parameters, rendered inline or through components/parameters, before or after the method keys)."""
    paths: dict[str, Any] = {}
    comp_params: dict[str, Any] = {}
    for op in ops:
        node: dict[str, Any] = {"operationId": "op_" + op["id"], "tags": ["t" + op["id"] if own_tags else "t"], "responses": {"200": {"description": "ok", "content": {"application/json": {"schema": _ref("R")}}}}}
        pl = [param_node(p) for p in op["params"] if p["level"] == "path"]
        ol = [param_node(p) for p in op["params"] if p["level"] == "op"]
        if ol:
            node["parameters"] = ol
        if op["body"]["kind"] != "none":
            content = BODY_CONTENT.get(op["body"]["kind"]) or {op["body"]["media"]: {"schema": {"type": "string", "format": "binary"}}}
            if op["body"]["kind"] == "json_prim":
                content = {"application/json": {"schema": {"type": {"int": "integer", "bool": "boolean"}.get(op["body"].get("ptype", ""), "string")}}}
            node["requestBody"] = {"required": bool(op["body"]["required"]), "content": content}
        if pl and op.get("pref"):
            for n, pn in enumerate(pl):
                comp_params[f"P{op.get('item', op['id'])}n{n}"] = pn
            pl = [{"$ref": f"#/components/parameters/P{op.get('item', op['id'])}n{n}"} for n in range(len(pl))]
        item = paths.setdefault(path_template(op), {})
        item.pop("parameters", None)
        if pl and not op.get("pafter"):
            item = {"parameters": pl, **item}
        item[op["method"].lower()] = node
        if pl and op.get("pafter"):
            item["parameters"] = pl
        paths[path_template(op)] = item
    comps: dict[str, Any] = {"schemas": COMPONENTS}
    if comp_params:
        comps["parameters"] = comp_params
    return {"openapi": "3.0.3", "info": {"title": "Wire", "version": "1.0.0"}, "paths": paths, "components": comps}


# ---------------------------------------------------------------------------------------------
# generation + observation


def generate_and_observe(chk: Check, groups: list[list[dict]], label: str, compile_only: set[int] = frozenset()) -> list[dict]:
    """compile_only: indices of groups (operations the model predicts not to compile, one endpoints module each) that are only compiled."""
    root = chk.scratch.sub("gen_" + label)
    jobs = [{"id": f"{label}{j}", "root": str(root), "spec": document(g, own_tags=j in compile_only), "pkg": f"p{label}{j}", "core": None, "force": True, "nopp": True} for j, g in enumerate(groups)]
    gres = core.parallel_py(chk.scratch, "harness.w_gen", jobs)
    ojobs = [{"id": j["id"], "root": j["root"], "pkg": j["pkg"], "core": None, "want": ["compile"] if n in compile_only else ["surface", "wire4"], "max_plans": 8, "max_falsy": 6, "default_headers": DEFAULT_HEADERS, "pair_stride": 1 if chk.tier == "thorough" else 2} for n, (j, g) in enumerate(zip(jobs, gres)) if g["ok"]]
    ores = {r["id"]: r for r in core.parallel_py(chk.scratch, "harness.w_obs", ojobs, env={"VERIF_OBS_EXTRA": "harness.obs_wire,harness.obs_c04"})} if ojobs else {}
    for r in ores.values():
        if "wire4" in r:
            r["wire"] = r.pop("wire4")
    return [{"ops": g, "job": j, "gen": gr, "obs": ores.get(j["id"])} for g, j, gr in zip(groups, jobs, gres)]


def fold(name: str) -> str:
    return re.sub(r"[^a-z0-9]", "", name.lower())


def eff_params(op: dict) -> list[int]:
    """1-based indices of the parameters that count (operation level overrides path level), in declaration order."""
    out = []
    for i, p in enumerate(op["params"]):
        if p["level"] == "path" and any(q["level"] == "op" and q["name"] == p["name"] and q["in"] == p["in"] for q in op["params"]):
            continue
        out.append(i + 1)
    return out


ANN_TOKEN = {"str": "str", "int": "int", "bool": "bool", "enum": "Color", "date": "date", "datetime": "datetime", "array": "[Ll]ist"}


def ann_fits(ann: str, typ: str) -> bool:
    return not ann or ann == "Any" or re.search(r"\b" + ANN_TOKEN[typ] + r"\b", ann) is not None


BODY_ARG_NAMES = ("body", "files", "form_data", "bytes_content", "data")


def seen_locations(py: str, calls: list[dict]) -> set[str]:
    """Value flow: the locations in which the token of argument `py` shows up in any captured request."""
    out: set[str] = set()
    for c in calls:
        v = c["args"].get(py, "__none__")
        if v == "__none__" or isinstance(v, (bool, dict)):
            continue
        toks = {x if isinstance(x, str) else str(x) for x in (v if isinstance(v, list) else [v])}
        for rq in c["requests"]:
            if any(x in toks for _, x in rq["query"]):
                out.add("query")
            if any(x in toks for _, x in rq["headers"]):
                out.add("header")
            if any(x in toks for _, x in rq["cookies"]):
                out.add("cookie")
            if any(x in toks for x in unquote(rq["path"]).split("/")):
                out.add("path")
    return out


def bind_signature(op: dict, sig: list[list], calls: list[dict] = ()) -> list[dict]:
    """Observed python signature -> signature entries bound to declared parameters: folded names first (several
    candidates: the one in whose location the argument's token is seen on the wire, else a non-cookie one, else the
    first), then generator conventions for body carriers, then position."""
    eff = eff_params(op)
    free = list(eff)
    out: list[dict | None] = [None] * len(sig)
    for j, (name, _kind, has_default, default, ann) in enumerate(sig):
        # same folded name AND an annotation that can hold the declared type (`body: M | None` is not the cookie parameter `body`)
        cands = [i for i in free if fold(op["params"][i - 1]["name"]) == fold(name) and ann_fits(ann, op["params"][i - 1]["type"])]
        if len(cands) > 1:
            seen = seen_locations(name, list(calls))
            cands.sort(key=lambda i: (op["params"][i - 1]["in"] not in seen, op["params"][i - 1]["in"] == "cookie", i))
        if cands:
            free.remove(cands[0])
            out[j] = {"py": name, "role": "param", "target": cands[0], "ctype": "", "opt": bool(has_default)}
    kind = op["body"]["kind"]
    nbody = 0 if kind == "none" else 2 if kind == "two" else 1
    rest = [j for j in range(len(sig)) if out[j] is None]
    # selectors: optional arguments whose default is not None
    for j in list(rest):
        name, _k, has_default, default, ann = sig[j]
        if has_default and default != "None":
            out[j] = {"py": name, "role": "selector", "target": 0, "ctype": "", "opt": True}
            rest.remove(j)
    bodies = [j for j in rest if sig[j][0] in BODY_ARG_NAMES][:nbody]
    if len(bodies) < nbody:
        bodies += [j for j in rest if j not in bodies and ("IO[" in sig[j][4] or sig[j][4].startswith("bytes"))][: nbody - len(bodies)]
    for j in bodies:
        name, _k, has_default, default, ann = sig[j]
        if kind == "two":
            ctype = "multipart/form-data" if "IO[" in ann else "application/json"
        else:
            ctype = body_ctype_of(op["body"])
        out[j] = {"py": name, "role": "body", "target": 0, "ctype": ctype, "opt": bool(has_default)}
        rest.remove(j)
    for j in rest:  # position
        name, _k, has_default, default, ann = sig[j]
        if free:
            out[j] = {"py": name, "role": "param", "target": free.pop(0), "ctype": "", "opt": bool(has_default)}
        else:
            out[j] = {"py": name, "role": "extra", "target": 0, "ctype": "", "opt": bool(has_default)}
    return out  # type: ignore[return-value]


def canon(v: Any) -> str:
    return json.dumps(v, sort_keys=True, separators=(",", ":"))


def leaf(x: Any, typ: str) -> dict:
    if isinstance(x, bool):
        return {"v": "true" if x else "false", "alt": "True" if x else "False"}
    if typ == "datetime" and isinstance(x, str):
        return {"v": x, "alt": x.replace("+00:00", "Z")}
    return {"v": x if isinstance(x, str) else canon(x) if isinstance(x, (dict, list)) else str(x), "alt": ""}


def arg_record(entry: dict, op: dict, value: Any) -> dict:
    if entry["role"] == "param":
        typ = op["params"][entry["target"] - 1]["type"]
        xs = value if isinstance(value, list) else [value]
        return {"sup": True, "leaves": [leaf(x, typ) for x in xs], "canon": canon(value)}
    if entry["role"] == "body":
        ct = entry["ctype"]
        if ct not in ("application/json", "application/x-www-form-urlencoded", "multipart/form-data") and isinstance(value, str):  # a bytes carrier
            try:
                return {"sup": True, "leaves": [], "canon": base64.b64decode(value).decode("utf-8", "replace")}
            except Exception:  # noqa: BLE001
                pass
        if ct in ("application/x-www-form-urlencoded", "multipart/form-data") and isinstance(value, dict):
            return {"sup": True, "leaves": [], "canon": canon({k: x if isinstance(x, str) else canon(x) for k, x in value.items()})}
        return {"sup": True, "leaves": [], "canon": canon(value)}
    return {"sup": True, "leaves": [], "canon": canon(value)}


NOARG = {"sup": False, "leaves": [], "canon": ""}


def vclass(v: str) -> str:
    if v == "":
        return "empty"
    if v.startswith(BASE):
        return "url"
    if re.fullmatch(r"[A-Z]\w*\.[A-Z_][A-Z_0-9]*", v):
        return "enumrepr"
    if v == "None":
        return "none"
    if v[:1] in "{[(" or v.startswith("<"):
        return "repr"
    return ""


def parse_multipart(text: str, ctype: str) -> dict | None:
    m = re.search(r"boundary=([^;]+)", ctype)
    if not m:
        return None
    out = {}
    for part in text.split("--" + m.group(1)):
        part = part.strip("\r\n")
        if not part or part == "--":
            continue
        head, _, content = part.partition("\r\n\r\n")
        nm = re.search(r'name="([^"]*)"', head)
        if nm:
            out[nm.group(1)] = content
    return out


def body_summary(rq: dict) -> tuple[str, str]:
    ctype = rq.get("ctype", "") or ""
    cls = ctype.split(";")[0].strip().lower()
    text = rq.get("body_text", "") or ""
    bj = rq.get("body_json", "__none__")
    if cls == "application/x-www-form-urlencoded":
        return cls, canon(dict(parse_qsl(text, keep_blank_values=True)))
    if cls == "multipart/form-data":
        parts = parse_multipart(text, ctype)
        return cls, canon(parts) if parts is not None else text
    if bj == "__none__":
        return cls, ""
    if bj == "__notjson__":
        return cls, text
    if cls in ("", "application/octet-stream") and not text.lstrip().startswith(("{", "[", '"')):
        return cls, text
    return cls, canon(bj)


def exc_class(exc: dict) -> str:
    msg = exc.get("msg", "")
    if "Header value must be str or bytes" in msg:
        return "header_value_not_str"
    if "One of the content-type parameters must be provided" in msg:
        return "no_content_argument"
    return re.sub(r"'[^']*'", "'*'", re.sub(r"\d+", "N", msg))[:60]


def request_summary(call: dict) -> dict:
    reqs = call.get("requests") or []
    out = {"n": len(reqs), "method": "", "path": [], "query": [], "headers": [], "cookies": [], "ctype": "", "body": "", "exc": "", "msgclass": "", "blame": []}
    oc = call.get("outcome") or {}
    if oc.get("kind") == "raise":
        out["exc"] = oc["exc"]["type"]
        out["msgclass"] = exc_class(oc["exc"])
    if reqs:
        rq = reqs[0]
        out["method"] = rq["method"]
        out["path"] = [{"v": s, "c": vclass(s)} for s in unquote(rq["path"]).strip("/").split("/")]
        out["query"] = [{"k": k, "v": v, "c": vclass(v)} for k, v in rq["query"]]
        # the transport's configured default header is not part of the call (C17 judges defaults); anything ELSE that an earlier
        # call of the same client left behind is judged like any other header
        strip = [[dk.lower(), dv] for dk, dv in DEFAULT_HEADERS.items()] + [list(x) for x in call.get("strip_headers") or []]
        out["headers"] = [{"k": k.lower(), "v": v, "c": vclass(v)} for k, v in rq["headers"] if [k.lower(), v] not in strip]
        out["cookies"] = [{"k": k, "v": v, "c": vclass(v)} for k, v in rq["cookies"]]
        out["ctype"], out["body"] = body_summary(rq)
    return out


def build_trace(op: dict, sig_obs: list[list], calls: list[dict]) -> tuple[dict, list[dict]]:
    """One trace per operation: bound signature + the well-typed calls."""
    sig = bind_signature(op, sig_obs, calls)
    idx = {e["py"]: j for j, e in enumerate(sig)}
    multi = op["body"]["kind"] == "two"
    recs = []
    for n, c in enumerate(calls):
        supplied = [idx[a] for a in c["args"] if a in idx]
        nbody = sum(1 for j in supplied if sig[j]["role"] == "body")
        if any(sig[j]["role"] == "selector" for j in supplied):
            continue  # a selector value outside its Literal type is not a well-typed call
        if multi and nbody != 1:
            continue  # the overloads allow exactly one content argument
        if c.get("mode") == "falsy":
            e = sig[idx[c["falsy"]]] if c.get("falsy") in idx else None
            if e is None or (e["role"] == "body" and e["ctype"] != "application/json") or e["role"] not in ("param", "body"):
                continue  # an empty form / multipart / octet payload has no single wire meaning
            if e["role"] == "param" and op["params"][e["target"] - 1]["type"] == "array":
                continue  # neither has an empty array parameter
        args = [arg_record(sig[j], op, c["args"][sig[j]["py"]]) if j in supplied and c["args"][sig[j]["py"]] != "__none__" else dict(NOARG) for j in range(len(sig))]
        recs.append({"cid": n, "args": args, "r": request_summary(c), "suspects": [], "want_expected": False, "_mode": c.get("mode", "tokens"), "_sup": {j for j in supplied if sig[j]["role"] == "param"}, "_raw": c})
    # suspects of a raising call: the supplied parameters without which the same method does send
    sent = [r for r in recs if r["r"]["n"] > 0]
    for r in recs:
        if r["r"]["n"] == 0 and r["r"]["exc"]:
            sub = [s for s in sent if s["_sup"] < r["_sup"]]
            if sub:
                best = max(sub, key=lambda s: len(s["_sup"]))
                r["suspects"] = sorted(j + 1 for j in r["_sup"] - best["_sup"])
            else:
                r["suspects"] = sorted(j + 1 for j in r["_sup"])
    trace = {"id": op["id"], "op": op, "sig": sig, "calls": [{k: v for k, v in r.items() if not k.startswith("_")} for r in recs]}
    return trace, recs


# ---------------------------------------------------------------------------------------------
# negatives: corrupted copies of clean observations that the monitor must reject with the named clause


def _first(lst, pred):
    return next((x for x in lst if pred(x)), None)


def negative_needs(trace: dict, call: dict) -> set[str]:
    """What a call offers for building negative traces (which corruptions of its reference request are possible)."""
    needs = set()
    for j, e in enumerate(trace["sig"]):
        if e["role"] == "param":
            p = trace["op"]["params"][e["target"] - 1]
            if call["args"][j]["sup"]:
                if p["in"] == "query" and p["type"] in ("str", "int", "date"):
                    needs.add("q")
                if p["in"] == "header" and p["type"] in ("str", "date"):
                    needs.add("h")
                if p["in"] == "path":
                    needs.add("path")
            elif p["in"] == "query":
                needs.add("omq")
        elif e["role"] == "body" and call["args"][j]["sup"]:
            needs.add("body")
    return needs


def make_negatives(clean: list[tuple[dict, dict]]) -> list[dict]:
    """clean: (trace, call) pairs where call["r"] is the REFERENCE request of the call (Wire!ExpectedRequest, printed by the
    monitor on demand) - the negatives do not depend on the code under test being right anywhere."""
    out = []

    def add(name, expect, trace, call, r):
        t = {"id": f"neg-{name}", "op": trace["op"], "sig": trace["sig"], "calls": [{**call, "cid": 0, "r": r}]}
        out.append({"trace": t, "expect": expect, "name": name})

    def supplied(trace, call, loc, types=None):
        for j, e in enumerate(trace["sig"]):
            if e["role"] == "param" and call["args"][j]["sup"]:
                p = trace["op"]["params"][e["target"] - 1]
                if p["in"] == loc and (types is None or p["type"] in types):
                    return p
        return None

    tok = ("str", "int", "date")
    done = set()
    for trace, call in clean:
        r = call["r"]
        if r["n"] != 1:
            continue
        q = supplied(trace, call, "query", tok)
        h = supplied(trace, call, "header", ("str", "date"))
        om = [trace["op"]["params"][e["target"] - 1] for j, e in enumerate(trace["sig"]) if e["role"] == "param" and not call["args"][j]["sup"]]
        omq = _first(om, lambda p: p["in"] == "query")
        cands = []
        if q:
            ent = _first(r["query"], lambda e: e["k"] == q["name"])
            if ent:
                cands += [
                    ("query_dropped", "C04.query_missing", {**r, "query": [e for e in r["query"] if e["k"] != q["name"]]}),
                    ("query_renamed", "C04.query_name", {**r, "query": [{**e, "k": "zz_" + fold(e["k"])} if e["k"] == q["name"] else e for e in r["query"]]}),
                    ("query_to_header", "C04.wrong_location", {**r, "query": [e for e in r["query"] if e["k"] != q["name"]], "headers": r["headers"] + [{**ent, "k": q["lname"]}]}),
                    ("query_value_changed", "C04.query_value", {**r, "query": [{**e, "v": e["v"] + "x"} if e["k"] == q["name"] else e for e in r["query"]]}),
                    ("query_extra", "C04.query_extra", {**r, "query": r["query"] + [{"k": "zz", "v": "other", "c": ""}]}),
                ]
        if h:
            cands += [
                ("header_dropped", "C04.header_missing", {**r, "headers": [e for e in r["headers"] if e["k"] != h["lname"]]}),
                ("header_extra", "C04.header_extra", {**r, "headers": r["headers"] + [{"k": "x-zz", "v": "other", "c": ""}]}),
            ]
        if omq:
            cands.append(("omitted_sent", "C04.none_sent", {**r, "query": r["query"] + [{"k": omq["name"], "v": "", "c": "empty"}]}))
        if r["body"]:
            cands += [
                ("body_changed", "C04.body_json", {**r, "body": r["body"] + " "}),
                ("ctype_changed", "C04.body_ctype", {**r, "ctype": "text/plain"}),
            ]
        if len(r["path"]) > 1:
            cands.append(("path_changed", "C04.path", {**r, "path": r["path"][:-1] + [{"v": r["path"][-1]["v"] + "x", "c": ""}]}))
        cands += [
            ("method_changed", "C04.method", {**r, "method": "OPTIONS"}),
            ("sent_twice", "C04.count", {**r, "n": 2}),
            ("nothing_sent", "C04.count", {**r, "n": 0}),
            ("cookie_extra", "C04.cookie_extra", {**r, "cookies": r["cookies"] + [{"k": "zz", "v": "other", "c": ""}]}),
        ]
        for name, expect, rr in cands:
            if name not in done:
                done.add(name)
                add(name, expect, trace, call, rr)
        if "reference_itself" not in done:
            done.add("reference_itself")
            add("reference_itself", "", trace, call, r)
    return out


NEGATIVE_NAMES = ["query_dropped", "query_renamed", "query_to_header", "query_value_changed", "query_extra", "header_dropped", "header_extra", "omitted_sent", "body_changed", "ctype_changed", "path_changed", "method_changed", "sent_twice", "nothing_sent", "cookie_extra"]


# ---------------------------------------------------------------------------------------------
# judging


def run_monitor(chk: Check, traces: list[dict], label: str) -> dict[tuple[str, int], dict]:
    d = chk.scratch.sub("traces")
    tf = d / "traces.ndjson"
    ncalls = 0
    with tf.open("w") as f:
        for t in traces:
            if t["calls"]:
                f.write(json.dumps(t) + "\n")
                ncalls += len(t["calls"])
    if ncalls == 0:
        return {}
    cfg = 'SPECIFICATION MSpec\nCONSTANTS\n Ops <- NoOps\n Variant = "as_is"\n Emit = FALSE\nCHECK_DEADLOCK FALSE\n'
    r = run_tlc(chk.scratch, "Trace_Wire", cfg, env={"TRACE_FILE": str(tf)}, timeout=1500)
    chk.add_tlc(f"Trace_Wire[{label}]", r)
    vs = {(v["id"], v["cid"]): v for v in r.printed.get("VERDICT", [])}
    chk.require(len(vs) == ncalls, f"monitor produced {len(vs)} verdicts for {ncalls} calls")
    return vs


_seen: dict[str, int] = {}


def brief_request(raw: dict) -> dict:
    out = []
    for rq in raw.get("requests") or []:
        out.append({"method": rq["method"], "path": rq["path"], "query": rq["query"], "headers": [h for h in rq["headers"] if h[0].lower() not in ("host", "accept", "accept-encoding", "connection", "user-agent")], "cookies": rq["cookies"], "body": (rq.get("body_text") or "")[:200]})
    oc = raw.get("outcome") or {}
    return {"args": raw.get("args"), "omitted": raw.get("omitted"), "requests": out, "raised": oc.get("exc") if oc.get("kind") == "raise" else None}


def judge(chk: Check, items: list[tuple[dict, list[dict]]], label: str, negatives: bool, verbose: bool = False) -> Counter:
    """items: (trace, call records with _raw).  Returns the counter of model-vs-observation disagreements."""
    drift: Counter = Counter()
    for start in range(0, len(items), CHUNK):
        part = items[start : start + CHUNK]
        traces = [t for t, _ in part]
        negs: list[dict] = []
        if negatives and start == 0:
            # ask the monitor for the reference request of a few calls that between them allow every corruption
            missing = {"q", "h", "omq", "body", "path"}
            for t in traces:
                for call in t["calls"]:
                    got = negative_needs(t, call) & missing
                    if got:
                        call["want_expected"] = True
                        missing -= got
                if not missing:
                    break
        vs = run_monitor(chk, traces, f"{label}#{start // CHUNK}")
        clean: list[tuple[dict, dict]] = []
        for trace, recs in part:
            op = trace["op"]
            for call, rec in zip(trace["calls"], recs):
                v = vs[(trace["id"], call["cid"])]
                a = v["ante"]
                chk.count(1)
                chk.cov["traces_validated_against_impl"] += 1
                chk.cov.setdefault("value_modes", {}).setdefault(rec["_mode"], 0)
                chk.cov["value_modes"][rec["_mode"]] += 1
                if rec["_mode"] == "concurrent":
                    role = rec["_raw"].get("role", "")
                    chk.cov.setdefault("concurrent_roles", {}).setdefault(role, 0)
                    chk.cov["concurrent_roles"][role] += 1
                chk.clause("C04.count", 1)
                chk.clause("C04.method", a["sent"] and 1)
                chk.clause("C04.path", a["path"] if a["sent"] else 0)
                for loc in LOCATED:
                    n = a[loc] if a["sent"] else 0
                    for k in ("missing", "value", "name"):
                        chk.clause(f"C04.{loc}_{k}", n)
                    chk.clause(f"C04.{loc}_extra", a["sent"] and 1)
                chk.clause("C04.wrong_location", (a["query"] + a["header"] + a["cookie"] + a["path"]) if a["sent"] else 0)
                chk.clause("C04.none_sent", a["omitted"] if a["sent"] else 0)
                chk.clause("C04.body_ctype", a["sent"] and 1)
                chk.clause("C04.body_json", a["body"] if a["sent"] else 0)
                chk.clause("C04.call_raised", a["raised"])
                chk.clause("C04.no_argument", len(op["params"]) + (1 if op["body"]["kind"] != "none" else 0))
                if a["query"] + a["header"] + a["cookie"] + a["path"] + a["body"] > 0:
                    chk.nontrivial({"op": op["id"], "sup": [x["sup"] for x in call["args"]]})
                fails = v.get("fails") or []
                if call.get("want_expected"):
                    clean.append((trace, {**call, "want_expected": False, "r": v["expected"]}))
                obs = {fkey(f["clause"], f["locus"], drop=("observed", "msgclass")) for f in fails}
                mod = {fkey(f["clause"], f["locus"], drop=("observed", "msgclass")) for f in (v.get("model") or [])}
                if obs != mod or v["model_dead"]:
                    for k in obs ^ mod:
                        drift[("obs-only " if k in obs else "model-only ") + k] += 1
                    if v["model_dead"]:
                        drift["model predicted a duplicate argument, package imports"] += 1
                for f in fails:
                    loc = clean_locus(f["locus"])
                    k = fkey(f["clause"], loc)
                    _seen[k] = _seen.get(k, 0) + 1
                    scen = {"op": op, "sig": [[e["py"], e["role"], e["target"]] for e in trace["sig"]]}
                    if _seen[k] <= 3:
                        chk.fail(f["clause"], loc, {**scen, "call": brief_request(rec["_raw"])}, "observed " + json.dumps(brief_request(rec["_raw"]))[:600])
                    else:
                        chk.fail(f["clause"], loc, {"op": op}, "")
                if verbose:
                    print("OPERATION", json.dumps(op))
                    print("SIGNATURE", json.dumps(trace["sig"]))
                    print("CALL     ", json.dumps(brief_request(rec["_raw"])))
                    print("VERDICT  ", json.dumps({"fails": [[f["clause"], clean_locus(f["locus"])] for f in fails], "model": [[f["clause"], clean_locus(f["locus"])] for f in v.get("model") or []]}))
        if negatives and start == 0:
            negs = make_negatives(clean)
            if negs:
                nv = run_monitor(chk, [n["trace"] for n in negs], f"{label}#negatives")
                for n in negs:
                    got = [f["clause"] for f in nv[(n["trace"]["id"], 0)].get("fails") or []]
                    if n["expect"] == "":
                        chk.require(all(g == "C04.no_argument" for g in got), f"the reference request of a call is not accepted by the judge: {got}")
                        continue
                    chk.require(n["expect"] in got, f"negative trace {n['name']} was not rejected with {n['expect']}: monitor said {got}")
                    chk.cov.setdefault("negative_traces_rejected", {})[n["name"]] = n["expect"]
    return drift


def observe_ops(chk: Check, scen: list[dict]) -> tuple[list[tuple[dict, list[dict]]], dict[str, Any]]:
    """Generate + observe every operation; returns (trace, call records) per importable, identified operation."""
    stats: dict[str, Any] = {"operations": len(scen), "unimportable": Counter(), "generation_failed": 0, "unidentified": 0, "packages": 0, "second_round": 0}
    # packing (hints from the model, nothing depends on them being right): operations predicted not to compile go together, one
    # endpoints module each, and are only compiled; operations predicted never to send are spread one per package so that they
    # can be identified by elimination; a wrong hint sends the operation to the second round (a package of its own)
    # the packing unit is the PATH ITEM: operations that share one stay in one document
    units: dict[str, list[dict]] = {}
    for s in scen:
        units.setdefault(s["op"].get("item", s["op"]["id"]), []).append(s)
    deads = [u[0]["op"] for u in units.values() if len(u) == 1 and u[0].get("dead")]
    mute = [[s["op"] for s in u] for u in units.values() if not (len(u) == 1 and u[0].get("dead")) and any(s.get("raises") or s.get("dead") for s in u)]
    normal = [[s["op"] for s in u] for u in units.values() if not any(s.get("raises") or s.get("dead") for s in u)]
    npk = max(-(-(sum(map(len, mute)) + sum(map(len, normal))) // PACK), len(mute), 1)
    live: list[list[dict]] = [[] for _ in range(npk)]
    for n, u in enumerate(mute):
        live[n] += u
    for n, u in enumerate(normal):
        live[n % npk] += u
    live = [g for g in live if g]
    groups = live + [deads[i : i + PACK] for i in range(0, len(deads), PACK)]
    compile_only = set(range(len(live), len(groups)))
    model_sig = {s["op"]["id"]: s for s in scen}
    items: list[tuple[dict, list[dict]]] = []
    pending: list[dict] = []
    for rnd in (1, 2):
        if not groups:
            break
        res = generate_and_observe(chk, groups, f"r{rnd}x", compile_only if rnd == 1 else frozenset())
        stats["packages"] += len(groups)
        groups = []
        for rec in res:
            ops = {op["id"]: op for op in rec["ops"]}
            o = rec["obs"]
            if rec["gen"]["ok"] and o and "compile" in o and "wire" not in o:
                # which endpoints module holds which operation: the one whose source contains the operation's path literal
                errs = {e["file"]: e for e in o["compile"].get("errors", [])}
                edir = Path(rec["job"]["root"]).joinpath(*rec["job"]["pkg"].split("."), "endpoints")
                texts = {str(f.relative_to(rec["job"]["root"])): f.read_text() for f in edir.glob("*.py") if f.name != "__init__.py"} if edir.exists() else {}
                for opid, op in ops.items():
                    lit = op.get("item", opid)
                    files = [f for f, t in texts.items() if f'/{lit}"' in t or f"/{lit}/" in t]
                    if len(files) == 1 and files[0] in errs:
                        stats["unimportable"][import_msgclass("SyntaxError", errs[files[0]]["msg"])] += 1
                    else:
                        pending.append(op)
                continue
            if not rec["gen"]["ok"]:
                if len(ops) == 1:
                    stats["generation_failed"] += 1
                    chk.note_drift(f"generator rejected operation {next(iter(ops))}: {rec['gen']['err']}")
                else:
                    pending += list(ops.values())
                continue
            wire = o.get("wire") if o else None
            surf = o.get("surface") if o else None
            if not isinstance(wire, list) or not isinstance(surf, dict) or "clients" not in surf:
                if len(ops) == 1:
                    # the observer could not even import <pkg>.client: which exception (C01 judges it, here it is counted)
                    err = ((o or {}).get("surface") or {}).get("observer_error") or ((o or {}).get("wire") or {}).get("observer_error") if isinstance((o or {}).get("wire"), dict) or isinstance((o or {}).get("surface"), dict) else None
                    if not err or err.get("type") not in ("SyntaxError", "ImportError", "ModuleNotFoundError", "NameError", "TypeError", "AttributeError"):
                        raise core.MachineryError(f"wire observer failed on a package: {json.dumps(o)[:800]}")
                    cls = import_msgclass(err["type"], err["msg"])
                    stats["unimportable"][cls] += 1
                    if not model_sig[next(iter(ops))].get("dead"):
                        chk.note_drift(f"operation {next(iter(ops))} does not import ({cls}) but Wire.tla predicts a valid signature")
                else:
                    pending += list(ops.values())
                continue
            sigs = {}
            for c in surf["clients"]:
                for mn, m in c["methods"].items():
                    sigs[(c["prop"], mn)] = m["sig"]
            by_method: dict[tuple[str, str], list[dict]] = {}
            for c in wire:
                by_method.setdefault((c["prop"], c["method"]), []).append(c)
            ident: dict[tuple[str, str], str] = {}
            by_item: dict[str, dict[str, str]] = {}
            for opid, op in ops.items():
                by_item.setdefault(op.get("item", opid), {})[op["method"]] = opid
            for key, calls in by_method.items():
                # (method, path) of the requests the method sends; a path item with one operation is identified by the path alone
                sent = {(rq["method"], unquote(rq["path"]).strip("/").split("/")[0]) for c in calls for rq in c["requests"]}
                hit = set()
                for m, first in sent:
                    sib = by_item.get(first)
                    hit.add(None if not sib else next(iter(sib.values())) if len(sib) == 1 else sib.get(m))
                if len(hit) == 1 and None not in hit and next(iter(hit)) not in ident.values():
                    ident[key] = next(iter(hit))
            left_m = [k for k in by_method if k not in ident]
            left_o = [i for i in ops if i not in ident.values()]
            if len(left_m) == 1 and len(left_o) == 1 and len(by_method) == len(ops):
                ident[left_m[0]] = left_o[0]  # as many methods as operations and all others identified: by elimination
                left_m, left_o = [], []
            for key, opid in ident.items():
                op = ops[opid]
                trace, recs = build_trace(op, sigs.get(key, []), by_method[key])
                items.append((trace, recs))
                ms = model_sig[opid]
                if ms.get("dead"):
                    chk.note_drift(f"Wire.tla predicts a duplicate argument for operation {opid} but the package imports")
                else:
                    want = [(e["py"], e["role"]) for e in ms["sig"]]
                    got = [(e["py"], e["role"]) for e in trace["sig"]]
                    if want != got:
                        stats.setdefault("signature_drift", Counter())[json.dumps([want, got])[:300]] += 1
            if left_o:
                if len(ops) == 1:
                    stats["unidentified"] += 1
                    stats.setdefault("unidentified_ops", []).append(ops[left_o[0]])
                else:
                    pending += [ops[i] for i in left_o]
        if rnd == 1:
            groups = [[op] for op in pending]
            stats["second_round"] = len(groups)
            pending = []
    items.sort(key=lambda it: it[0]["id"])
    return items, stats


def run(chk: Check) -> None:
    thorough = chk.tier == "thorough"
    tier = "thorough" if thorough else "quick"
    chk.cov["rule"] = (
        "TLC (Gen_Wire.tla) enumerates one operation per scenario: method {GET,POST,PUT,PATCH,DELETE}; 1-3 (thorough 1-4) parameters from "
        "(location x required) {path, query R/O, header R/O, cookie R/O} x type {str,int,bool,enum($ref),date,datetime,array-of-str} x name "
        "shape {limit, page-size, pageSize, class, url, params, headers, body, id} x declared at path level / operation level; body {none, "
        "JSON model, JSON primitive (str/int/bool), JSON array of models, JSON free-form object, form, multipart, octet, any other media type (text/csv, "
        "application/xml, image/png, application/pdf, text/plain, application/vnd.x+json), two content types}; G path items shared by 2-3 operations "
        "(two path-level parameters; rendered inline / by $ref, before / after the method keys).  Deterministic stratified selection: A single "
        "parameters with (a+b+c)%3=0 (every pair of dimensions), B one parameter x every body kind, C pairs of (loc/req, shape) with sum%4=0, "
        "D triples over three different loc/req kinds with an orthogonal-array third shape, names folding differently and sum%6=0, E a path-level "
        "parameter repeated at operation level; thorough: A complete, B x6, C all pairs x3, D all x4, E x every type, F quadruples x8.  Every method is called with "
        "<= 8 subsets of its optional arguments (all subsets for <= 3 optionals, else none / all / singles); non-trivial = call that supplies "
        "at least one declared parameter or body, distinct by (operation, supplied set)"
    )
    chk.assumptions += [
        "the request is the httpx.Request handed to an httpx.MockTransport injected by wrapping httpx.AsyncClient.__init__ (harness/obs_wire.py)",
        "python arguments are bound to declared parameters by folded names (lower-case alphanumerics), generator conventions for body carriers, then position - never by the sanitiser under test; the judge confirms by value flow",
        "operations whose package does not compile/import (C01's findings: duplicate argument names) are counted and skipped",
        "for operations with several request content types only calls with exactly one content argument (what the @overload signatures allow) are judged",
        "tolerances (in Wire.tla): httpx's own headers are not extra; arrays may be repeated keys or comma-joined; true/True; +00:00/Z; header names case-insensitive",
        "array-typed path parameters and request bodies on GET/DELETE are outside the family",
    ]
    side = _SubScratch(chk, "side")
    with ThreadPoolExecutor(max_workers=1) as pool:
        fut = pool.submit(side_runs, side)
        scen, design_dev = family_run(chk, tier)
        items: list = []
        stats: dict[str, Any] = {}
        if scen:
            items, stats = observe_ops(chk, scen)
            drift = judge(chk, items, tier, negatives=True)
        else:
            drift = Counter()
        for name, r, variant in fut.result():
            account_side(chk, name, r, variant)
    strata = Counter(s["op"]["id"][0].upper() for s in scen)
    chk.cov["strata"] = dict(sorted(strata.items()))
    chk.cov["operations"] = {
        "generated": len(scen),
        "judged": len(items),
        "unimportable": dict(stats.get("unimportable", {})),
        "generation_failed": stats.get("generation_failed", 0),
        "unidentified": stats.get("unidentified", 0),
        "packages": stats.get("packages", 0),
        "second_round_singles": stats.get("second_round", 0),
        "model_predicted_dead": sum(1 for s in scen if s.get("dead")),
    }
    findings = [f for f in core.load_findings() if f.get("property") == chk.prop]
    dd = []
    for k, n in sorted(design_dev.items()):
        clause, locus = json.loads(k)
        hit = next((e["id"] for e in findings if core._match(e, clause, locus)), "")
        dd.append({"clause": clause, "locus": locus, "modelled_calls": n, "finding": hit})
    chk.cov["design_deviations"] = {"distinct": len(dd), "by_clause": dict(Counter(d["clause"] for d in dd)), "unmatched": [d for d in dd if not d["finding"]][:40]}
    sd = stats.get("signature_drift")
    if sd:
        k, n = sd.most_common(1)[0]
        chk.note_drift(f"{sum(sd.values())} operation(s) whose python signature differs from the one Wire.tla derives; most frequent (model, observed): {k}")
    if drift:
        tot = sum(drift.values())
        for k, n in drift.most_common(4):
            chk.note_drift(f"as-is model vs observation: {n} call(s) {k[:260]}")
        chk.cov["model_drift_calls"] = tot
    # an accepted operation, alone in an importable package, that no generated method sends: "for every operation ... awaiting the
    # generated method issues exactly one HTTP request" has nothing to await
    chk.clause("C04.no_method", stats.get("operations", 0))
    for op in stats.get("unidentified_ops", []):
        chk.fail("C04.no_method", {"method": op.get("method", ""), "body": (op.get("body") or {}).get("kind", "")}, {"op": op}, "no method of the emitted client sends a request to this operation's path")
    if stats.get("unidentified"):
        chk.note_drift(f"{stats['unidentified']} operation(s) could not be identified with a method")
    chk.require(len(items) > 0.5 * len(scen), f"only {len(items)} of {len(scen)} operations could be observed")
    if not any(f["clause"] == "C04.design_invariant" for f in chk.fails):
        missing = [n for n in NEGATIVE_NAMES if n not in chk.cov.get("negative_traces_rejected", {})]
        chk.require(not missing, f"negative traces never exercised: {missing}")
    for c in CLAUSES:
        chk.require(chk.cov["clauses_checked"].get(c, 0) > 0, f"clause {c} was never evaluated")
    chk.require(chk.cov.get("concurrent_roles", {}).get("suspended", 0) > 0, "no call was ever suspended inside the auth plug-in while another ran")
    for m in ("tokens", "falsy", "aliased", "concurrent"):
        chk.require(chk.cov.get("value_modes", {}).get(m, 0) > 0, f"no call in value mode {m} was judged")
    if items:
        t, recs = items[len(items) // 3]
        chk.sample({"operation": t["op"], "signature": t["sig"], "call": brief_request(recs[-1]["_raw"]) if recs else None})
    chk.cov["exhaustive"] = False  # a stratified selection of the operation space, exhaustive within the strata


def replay(chk: Check, path: str) -> None:
    rec = json.loads(open(path).read())
    s = rec["scenario"]
    if "op" not in s:
        raise core.MachineryError("replay file carries no operation (design-level records are re-run by the full check)")
    op = s["op"]
    items, stats = observe_ops(chk, [{"op": op, "dead": False, "sig": []}])
    if not items:
        print("REPLAY: the package of this operation does not import / is not observable:", json.dumps({k: dict(v) if isinstance(v, Counter) else v for k, v in stats.items()}))
        return
    judge(chk, items, "replay", negatives=False, verbose=True)
    chk.drift.clear()
    for f in chk.fails:
        print("REPLAY-FAIL", f["clause"], json.dumps(f["locus"], sort_keys=True))
