"""Worker for X04: loads the REAL IR of a document, lets the REAL ModelsEmitter name and emit the models, then calls the
REAL resolver entry point the generator uses for every requested position and records what came back.

What is recorded per position (one "trace" for Trace_TypeResolve.tla):
  ann      the annotation string ("" when the resolver raised), exc the exception type ("none")
  tree     the annotation parsed with `ast` into {k, id, args} (k: name | none | sub | or | fwd | lit | bad)
  env      how the EMITTED model modules define every class name the annotation reaches (alias target / dataclass wire
           keys / wrapper value type / enum values) - read from the emitted files with `ast`, never from the resolver
  uses     the names the annotation needs at run time, bound = what the RenderContext registered and whether Python's own
           module resolution finds that name there, probe = result of importing a module consisting of the rendered
           imports plus the annotation as an expression
  again    the annotation obtained on repeated / interleaved resolutions (Stable)
  ir       the IR node handed to the resolver as a plain tree (input of the implementation-shaped TLA+ resolver)
JSON null is never emitted (TLC's Json module cannot read it)."""

from __future__ import annotations

import ast
import dataclasses
import importlib
import importlib.util
import json
import logging
import os
import shutil
import sys
import tempfile
from typing import Any

from harness import core

core.install_tree_under_test()
logging.disable(logging.CRITICAL)

from pyopenapi_gen.context.render_context import RenderContext  # noqa: E402
from pyopenapi_gen.core.loader.loader import load_ir_from_spec  # noqa: E402
from pyopenapi_gen.emitters.models_emitter import ModelsEmitter  # noqa: E402
from pyopenapi_gen.helpers.endpoint_utils import get_param_type, get_request_body_type  # noqa: E402
from pyopenapi_gen.types.services.type_service import UnifiedTypeService  # noqa: E402
from pyopenapi_gen.types.strategies.response_strategy import ResponseStrategyResolver  # noqa: E402

from harness.x04 import document  # noqa: E402

# Formatting the emitted models with black is two thirds of the cost of a document and no part of the subject: run the
# generator in its supported black-less mode (Formatter "falls back to unformatted content if Black is unavailable").
import pyopenapi_gen.core.utils as _utils  # noqa: E402

_utils.Formatter.format = lambda self, code: code  # type: ignore[method-assign]

MAXD = 5
CORE = "x04core"  # one shared core package per worker process, emitted once by the real generator (wrapper models import it)


def emit_core(root: str) -> None:
    from pyopenapi_gen.generator.client_generator import ClientGenerator

    from harness.concretise import wrap

    spec = os.path.join(root, "x04base.json")
    with open(spec, "w") as f:
        json.dump(wrap({"Z": {"type": "object", "properties": {"z": {"type": "string"}}}}), f)
    ClientGenerator(verbose=False).generate(spec_path=spec, project_root=root, output_package="x04base", core_package=CORE, force=True, no_postprocess=True)


# ------------------------------------------------------------------------------------------------ annotation -> tree
def node(k: str, id_: str = "", args: list | None = None) -> dict:
    return {"k": k, "id": id_, "args": args or []}


def dotted(e: ast.expr) -> str | None:
    if isinstance(e, ast.Name):
        return e.id
    if isinstance(e, ast.Attribute):
        b = dotted(e.value)
        return None if b is None else f"{b}.{e.attr}"
    return None


def tree_of(e: ast.expr, depth: int = 0) -> dict:
    if depth > 12:
        return node("bad", "deep")
    if isinstance(e, ast.Constant):
        if e.value is None:
            return node("none")
        if isinstance(e.value, str):
            try:
                inner = ast.parse(e.value, mode="eval").body
            except SyntaxError:
                return node("bad", "fwd-syntax")
            return node("fwd", "", [tree_of(inner, depth + 1)])
        return node("bad", "const:" + type(e.value).__name__)
    d = dotted(e)
    if d is not None:
        return node("name", d)
    if isinstance(e, ast.BinOp) and isinstance(e.op, ast.BitOr):
        flat: list[dict] = []
        for side in (e.left, e.right):
            t = tree_of(side, depth + 1)
            flat.extend(t["args"] if t["k"] == "or" else [t])
        return node("or", "", flat)
    if isinstance(e, ast.Subscript):
        head = dotted(e.value)
        if head is None:
            return node("bad", "subscript-head")
        elts = list(e.slice.elts) if isinstance(e.slice, ast.Tuple) else [e.slice]
        if head.split(".")[-1] == "Literal":
            return node("sub", head, [node("lit", repr(x.value)) if isinstance(x, ast.Constant) else node("bad", "literal-arg") for x in elts])
        return node("sub", head, [tree_of(x, depth + 1) for x in elts])
    return node("bad", type(e).__name__)


def parse_ann(text: str) -> tuple[str, dict]:
    if not isinstance(text, str) or not text.strip():
        return "empty", node("bad", "empty")
    try:
        return "ok", tree_of(ast.parse(text, mode="eval").body)
    except SyntaxError:
        return "syntax", node("bad", "syntax")
    except Exception as ex:  # ValueError (null bytes) ...
        return type(ex).__name__, node("bad", "parse")


def names_of(t: dict, where: str = "code", out: list | None = None) -> list[list[str]]:
    out = [] if out is None else out
    if t["k"] == "name":
        out.append([t["id"].split(".")[0], where])
    elif t["k"] == "sub":
        out.append([t["id"].split(".")[0], where])
    for a in t["args"]:
        names_of(a, "fwd" if t["k"] == "fwd" else where, out)
    return out


# ------------------------------------------------------------------------------------------------ emitted definitions
def _is_dataclass(c: ast.ClassDef) -> bool:
    return any((dotted(d) or (dotted(d.func) if isinstance(d, ast.Call) else "") or "").split(".")[-1] == "dataclass" for d in c.decorator_list)


def scan_models(models_dir: str) -> dict[str, dict]:
    """name -> definition entry, read from the emitted model modules."""
    defs: dict[str, dict] = {}
    for fn in sorted(os.listdir(models_dir)):
        if not fn.endswith(".py") or fn == "__init__.py" or fn.startswith("x04probe"):
            continue
        try:
            mod = ast.parse(open(os.path.join(models_dir, fn), encoding="utf-8").read())
        except SyntaxError:
            continue
        for st in mod.body:
            if isinstance(st, ast.AnnAssign) and isinstance(st.target, ast.Name) and (dotted(st.annotation) or "").split(".")[-1] == "TypeAlias" and st.value is not None:
                defs.setdefault(st.target.id, {"name": st.target.id, "def": "alias", "base": "", "sig": "", "args": [tree_of(st.value)], "stem": fn[:-3], "text": ast.unparse(st.value)})
            elif isinstance(st, ast.ClassDef):
                bases = [(dotted(b) or "").split(".")[-1] for b in st.bases]
                if "Enum" in bases:
                    vals = [repr(s.value.value) if not isinstance(s.value.value, str) else s.value.value for s in st.body if isinstance(s, ast.Assign) and isinstance(s.value, ast.Constant)]
                    base = "string" if "str" in bases else "integer" if "int" in bases else "other"
                    defs.setdefault(st.name, {"name": st.name, "def": "enum", "base": base, "sig": ",".join(vals), "args": [], "stem": fn[:-3]})
                elif _is_dataclass(st):
                    fields = [(s.target.id, s.annotation) for s in st.body if isinstance(s, ast.AnnAssign) and isinstance(s.target, ast.Name) and (dotted(s.annotation.value) if isinstance(s.annotation, ast.Subscript) else "") != "ClassVar"]
                    if [f for f, _ in fields] == ["_data"]:
                        t = tree_of(fields[0][1])
                        val = t["args"][1] if t["k"] == "sub" and len(t["args"]) == 2 else node("bad", "wrapper")
                        defs.setdefault(st.name, {"name": st.name, "def": "wrapper", "base": "", "sig": "", "args": [val], "stem": fn[:-3]})
                    else:
                        wire = None
                        for s in st.body:
                            if isinstance(s, ast.ClassDef) and s.name == "Meta":
                                for m in s.body:
                                    if isinstance(m, ast.Assign) and isinstance(m.targets[0], ast.Name) and m.targets[0].id == "key_transform_with_load" and isinstance(m.value, ast.Dict):
                                        wire = [k.value for k in m.value.keys if isinstance(k, ast.Constant)]
                        keys = wire if wire is not None else [f for f, _ in fields]
                        defs.setdefault(st.name, {"name": st.name, "def": "dataclass", "base": "", "sig": ",".join(sorted(keys)), "args": [], "stem": fn[:-3]})
                else:
                    defs.setdefault(st.name, {"name": st.name, "def": "class", "base": "", "sig": "", "args": [], "stem": fn[:-3]})
    return defs


BUILTIN = {"str", "int", "float", "bool", "bytes", "dict", "list", "None", "object", "tuple", "set"}


def env_for(tree: dict, defs: dict[str, dict]) -> list[dict]:
    seen: dict[str, dict] = {}
    todo = [n for n, _ in names_of(tree)]
    while todo:
        n = todo.pop()
        if n in seen or n in BUILTIN or n not in defs:
            continue
        e = defs[n]
        seen[n] = {"name": e["name"], "def": e["def"], "base": e["base"], "sig": e["sig"], "args": e["args"]}
        for a in e["args"]:
            todo.extend(x for x, _ in names_of(a))
    return [seen[k] for k in sorted(seen)]


# ------------------------------------------------------------------------------------------------ IR -> plain tree
def ir_tree(s: Any, schemas: dict[str, Any], depth: int = 0) -> dict:
    def kids(lst: Any) -> list:
        return [ir_tree(x, schemas, depth + 1) for x in (lst or [])] if depth < MAXD else []

    ty = s.type if isinstance(s.type, str) else ("" if s.type is None else json.dumps(s.type))
    ap = s.additional_properties
    reg = schemas.get(s.name) if s.name else None
    tyreg = schemas.get(ty) if ty and ty not in ("string", "integer", "number", "boolean", "array", "object", "null") else None
    return {
        "ty": ty,
        "fmt": s.format or "",
        "name": s.name or "",
        "gen": s.generation_name or "",
        "stem": s.final_module_stem or "",
        "nul": bool(s.is_nullable),
        "enum": [str(v) for v in (s.enum or [])],
        "enumbool": [("T" if v is True else "F" if v is False else "N" if v is None else "X") for v in (s.enum or [])],
        "nprops": len(s.properties or {}),
        "items": kids([s.items]) if s.items is not None else [],
        "hasitems": s.items is not None,
        "anyof": kids(s.any_of),
        "oneof": kids(s.one_of),
        "allof": kids(s.all_of),
        "hasany": s.any_of is not None,
        "hasone": s.one_of is not None,
        "hasall": s.all_of is not None,
        "addl": "none" if ap is None else "true" if ap is True else "false" if ap is False else "schema",
        "regother": [ir_tree(reg, schemas, depth + 1)] if (reg is not None and reg is not s and depth < MAXD) else [],
        "inreg": reg is not None,
        "tyreg": [ir_tree(tyreg, schemas, depth + 1)] if (tyreg is not None and depth < MAXD) else [],
    }


def fingerprint(s: Any) -> str:
    return json.dumps([s.type if isinstance(s.type, str) else repr(s.type), s.format, s.name, s.generation_name, s.final_module_stem, bool(s.is_nullable), s.any_of is None, s.one_of is None, s.all_of is None, s.items is None])


# ------------------------------------------------------------------------------------------------ one document
class Doc:
    def __init__(self, job: dict, root: str, idx: int):
        self.job = job
        self.pkg = f"x04c{idx}"
        self.root = root
        self.out = os.path.join(root, self.pkg)
        self.err = ""
        self.defs: dict[str, dict] = {}
        try:
            self.ir = load_ir_from_spec(job["doc"])
        except Exception as ex:
            self.err = f"load:{type(ex).__name__}"
            return
        self.ctx = RenderContext(core_package_name=CORE, package_root_for_generated_code=self.out, overall_project_root=root, parsed_schemas=self.ir.schemas, output_package_name=self.pkg)
        try:
            ModelsEmitter(context=self.ctx, parsed_schemas=self.ir.schemas, discriminator_skip_list=self.ir.discriminator_skip_list).emit(self.ir, self.out)
        except Exception as ex:
            self.err = f"emit:{type(ex).__name__}"
            return
        self.schemas = self.ctx.parsed_schemas or {}
        self.models = os.path.join(self.out, "models")
        self.endpoints = os.path.join(self.out, "endpoints")
        os.makedirs(self.endpoints, exist_ok=True)
        for d in (self.out, self.endpoints):
            open(os.path.join(d, "__init__.py"), "w").close()
        # the package __init__ of the models imports every model: one broken neighbour must not decide every probe
        open(os.path.join(self.models, "__init__.py"), "w").close()
        self.defs = scan_models(self.models)
        self.n = 0

    # ---- where each position lives and how the generator asks for its type
    def site(self, pos: str) -> tuple[str, Any, bool, Any]:
        """-> (current file, IR schema node, required flag, callable(ctx, flip) -> annotation)"""
        ops = {o.operation_id: o for o in self.ir.operations}
        if pos in ("prop_req", "prop_opt", "top_use"):
            holder = self.schemas["Holder"]
            key = {"prop_req": "fr", "prop_opt": "fo", "top_use": "tr"}[pos]
            sch = holder.properties[key]
            req = key in holder.required
            cur = os.path.join(self.models, f"{holder.final_module_stem}.py")

            def call(ctx: Any, svc: Any, flip: bool = False) -> str:
                return svc.resolve_schema_type(sch, ctx, required=(not req) if flip else req)

            return cur, sch, req, call
        if pos == "alias_def":
            # the alias generator's own question: resolve_underlying=True, inside the module of the alias
            top = self.schemas["Top"]
            d = self.defs.get(top.generation_name or "")
            if d is None or d["def"] != "alias":
                raise LookupError("not an alias")
            cur = os.path.join(self.models, f"{top.final_module_stem}.py")

            def call(ctx: Any, svc: Any, flip: bool = False) -> str:
                return svc.resolve_schema_type(top, ctx, required=True, resolve_underlying=True)

            return cur, top, True, call
        cur = os.path.join(self.endpoints, "default.py")
        if pos in ("param_req", "param_opt"):
            p = [x for x in ops["probe"].parameters if x.name == {"param_req": "qr", "param_opt": "qo"}[pos]][0]

            def call(ctx: Any, svc: Any, flip: bool = False) -> str:
                return get_param_type(dataclasses.replace(p, required=not p.required) if flip else p, ctx, self.schemas)

            return cur, p.schema, p.required, call
        if pos in ("body_req", "body_opt"):
            b = ops[pos].request_body
            sch = b.content["application/json"]

            def call(ctx: Any, svc: Any, flip: bool = False) -> str:
                return get_request_body_type(dataclasses.replace(b, required=not b.required) if flip else b, ctx, self.schemas)

            return cur, sch, b.required, call
        op = ops["probe"]
        sch = [r for r in op.responses if r.status_code == "200"][0].content["application/json"]
        if pos == "resp":

            def call(ctx: Any, svc: Any, flip: bool = False) -> str:
                return ResponseStrategyResolver(self.schemas).resolve(op, ctx).return_type

            return cur, sch, True, call

        def call(ctx: Any, svc: Any, flip: bool = False) -> str:  # respsvc
            return svc.resolve_operation_response_type(op, ctx)

        return cur, sch, True, call

    def imports_of(self) -> list[list[str]]:
        ic = self.ctx.import_collector
        out = [[m, n] for m, ns in ic.imports.items() for n in ns]
        out += [[m, n] for m, ns in getattr(ic, "relative_imports", {}).items() for n in ns]
        return sorted(out)

    def bound(self, cur: str) -> list[dict]:
        """Every registered `from M import N`, and whether Python's own resolution finds N in M from the current file."""
        pkg_of_cur = self.pkg + "." + os.path.basename(os.path.dirname(cur))
        res = []
        for m, n in self.imports_of():
            status = "ok"
            try:
                absname = importlib.util.resolve_name(m, pkg_of_cur) if m.startswith(".") else m
            except Exception:
                absname, status = m, "nomodule"
            if status == "ok":
                if absname == self.pkg or absname.startswith(self.pkg + "."):
                    path = os.path.join(self.root, *absname.split(".")) + ".py"
                    if not os.path.isfile(path):
                        status = "nomodule"
                    else:
                        d = self.defs.get(n)
                        status = "ok" if d is not None and d["stem"] == absname.split(".")[-1] else "noname"
                else:
                    try:
                        status = "ok" if hasattr(importlib.import_module(absname), n) else "noname"
                    except Exception:
                        status = "nomodule"
            res.append({"mod": m, "name": n, "status": status})
        return res

    def probe(self, cur: str, ann: str) -> str:
        """Import a module made of the rendered imports and the annotation as an expression, next to the current file."""
        self.n += 1
        d = os.path.dirname(cur)
        modname = f"x04probe{self.n}"
        try:
            text = self.ctx.render_imports()
        except Exception as ex:
            return f"render:{type(ex).__name__}"
        with open(os.path.join(d, modname + ".py"), "w", encoding="utf-8") as f:
            f.write(text + "\n\nX04 = " + ann + "\n")
        full = f"{self.pkg}.{os.path.basename(d)}.{modname}"
        try:
            importlib.invalidate_caches()
            importlib.import_module(full)
            return "ok"
        except BaseException as ex:  # noqa: BLE001 - SyntaxError, NameError, ImportError, TypeError ...
            return type(ex).__name__

    def one(self, pos: str) -> dict:
        job = self.job
        rec: dict[str, Any] = {"id": f"{job['id']}/{pos}", "shape": job["shape"], "pos": pos, "hsig": job["hsig"], "ann": "", "exc": "none", "parse": "none", "tree": node("bad", "none"), "env": [], "uses": [], "bound": [], "selfname": "", "probe": "skipped", "again": [], "imps": [], "imps_again": True, "mutated": False, "ir": [], "cur": "", "curstem": "", "req": True, "stage": "resolve"}
        if self.err:
            rec.update(exc=self.err, stage=self.err.split(":")[0])
            return rec
        try:
            cur, sch, req, call = self.site(pos)
        except LookupError:
            rec.update(exc="skip", stage="skip")
            return rec
        except Exception as ex:
            rec.update(exc=f"site:{type(ex).__name__}", stage="site")
            return rec
        rec["cur"] = os.path.basename(os.path.dirname(cur))
        rec["req"] = bool(req)
        rec["ir"] = [ir_tree(sch, self.schemas)]
        rec["curstem"] = os.path.basename(cur)[:-3]
        if rec["cur"] == "models":
            rec["selfname"] = next((n for n, d in self.defs.items() if d["stem"] == rec["curstem"]), "")
        fp = fingerprint(sch)
        svc = UnifiedTypeService(self.schemas)
        self.ctx.set_current_file(cur)
        try:
            ann = call(self.ctx, svc)
        except Exception as ex:
            rec["exc"] = type(ex).__name__
            return rec
        rec["ann"] = ann if isinstance(ann, str) else repr(ann)
        rec["imps"] = self.imports_of()
        rec["parse"], rec["tree"] = parse_ann(rec["ann"])
        rec["uses"] = names_of(rec["tree"]) if rec["parse"] == "ok" else []
        rec["env"] = env_for(rec["tree"], self.defs) if rec["parse"] == "ok" else []
        rec["bound"] = self.bound(cur)
        rec["probe"] = self.probe(cur, rec["ann"]) if rec["parse"] == "ok" else "skipped"
        # Stable: again in the same context, again after the opposite requiredness was asked for
        again = []
        try:
            again.append(call(self.ctx, svc))
            call(self.ctx, svc, True)
            again.append(call(self.ctx, svc))
        except Exception as ex:
            again.append("EXC:" + type(ex).__name__)
        rec["again"] = [a if isinstance(a, str) else repr(a) for a in again]
        if pos == "alias_def" and rec["parse"] == "ok":
            # what the emitted module really says must be what the resolver said
            emitted = self.defs[self.schemas["Top"].generation_name]["text"]
            rec["again"].append(rec["ann"] if emitted == ast.unparse(ast.parse(rec["ann"], mode="eval").body) else "EMITTED:" + emitted)
        rec["mutated"] = fingerprint(sch) != fp
        return rec

    def late(self, rec: dict) -> None:
        """After every other position has been resolved: a new service, a fresh file context."""
        if rec["exc"] != "none":
            return
        cur, sch, req, call = self.site(rec["pos"])
        try:
            # a new service is first asked for the OPPOSITE requiredness (a cache must not carry that answer over) ...
            svc = UnifiedTypeService(self.schemas)
            self.ctx.set_current_file(cur)
            call(self.ctx, svc, True)
            # ... and then, in a fresh file context, for the position as it is
            self.ctx.set_current_file(cur)
            a = call(self.ctx, svc)
            rec["again"].append(a if isinstance(a, str) else repr(a))
            rec["imps_again"] = self.imports_of() == rec["imps"]
        except Exception as ex:
            rec["again"].append("EXC:" + type(ex).__name__)

    def close(self) -> None:
        for k in [k for k in sys.modules if k == self.pkg or k.startswith(self.pkg + ".")]:
            del sys.modules[k]
        shutil.rmtree(self.out, ignore_errors=True)


def run_job(job: dict, root: str, idx: int) -> dict:
    if "doc" not in job:
        job["doc"] = document(job["shape"], job["positions"])
    d = Doc(job, root, idx)
    recs = [d.one(p) for p in job["positions"]]
    if not d.err:
        for r in recs:
            d.late(r)
        d.close()
    return {"id": job["id"], "recs": recs}


def main() -> None:
    root = tempfile.mkdtemp(prefix="x04w.", dir=os.environ.get("TMPDIR"))
    sys.path.insert(0, root)
    emit_core(root)
    for i, job in enumerate(json.load(sys.stdin)):
        print(json.dumps(run_job(job, root, i)), flush=True)
    shutil.rmtree(root, ignore_errors=True)


if __name__ == "__main__":
    main()
