"""Observer for C03: JSON round trips through the EMITTED converter of a generated package."""

from __future__ import annotations

import importlib
import json
from typing import Any

from harness.w_obs import register, short_exc


@register("roundtrip")
def obs_roundtrip(job: dict) -> Any:
    pkg = job["pkg"]
    corep = job.get("core") or pkg + ".core"
    conv = importlib.import_module(corep + ".cattrs_converter")
    models = importlib.import_module(pkg + ".models")
    out = []
    for inst in job["instances"]:
        cls = getattr(models, inst["cls"], None)
        rec: dict[str, Any] = {"iid": inst["iid"], "err": "none", "errstage": "none", "jout": None, "load": [], "dump": []}
        if cls is None:
            rec.update({"err": "class_missing", "errstage": "structure"})
            out.append(rec)
            continue
        meta = getattr(cls, "Meta", None)
        rec["load"] = sorted([k, v] for k, v in (getattr(meta, "key_transform_with_load", {}) or {}).items()) if meta else []
        rec["dump"] = sorted([k, v] for k, v in (getattr(meta, "key_transform_with_dump", {}) or {}).items()) if meta else []
        try:
            obj = conv.structure_from_dict(json.loads(json.dumps(inst["j"])), cls)
        except BaseException as e:  # noqa: BLE001
            x = short_exc(e)
            rec.update({"err": x["type"], "errstage": "structure", "msg": x["msg"][:200]})
            out.append(rec)
            continue
        try:
            j2 = conv.unstructure_to_dict(obj)
            json.dumps(j2)
            rec["jout"] = j2
        except BaseException as e:  # noqa: BLE001
            x = short_exc(e)
            rec.update({"err": x["type"], "errstage": "unstructure", "msg": x["msg"][:200]})
        out.append(rec)
    return out
