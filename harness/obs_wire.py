"""Wire-level observers for emitted packages (registered into harness.w_obs; runs with the generator blocked).

  surface : APIClient tag properties, tag client classes, their Protocols and mocks with method signatures
  wire    : for every client method, calls with synthesised distinct-token arguments (several subsets of the
            optional arguments) against an httpx.MockTransport injected under the emitted HttpxTransport;
            records the captured request(s)
  serve   : for every client method, calls against a fake server answering job["serve"] entries
            (status, content type, body / stream chunks) under the bundled and a pass-through transport;
            records the outcome (returned value re-serialised, yielded items, or the exception)
  mockcall: calls every mock method and records what it raises
"""

from __future__ import annotations

import asyncio
import base64
import dataclasses
import datetime
import enum
import importlib
import inspect
import io
import json
import re
import sys
import typing
import uuid
from typing import Any

import httpx

from harness.w_obs import pkg_dir, register, short_exc  # noqa: F401

_REAL_INIT = httpx.AsyncClient.__init__
_HANDLER: list[Any] = [None]


def _patched_init(self, *a, **kw):  # noqa: ANN001
    if _HANDLER[0] is not None and "transport" not in kw:
        kw["transport"] = httpx.MockTransport(_HANDLER[0])
    return _REAL_INIT(self, *a, **kw)


httpx.AsyncClient.__init__ = _patched_init  # type: ignore[method-assign]


# ---------------------------------------------------------------------------------------------
# discovery


def _param_list(fn) -> list[list]:
    try:
        sig = inspect.signature(fn)
    except (TypeError, ValueError):
        return []
    out = []
    for p in sig.parameters.values():
        if p.name == "self":
            continue
        ann = p.annotation if isinstance(p.annotation, str) else (getattr(p.annotation, "__name__", None) or str(p.annotation)) if p.annotation is not inspect._empty else ""
        if not isinstance(p.annotation, str) and p.annotation is not inspect._empty:
            ann = _ann_str(p.annotation)
        out.append([p.name, p.kind.name, p.default is not inspect._empty, repr(p.default) if p.default is not inspect._empty else "", ann])
    return out


def _ann_str(a: Any) -> str:
    if a is inspect._empty:
        return ""
    if isinstance(a, str):
        return a
    if isinstance(a, type):
        return a.__name__
    s = str(a)
    s = re.sub(r"\b[\w\.]+\.(\w+)\b", r"\1", s)  # drop module prefixes
    return s


def _ret(fn) -> str:
    try:
        return _ann_str(inspect.signature(fn).return_annotation)
    except (TypeError, ValueError):
        return ""


def _nature(fn) -> str:
    if inspect.isasyncgenfunction(fn):
        return "agen"
    if inspect.iscoroutinefunction(fn):
        return "coro"
    return "plain"


def _methods(cls) -> dict[str, Any]:
    out = {}
    for name, fn in vars(cls).items():
        if name.startswith("_"):
            continue
        f = fn
        if isinstance(fn, (staticmethod, classmethod)):
            f = fn.__func__
        if inspect.isfunction(f):
            out[name] = f
    return out


def discover(job: dict) -> dict:
    pkg = job["pkg"]
    cm = importlib.import_module(pkg + ".client")
    api = getattr(cm, "APIClient")
    props = {}
    for name, v in vars(api).items():
        if isinstance(v, property) and not name.startswith("_"):
            props[name] = v
    return {"module": cm, "api": api, "props": props}


def make_client(job: dict, d: dict, transport=None):
    cfgm = importlib.import_module((job.get("core") or job["pkg"] + ".core") + ".config")
    cfg = cfgm.ClientConfig(base_url="http://srv.test")
    if transport is None and job.get("default_headers"):
        # the bundled transport configured with default headers (one transport for the whole sequence of calls of this job)
        tm = importlib.import_module((job.get("core") or job["pkg"] + ".core") + ".http_transport")
        transport = tm.HttpxTransport(str(cfg.base_url), default_headers=dict(job["default_headers"]))
    return d["api"](cfg, transport) if transport is not None else d["api"](cfg)


@register("surface")
def obs_surface(job: dict) -> Any:
    d = discover(job)
    _HANDLER[0] = lambda req: httpx.Response(200, json={})
    out: dict[str, Any] = {"props": [], "clients": [], "mock": {}}
    client = make_client(job, d)
    for pname in sorted(d["props"]):
        try:
            tc = getattr(client, pname)
        except Exception as e:  # noqa: BLE001
            out["props"].append({"prop": pname, "error": short_exc(e)})
            continue
        cls = type(tc)
        mod = sys.modules[cls.__module__]
        proto = getattr(mod, cls.__name__ + "Protocol", None)
        rec = {"prop": pname, "cls": cls.__name__, "module": cls.__module__, "methods": {}, "proto": None, "proto_ok": None}
        for mn, fn in _methods(cls).items():
            rec["methods"][mn] = {"sig": _param_list(fn), "ret": _ret(fn), "nature": _nature(fn)}
        if proto is not None:
            rec["proto"] = {mn: {"sig": _param_list(fn), "ret": _ret(fn), "nature": _nature(fn)} for mn, fn in _methods(proto).items()}
            try:
                rec["proto_ok"] = isinstance(tc, proto)
            except Exception:  # noqa: BLE001
                rec["proto_ok"] = None
        out["props"].append({"prop": pname, "cls": cls.__name__})
        out["clients"].append(rec)
    # mocks
    try:
        mm = importlib.import_module(job["pkg"] + ".mocks")
        mapi = getattr(mm, "MockAPIClient", None)
        mrec: dict[str, Any] = {"props": [], "classes": {}, "import_ok": True}
        if mapi is not None:
            mrec["props"] = sorted(n for n, v in vars(mapi).items() if isinstance(v, property) and not n.startswith("_"))
        for name in dir(mm):
            obj = getattr(mm, name)
            if isinstance(obj, type) and name.startswith("Mock") and name != "MockAPIClient":
                mrec["classes"][name] = {mn: {"sig": _param_list(fn), "ret": _ret(fn), "nature": _nature(fn)} for mn, fn in _methods(obj).items()}
        # protocol satisfaction of mocks
        mrec["proto_ok"] = {}
        for rec in out["clients"]:
            mcls = getattr(mm, "Mock" + rec["cls"], None)
            mod = sys.modules[rec["module"]]
            proto = getattr(mod, rec["cls"] + "Protocol", None)
            if mcls is not None and proto is not None:
                try:
                    mrec["proto_ok"][rec["cls"]] = isinstance(mcls(), proto)
                except Exception as e:  # noqa: BLE001
                    mrec["proto_ok"][rec["cls"]] = "error:" + type(e).__name__
        out["mock"] = mrec
    except Exception as e:  # noqa: BLE001
        out["mock"] = {"import_ok": False, "error": short_exc(e), "props": [], "classes": {}, "proto_ok": {}}
    return out


# ---------------------------------------------------------------------------------------------
# argument synthesis: every leaf gets a distinct token; returns (python value, expected JSON)


class Synth:
    def __init__(self) -> None:
        self.k = 0

    def tok(self) -> int:
        self.k += 1
        return self.k

    def make(self, t: Any, depth: int = 0) -> tuple[Any, Any]:
        if depth > 5:
            return None, None
        if t is inspect._empty or t is typing.Any or t is object:
            v = f"tok{self.tok()}"
            return v, v
        origin = typing.get_origin(t)
        if origin is typing.Annotated:
            return self.make(typing.get_args(t)[0], depth)
        if origin in (list, typing.List) or t is list:
            a = typing.get_args(t)
            x1 = self.make(a[0] if a else str, depth + 1)
            x2 = self.make(a[0] if a else str, depth + 1)
            return [x1[0], x2[0]], [x1[1], x2[1]]
        if origin in (dict, typing.Dict) or t is dict:
            a = typing.get_args(t)
            x = self.make(a[1] if len(a) == 2 else str, depth + 1)
            key = f"key{self.tok()}"
            return {key: x[0]}, {key: x[1]}
        if origin is typing.Union or type(t).__name__ == "UnionType":
            non = [a for a in typing.get_args(t) if a is not type(None)]
            return self.make(non[0], depth) if non else (None, None)
        if origin is typing.Literal:
            v = typing.get_args(t)[0]
            return v, v
        if isinstance(t, type):
            if issubclass(t, enum.Enum):
                m = list(t)[0]
                return m, m.value
            if dataclasses.is_dataclass(t):
                try:
                    hints = typing.get_type_hints(t)
                except Exception:  # noqa: BLE001
                    hints = {}
                kw, js = {}, {}
                meta = getattr(t, "Meta", None)
                dump = dict(getattr(meta, "key_transform_with_dump", {}) or {}) if meta else {}
                for f in dataclasses.fields(t):
                    if f.name.startswith("_"):
                        continue
                    req = f.default is dataclasses.MISSING and f.default_factory is dataclasses.MISSING
                    if req or depth == 0:
                        v, j = self.make(hints.get(f.name, str), depth + 1)
                        kw[f.name] = v
                        js[dump.get(f.name, f.name)] = j
                try:
                    return t(**kw), js
                except Exception:  # noqa: BLE001
                    return None, None
            if t is bool:
                return True, True
            if t is int:
                v = 1000 + self.tok()
                return v, v
            if t is float:
                v = self.tok() + 0.5
                return v, v
            if t is str:
                v = f"tok{self.tok()}"
                return v, v
            if t is bytes:
                n = self.tok()
                return f"byt{n}".encode(), base64.b64encode(f"byt{n}".encode()).decode()
            if t is datetime.datetime:
                n = self.tok()
                v = datetime.datetime(2020, 1, 1 + n % 27, 10, 0, 0, tzinfo=datetime.timezone.utc)
                return v, v.isoformat()
            if t is datetime.date:
                n = self.tok()
                v = datetime.date(2021, 1 + n % 12, 1 + n % 27)
                return v, v.isoformat()
            if t is uuid.UUID:
                v = uuid.UUID(int=self.tok())
                return v, str(v)
            if t in (io.IOBase, typing.IO, typing.BinaryIO):
                n = self.tok()
                return io.BytesIO(f"bin{n}".encode()), f"bin{n}"
        if "IO" in str(t):
            n = self.tok()
            return io.BytesIO(f"bin{n}".encode()), f"bin{n}"
        v = f"tok{self.tok()}"
        return v, v


def jsonable(v: Any, depth: int = 0) -> Any:
    """Independent serialisation of an outcome value for comparison (not the code under test)."""
    if depth > 8:
        return "<deep>"
    if v is None or isinstance(v, (bool, int, float, str)):
        return v
    if isinstance(v, bytes):
        return {"__bytes__": base64.b64encode(v).decode()}
    if isinstance(v, enum.Enum):
        return jsonable(v.value, depth + 1)
    if isinstance(v, (datetime.datetime, datetime.date, datetime.time)):
        return v.isoformat()
    if isinstance(v, uuid.UUID):
        return str(v)
    if dataclasses.is_dataclass(v) and not isinstance(v, type):
        meta = getattr(type(v), "Meta", None)
        dump = dict(getattr(meta, "key_transform_with_dump", {}) or {}) if meta else {}
        out = {}
        for f in dataclasses.fields(v):
            if f.name == "_data" and isinstance(getattr(v, "_data"), dict):
                return {k: jsonable(x, depth + 1) for k, x in getattr(v, "_data").items()}
            out[dump.get(f.name, f.name)] = jsonable(getattr(v, f.name), depth + 1)
        return out
    if isinstance(v, dict):
        return {str(k): jsonable(x, depth + 1) for k, x in v.items()}
    if isinstance(v, (list, tuple)):
        return [jsonable(x, depth + 1) for x in v]
    return f"<{type(v).__name__}>"


def pykind(v: Any) -> str:
    if v is None:
        return "none"
    if dataclasses.is_dataclass(v) and not isinstance(v, type):
        return "model:" + type(v).__name__
    if isinstance(v, enum.Enum):
        return "enum:" + type(v).__name__
    return type(v).__name__


def capture(req: httpx.Request) -> dict:
    body = req.content if hasattr(req, "content") else b""
    ctype = req.headers.get("content-type", "")
    bj: Any = "__none__"
    if body:
        try:
            bj = json.loads(body)
        except Exception:  # noqa: BLE001
            bj = "__notjson__"
    return {
        "method": req.method,
        "path": req.url.raw_path.decode().split("?")[0],
        "query": [[k, v] for k, v in req.url.params.multi_items()],
        "headers": [[k, v] for k, v in req.headers.multi_items()],
        "cookies": [[c.split("=", 1)[0].strip(), c.split("=", 1)[1] if "=" in c else ""] for c in req.headers.get("cookie", "").split(";") if c.strip()],
        "ctype": ctype,
        "body_json": bj,
        "body_text": body[:600].decode("utf-8", "replace"),
    }


def arg_plans(fn, hints: dict) -> list[dict]:
    """Which optional arguments to supply: all subsets for <=3 optionals, else none / all / each single."""
    sig = inspect.signature(fn)
    req, opt = [], []
    for p in sig.parameters.values():
        if p.name == "self" or p.kind in (p.VAR_POSITIONAL, p.VAR_KEYWORD):
            continue
        (opt if p.default is not inspect._empty else req).append(p.name)
    plans = []
    if len(opt) <= 3:
        for mask in range(1 << len(opt)):
            plans.append([o for i, o in enumerate(opt) if mask >> i & 1])
    else:
        plans = [[], list(opt)] + [[o] for o in opt]
    return [{"required": req, "optional": opt, "supplied": p} for p in plans]


async def _call(fn_bound, kwargs: dict, nature: str, max_items: int = 50) -> dict:
    try:
        if nature == "agen":
            items = []
            async for it in fn_bound(**kwargs):
                items.append(it)
                if len(items) >= max_items:
                    break
            return {"kind": "items", "items": [jsonable(i) for i in items], "pykinds": [pykind(i) for i in items[:3]]}
        r = fn_bound(**kwargs)
        if inspect.isawaitable(r):
            r = await r
        if hasattr(r, "__aiter__"):
            items = []
            async for it in r:
                items.append(it)
                if len(items) >= max_items:
                    break
            return {"kind": "items", "items": [jsonable(i) for i in items], "pykinds": [pykind(i) for i in items[:3]]}
        return {"kind": "return", "value": jsonable(r), "pykind": pykind(r)}
    except BaseException as e:  # noqa: BLE001
        if isinstance(e, (KeyboardInterrupt, asyncio.CancelledError)):
            raise
        resp = getattr(e, "response", None)
        return {
            "kind": "raise",
            "exc": short_exc(e),
            "mro": [c.__name__ for c in type(e).__mro__],
            "mro_modules": [c.__module__ for c in type(e).__mro__],
            "status_attr": getattr(e, "status_code", "__none__") if isinstance(getattr(e, "status_code", None), int) else "__none__",
            "has_response": isinstance(resp, httpx.Response),
            "response_status": resp.status_code if isinstance(resp, httpx.Response) else "__none__",
        }


def _hints(fn) -> dict:
    try:
        return typing.get_type_hints(fn)
    except Exception:  # noqa: BLE001
        return {}


@register("wire")
def obs_wire(job: dict) -> Any:
    d = discover(job)
    captured: list[dict] = []

    def handler(req: httpx.Request) -> httpx.Response:
        captured.append(capture(req))
        return httpx.Response(int(job.get("wire_status", 200)), json=job.get("wire_body", {}))

    _HANDLER[0] = handler
    client = make_client(job, d)
    out = []
    loop = asyncio.new_event_loop()
    try:
        for pname in sorted(d["props"]):
            try:
                tc = getattr(client, pname)
            except Exception:  # noqa: BLE001
                continue
            for mn, fn in _methods(type(tc)).items():
                hints = _hints(fn)
                for plan in arg_plans(fn, hints)[: int(job.get("max_plans", 8))]:
                    syn = Synth()
                    kwargs, expect = {}, {}
                    for a in plan["required"] + plan["supplied"]:
                        v, j = syn.make(hints.get(a, inspect._empty))
                        kwargs[a] = v
                        expect[a] = j
                    captured.clear()
                    res = loop.run_until_complete(asyncio.wait_for(_call(getattr(tc, mn), kwargs, _nature(fn)), 20))
                    out.append(
                        {
                            "prop": pname,
                            "cls": type(tc).__name__,
                            "method": mn,
                            "args": {k: (expect[k] if expect[k] is not None else "__none__") for k in kwargs},
                            "omitted": [o for o in plan["optional"] if o not in plan["supplied"]],
                            "requests": list(captured),
                            "outcome": res if res["kind"] == "raise" else {"kind": res["kind"]},
                        }
                    )
    finally:
        loop.close()
    return out


class PassThrough:
    """A custom transport that returns every response unraised (the second transport choice of C06)."""

    def __init__(self, handler) -> None:
        self._c = httpx.AsyncClient(base_url="http://srv.test", transport=httpx.MockTransport(handler))

    async def request(self, method: str, url: str, **kwargs: Any) -> httpx.Response:
        return await self._c.request(method, url, **kwargs)

    async def close(self) -> None:
        await self._c.aclose()


def _response_for(serve: dict) -> httpx.Response:
    headers = {}
    if serve.get("ctype"):
        headers["content-type"] = serve["ctype"]
    if "chunks" in serve:

        async def gen():
            for c in serve["chunks"]:
                yield bytes(c)

        return httpx.Response(serve["status"], headers=headers, content=gen())
    if "body_b64" in serve:
        return httpx.Response(serve["status"], headers=headers, content=base64.b64decode(serve["body_b64"]))
    if "body_text" in serve:
        return httpx.Response(serve["status"], headers=headers, content=serve["body_text"].encode())
    if "body_json" in serve:
        return httpx.Response(serve["status"], headers=headers, content=json.dumps(serve["body_json"]).encode())
    return httpx.Response(serve["status"], headers=headers)


@register("serve")
def obs_serve(job: dict) -> Any:
    """job["serve"]: list of {"sid", "path_re"?: regex on request path, "status", "ctype", body..., "transport": "bundled"|"pass"}.
    Every client method (optionally filtered by job["only_methods"]) is called once per serve entry."""
    d = discover(job)
    out = []
    loop = asyncio.new_event_loop()
    try:
        for serve in job["serve"]:
            seen: list[dict] = []

            def handler(req: httpx.Request, serve=serve, seen=seen) -> httpx.Response:
                seen.append({"method": req.method, "path": req.url.raw_path.decode().split("?")[0]})
                return _response_for(serve)

            if serve.get("transport") == "pass":
                client = make_client(job, d, PassThrough(handler))
            else:
                _HANDLER[0] = handler
                client = make_client(job, d)
            for pname in sorted(d["props"]):
                try:
                    tc = getattr(client, pname)
                except Exception:  # noqa: BLE001
                    continue
                for mn, fn in _methods(type(tc)).items():
                    if job.get("only_methods") and mn not in job["only_methods"]:
                        continue
                    hints = _hints(fn)
                    plan = arg_plans(fn, hints)[0]
                    syn = Synth()
                    kwargs = {a: syn.make(hints.get(a, inspect._empty))[0] for a in plan["required"]}
                    seen.clear()
                    res = loop.run_until_complete(asyncio.wait_for(_call(getattr(tc, mn), kwargs, _nature(fn)), 20))
                    if serve.get("path_re") and not any(re.fullmatch(serve["path_re"], s["path"]) for s in seen):
                        continue
                    out.append({"sid": serve["sid"], "prop": pname, "method": mn, "ret": _ret(fn), "nature": _nature(fn), "sent": list(seen), "outcome": res})
    finally:
        loop.close()
    return out


@register("mockcall")
def obs_mockcall(job: dict) -> Any:
    out = []
    try:
        mm = importlib.import_module(job["pkg"] + ".mocks")
    except Exception as e:  # noqa: BLE001
        return {"import_ok": False, "error": short_exc(e), "calls": []}
    loop = asyncio.new_event_loop()
    try:
        for name in dir(mm):
            cls = getattr(mm, name)
            if not (isinstance(cls, type) and name.startswith("Mock") and name != "MockAPIClient"):
                continue
            try:
                inst = cls()
            except Exception as e:  # noqa: BLE001
                out.append({"cls": name, "method": "__init__", "outcome": {"kind": "raise", "exc": short_exc(e)}})
                continue
            for mn, fn in _methods(cls).items():
                hints = _hints(fn)
                plan = arg_plans(fn, hints)[0]
                syn = Synth()
                kwargs = {a: syn.make(hints.get(a, inspect._empty))[0] for a in plan["required"]}
                res = loop.run_until_complete(asyncio.wait_for(_call(getattr(inst, mn), kwargs, _nature(fn)), 20))
                out.append({"cls": name, "method": mn, "outcome": {"kind": res["kind"], "exctype": res.get("exc", {}).get("type", "")}})
    finally:
        loop.close()
    return {"import_ok": True, "calls": out}
