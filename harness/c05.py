"""C05 - response fidelity: declared success bodies come back as typed values.

(A) design model checking of specs/MC_Reply.tla (the two copies of the primary-response selection, the emitted
    `match response.status_code` and the emitted extraction, as a machine over specs/Reply.tla) for declared sets of
    <= MaxDecl statuses of {200,201,202,204,206,default} x designated served response x content kind x body shape x
    conforming bodies: variant "as_is" (the clauses the design satisfies are INVARIANTs, the ones it violates are evaluated
    INTO a verdict - DESIGN lines - so one run lists every specification-level counterexample), variant "fixed" (the whole
    property as INVARIANT: satisfiable) and the variants "sig201" / "hdl201" (one selection copy prefers 201 over 200:
    INVARIANT SelectionsAgree must fail - negative control of the design check);
(B) specs/Gen_Reply.tla emits the same scenarios with their bodies; one operation per scenario, PACK scenarios per generated
    package (distinct paths); the real generator (harness/w_gen.py) emits the packages and the `serve` observation
    (harness/w_obs.py + harness/obs_wire.py) calls every method against a fake server per body; harness/obs_c05.py adds
    the kinds the real return annotations admit and drives the bundled stream helpers directly;
(C) specs/Trace_Reply.tla (run by TLC) judges every outcome with Reply!Failures - the operator that judged the modelled
    outcome - and says where the real outcome differs from the as-is model (DRIFT).
"""

from __future__ import annotations

import base64
import json
import re
import time
from collections import Counter
from typing import Any

from . import core, features
from .core import Check, run_tlc, tla

LEVEL = "model_checking"

PACK = 16  # operations per generated package
OBS_ENV = {"VERIF_OBS_EXTRA": "harness.obs_wire,harness.obs_c05"}
CLAUSES = ["C05.raised", "C05.none_expected", "C05.value", "C05.kind", "C05.text", "C05.bytes", "C05.stream_items", "C05.stream_order"]

HOLDING = ["TypeOK", "MachineIsModel", "SelectionsAgree", "SelectionIsDocumented", "JudgeAgrees", "NoContentIsNone", "PrimaryJsonHolds", "StreamsKeepOrder"]
ACTIONS_AS_IS = ["SelectSignature", "SelectHandler", "LoadFails", "CasePrimary", "CaseSecondary", "CaseDefault", "ReturnNone", "StreamBytes", "StreamSseJson", "ContentTypeSwitch", "StructureJson", "CastJson", "ReturnText", "Judge"]
ACTIONS_FIXED = ["SelectSignature", "SelectHandler", "CasePrimary", "ReturnNone", "StreamBytes", "StreamSseJson", "ContentTypeSwitch", "StructureJson", "CastJson", "ReturnText", "StreamRecords", "Judge"]

R = features.ref
SCHEMAS = {
    "Thing": features.obj({"id": {"type": "integer"}, "name": {"type": "string"}, "nums": {"type": "array", "items": {"type": "integer"}}, "tag": {"type": "string"}}, ["id", "name"]),
    "Other": features.obj({"code": {"type": "integer"}, "note": {"type": "string"}}, ["code", "note"]),
    "Label": {"type": "string"},
    "ThingList": {"type": "array", "items": R("Thing")},
    "Cat": features.obj({"lives": {"type": "integer"}, "meow": {"type": "string"}}, ["meow"]),
    "Dog": features.obj({"bark": {"type": "string"}, "tricks": {"type": "array", "items": {"type": "string"}}}, ["bark"]),
    "Pick": {"oneOf": [R("Cat"), R("Dog")]},
    "Bag": {"type": "object", "additionalProperties": {"type": "integer"}},
    "MaybeThings": {"type": "array", "nullable": True, "items": R("Thing")},
    "Prefs": {"type": "object", "nullable": True, "properties": {"compact": {"type": "boolean"}, "theme": {"type": "string"}}},
}
SHAPE = {
    "object": R("Thing"),
    "array": {"type": "array", "items": R("Thing")},
    "primalias": R("Label"),
    "arralias": R("ThingList"),
    "union": R("Pick"),
    "map": R("Bag"),
    "prim": {"type": "integer"},
    "str": {"type": "string"},
    "other": R("Other"),
    "bool": {"type": "boolean"},
    "nullarr": R("MaybeThings"),
    "nullobj": R("Prefs"),
}
CTYPE = {"json": "application/json", "text": "text/plain", "octet": "application/octet-stream", "sse": "text/event-stream", "ndjson": "application/x-ndjson"}
DECORATED = {"json": "Application/JSON; charset=utf-8", "text": "Text/Plain; charset=utf-8"}


# --------------------------------------------------------------------------------------------
# tagged trees <-> JSON


def to_tree(v: Any) -> dict:
    if v is None:
        return {"t": "null", "s": "null", "kids": []}
    if isinstance(v, bool):
        return {"t": "bool", "s": "true" if v else "false", "kids": []}
    if isinstance(v, int):
        return {"t": "int", "s": str(v), "kids": []}
    if isinstance(v, float):
        return {"t": "num", "s": repr(v), "kids": []}
    if isinstance(v, str):
        return {"t": "str", "s": v, "kids": []}
    if isinstance(v, list):
        return {"t": "arr", "s": "", "kids": [{"k": "", "n": to_tree(x)} for x in v]}
    if isinstance(v, dict):
        if set(v) == {"__bytes__"} and isinstance(v["__bytes__"], str):
            return {"t": "bytes", "s": v["__bytes__"], "kids": []}
        return {"t": "obj", "s": "", "kids": [{"k": str(k), "n": to_tree(v[k])} for k in sorted(v, key=str)]}
    return {"t": "str", "s": f"<{type(v).__name__}>", "kids": []}


def from_tree(n: dict) -> Any:
    t = n["t"]
    if t == "null":
        return None
    if t == "bool":
        return n["s"] == "true"
    if t == "int":
        return int(n["s"])
    if t == "num":
        return float(n["s"])
    if t == "str":
        return n["s"]
    if t == "bytes":
        return base64.b64decode(n["s"])
    if t == "arr":
        return [from_tree(kv["n"]) for kv in n["kids"]]
    if t == "obj":
        return {kv["k"]: from_tree(kv["n"]) for kv in n["kids"]}
    raise ValueError(f"no JSON for node type {t}")


NOTREE = {"t": "none", "s": "", "kids": []}


# --------------------------------------------------------------------------------------------
# scenario -> OpenAPI operation, body -> what the fake server sends


def content(r: dict) -> dict | None:
    c, sh = r["c"], r["sh"]
    if c == "none":
        return None
    if c == "json":
        return {"application/json": {"schema": SHAPE[sh]}}
    if c == "text":
        return {"text/plain": {"schema": SHAPE[sh]}}
    if c == "octet":
        return {"application/octet-stream": {"schema": {"type": "string", "format": "binary"}}}
    if c == "sse":
        return {"text/event-stream": {"schema": SHAPE[sh]}}
    if c == "ndjson":
        return {"application/x-ndjson": {"schema": SHAPE[sh]}}
    if c == "json+text":
        return {"application/json": {"schema": SHAPE[sh]}, "text/plain": {"schema": {"type": "string"}}}
    raise ValueError(c)


def operation(sc: dict, idx: int) -> dict:
    resp = {}
    # the `responses` map in the scenario's DOCUMENT order (Reply!DocSeq)
    order = sc.get("order") or sorted(sc["decl"], key=lambda s: (s == "default", s))
    assert sorted(order) == sorted(sc["decl"])
    for st in order:
        if st == sc["served"] and sc.get("share", "inline") != "inline":
            # declared by reference to components/responses (document() defines R<idx>)
            resp[st] = {"$ref": f"#/components/responses/R{idx}"}
            continue
        r: dict[str, Any] = {"description": f"response {st}"}
        c = content(sc["decl"][st])
        if c:
            r["content"] = c
        resp[st] = r
    # every scenario is its own tag = its own emitted endpoint module (own imports): scenarios of one package share
    # nothing but the models and the core
    return {"operationId": f"op{idx}", "tags": [f"t{idx}"], "responses": resp}


def companion(sc: dict) -> dict | None:
    """the companion operation of a scenario (Reply!CoScenario) as a scenario of its own: same shared response, own status"""
    co = sc.get("co") or {}
    if not co.get("served"):
        return None
    return {"id": sc["id"] + "co", "served": co["served"], "others": [], "c": sc["c"], "sh": sc["sh"], "role": co["role"], "sib": False, "ord": "asc",
            "share": co["share"], "status": co["status"], "decl": {co["served"]: sc["decl"][sc["served"]]}, "order": [co["served"]],
            "model_ann": co["model_ann"], "bodies": sc["bodies"], "companion_of": scen_label(sc)}


def units(idx: int, sc: dict) -> list[tuple[str, str, dict]]:
    """(key, request path, scenario) of every operation that is called for a scenario: itself and its companion"""
    out = [(str(idx), f"/o{idx}", sc)]
    co = companion(sc)
    if co:
        out.append((f"{idx}co", f"/o{idx}/co", co))
    return out


def document(scs: list[tuple[int, dict]]) -> dict:
    paths: dict[str, Any] = {}
    responses: dict[str, Any] = {}
    for idx, sc in scs:
        share = sc.get("share", "inline")
        if share != "inline":
            r: dict[str, Any] = {"description": f"shared response R{idx}"}
            c = content(sc["decl"][sc["served"]])
            if c:
                r["content"] = c
            responses[f"R{idx}"] = r
        co = companion(sc)
        co_item = {"get": {"operationId": f"co{idx}", "tags": [f"t{idx}co"], "responses": {co["served"]: {"$ref": f"#/components/responses/R{idx}"}}}} if co else None
        # `paths` in document order: the companion before or after the operation
        if co and share.endswith("_before"):
            paths[f"/o{idx}/co"] = co_item
        paths[f"/o{idx}"] = {"get": operation(sc, idx)}
        if co and share.endswith("_after"):
            paths[f"/o{idx}/co"] = co_item
    for idx, sc in scs:
        if sc.get("sib"):
            # the sibling: an ordinary operation in the same tag (= the same emitted endpoint module)
            paths[f"/o{idx}/sib"] = {"get": {"operationId": f"sib{idx}", "tags": [f"t{idx}"], "responses": {"200": features.jresp(R("Other"))}}}
    comps: dict[str, Any] = {"schemas": SCHEMAS}
    if responses:
        comps["responses"] = responses
    return {"openapi": "3.0.3", "info": {"title": "Reply API", "version": "1.0.0"}, "paths": paths, "components": comps}


def cut(data: bytes, chunking: str) -> list[bytes]:
    if not data:
        return []
    if chunking == "whole" or len(data) < 2:
        return [data]
    return [data[: len(data) // 2], data[len(data) // 2 :]]


def wire(body: dict) -> dict:
    """serve-entry fields for one Reply body."""
    ct = body["ct"]
    if ct == "none":
        return {"ctype": ""}
    ctype = DECORATED[ct] if body["var"] == "decorated" else CTYPE[ct]
    if ct == "json":
        return {"ctype": ctype, "body_json": from_tree(body["tree"])}
    if ct == "text":
        return {"ctype": ctype, "body_text": body["tree"]["s"]}
    if ct == "octet":
        return {"ctype": ctype, "chunks": [list(base64.b64decode(i["s"])) for i in body["items"]]}
    if ct == "sse" and body["chunking"] == "multiline":
        # one event, its JSON payload spread over several `data:` lines (no indentation: whether a reader strips one or
        # all leading blanks of a value is C18's subject)
        evs = [("".join("data: " + ln + "\n" for ln in json.dumps(from_tree(i), indent=0).splitlines()) + "\n").encode() for i in body["items"]]
    elif ct == "sse":
        evs = [("data: " + json.dumps(from_tree(i)) + "\n\n").encode() for i in body["items"]]
    else:
        evs = [(json.dumps(from_tree(i)) + "\n").encode() for i in body["items"]]
    if body["chunking"] in ("whole", "multiline"):
        chunks = cut(b"".join(evs), "whole")
    else:
        chunks = [c for e in evs for c in cut(e, "split")]
    return {"ctype": ctype, "chunks": [list(c) for c in chunks]}


def got_of(oc: dict) -> dict:
    g = {"kind": oc["kind"], "pykind": "", "pyclass": "", "tree": NOTREE, "items": [], "itemkinds": [], "cat": "", "exc": ""}
    if oc["kind"] == "raise":
        g["exc"] = oc["exc"]["type"]
    elif oc["kind"] == "return":
        g["pykind"] = oc["pykind"]
        g["pyclass"] = "model" if oc["pykind"].startswith("model:") else oc["pykind"]
        g["tree"] = to_tree(oc["value"])
    else:
        g["items"] = [to_tree(x) for x in oc["items"]]
        kinds = list(oc.get("pykinds", []))
        # obs_wire reports the python kind of the first three items; later ones by their serialisation
        for x in g["items"][len(kinds) :]:
            kinds.append({"obj": "dict", "arr": "list", "null": "none", "num": "float"}.get(x["t"], x["t"]))
        g["itemkinds"] = sorted(set(kinds))
        if g["items"] and all(x["t"] == "bytes" for x in g["items"]):
            g["cat"] = base64.b64encode(b"".join(base64.b64decode(x["s"]) for x in g["items"])).decode()
    return g


def brief(g: dict) -> Any:
    if g["kind"] == "raise":
        return {"raise": g["exc"]}
    if g["kind"] == "return":
        return {"return": g["pykind"], "value": from_tree(g["tree"]) if g["tree"]["t"] not in ("none", "bytes") else g["tree"]["s"]}
    return {"items": [x["s"] if x["t"] == "bytes" else from_tree(x) for x in g["items"]], "kinds": g["itemkinds"]}


def sent(body: dict) -> Any:
    w = wire(body)
    if "chunks" in w:
        w = {**w, "chunks": [bytes(c).decode("latin-1") for c in w["chunks"]]}
    return w


# --------------------------------------------------------------------------------------------
# (A) design


def design_cfg(variant: str, maxdecl: int, level: int, emit: bool, invariants: list[str]) -> str:
    inv = "".join(f"INVARIANT {i}\n" for i in invariants)
    return f"SPECIFICATION Spec\nCONSTANTS\n MaxDecl = {maxdecl}\n Level = {level}\n Variant = {tla(variant)}\n Emit = {tla(emit)}\n{inv}CHECK_DEADLOCK FALSE\n"


def clean_locus(l: dict[str, Any]) -> dict[str, Any]:
    return {k: v for k, v in l.items() if v != ""}


def fkey(clause: str, locus: dict[str, Any]) -> str:
    return json.dumps([clause, clean_locus(locus)], sort_keys=True)


class _Sub:
    """private scratch numbering for the design runs (they run in a thread next to generation / observation)"""

    def __init__(self, base) -> None:
        self.path = base
        self.path.mkdir(parents=True, exist_ok=True)
        self._n = 0

    def sub(self, name: str):
        self._n += 1
        p = self.path / f"{self._n:03d}_{name}"
        p.mkdir(parents=True)
        return p


class _Rec:
    """what design() would have told the Check; applied by the main thread afterwards"""

    def __init__(self, base) -> None:
        self.scratch = _Sub(base)
        self.tlc: list = []
        self.fails: list = []
        self.cov: dict = {}

    def add_tlc(self, name, r) -> None:
        self.tlc.append((name, r))

    def fail(self, *a) -> None:
        self.fails.append(a)

    def require(self, cond: bool, msg: str) -> None:
        if not cond:
            raise core.MachineryError(msg)

    def apply(self, chk: Check) -> None:
        for name, r in self.tlc:
            chk.add_tlc(name, r)
        for a in self.fails:
            chk.fail(*a)
        chk.cov.update(self.cov)


def action_counts(r: Any) -> Counter:
    """how often every action of MC_Reply fired on the way to a judged call (the machine records the actions it takes in
    `acts`; Judge prints them) - the vacuity guard; TLC's -coverage would triple the run time"""
    c: Counter = Counter()
    for acts in r.printed.get("ACTS", []):
        for a in acts:
            c[a] += 1
        c["Judge"] += 1
    return c


def design(chk: Any, maxdecl: int, level: int) -> Counter:
    """Returns the specification-level counterexamples of the as-is design: (clause, locus) -> number of (scenario, body)."""
    dev: Counter = Counter()
    r = run_tlc(chk.scratch, "MC_Reply", design_cfg("as_is", maxdecl, level, True, HOLDING), allow_violation=True, timeout=1200, workers=8)
    chk.add_tlc(f"MC_Reply[as_is,MaxDecl={maxdecl},Level={level}]", r)
    if r.violated:
        chk.fail("C05.design_invariant", {"invariant": r.violated[0], "variant": "as_is"}, {"variant": "as_is"}, r.out[-1500:])
        return dev
    acts = action_counts(r)
    for a in ACTIONS_AS_IS:
        chk.require(acts.get(a, 0) > 0, f"vacuous design run: action {a} never taken")
    chk.cov["design_calls_checked"] = acts.get("Judge", 0)
    chk.cov["design_action_counts"] = {"as_is": dict(sorted(acts.items()))}
    first: dict[str, Any] = {}
    for d in r.printed.get("DESIGN", []):
        for f in d["fails"]:
            k = fkey(f["clause"], f["locus"])
            dev[k] += 1
            first.setdefault(k, {"sibling_operation": d["sib"], "served": d["served"], "others": d["others"], "content": d["c"], "shape": d["sh"], "served_as": d["ct"]})
    chk.require(len(dev) > 0, "the as-is design model has no counterexample at all (the known text/plain defect is not modelled?)")
    chk.cov["design_counterexample_classes"] = len(dev)
    chk.cov["design_counterexamples"] = [{"clause": json.loads(k)[0], "locus": json.loads(k)[1], "n": n, "first": first[k]} for k, n in sorted(dev.items())][:200]
    # the reference is satisfiable
    r = run_tlc(chk.scratch, "MC_Reply", design_cfg("fixed", maxdecl, level, False, ["TypeOK", "MachineIsModel", "JudgeAgrees", "Property"]), allow_violation=True, timeout=1200, workers=8)
    chk.add_tlc(f"MC_Reply[fixed,MaxDecl={maxdecl},Level={level}]", r)
    if r.violated:
        chk.fail("C05.design_invariant", {"invariant": r.violated[0], "variant": "fixed"}, {"variant": "fixed"}, r.out[-1500:])
    else:
        acts = action_counts(r)
        for a in ACTIONS_FIXED:
            chk.require(acts.get(a, 0) > 0, f"vacuous design run (fixed): action {a} never taken")
        chk.cov["design_action_counts"]["fixed"] = dict(sorted(acts.items()))
    # negative control: a disagreement between the two selection copies is a design-level counterexample
    import concurrent.futures

    variants = ("sig201", "hdl201", "sigsorted", "hdlfirst")

    def control(v: str):
        return run_tlc(_Sub(chk.scratch.path / f"ctl_{v}"), "MC_Reply", design_cfg(v, 2, 1, False, ["SelectionsAgree"]) + "CONSTRAINT ControlCell\n", allow_violation=True, workers=2)

    with concurrent.futures.ThreadPoolExecutor(len(variants)) as ex:
        results = list(ex.map(control, variants))
    for v, r in zip(variants, results):
        chk.add_tlc(f"MC_Reply[{v}]", r)
        chk.require("SelectionsAgree" in r.violated, f"design check does not see the disagreement of variant {v}")
        chk.cov.setdefault("design_negative_controls", {})[v] = "SelectionsAgree violated (expected)"
    return dev


# --------------------------------------------------------------------------------------------
# (B) scenarios -> packages -> outcomes


def scen_key(s: dict) -> str:
    return json.dumps([s["served"], sorted(s["others"]), s["c"], s["sh"], bool(s.get("sib")), s.get("ord", "asc"), s.get("share", "inline")])


def scenarios(chk: Check, maxdecl: int, level: int) -> list[dict]:
    r = run_tlc(chk.scratch, "Gen_Reply", f"SPECIFICATION Spec\nCONSTANTS\n MaxDecl = {maxdecl}\n Level = {level}\nCHECK_DEADLOCK FALSE\n", workers=4, timeout=900)
    chk.add_tlc("Gen_Reply", r)
    scen = r.printed.get("SCEN", [])
    chk.require(len(scen) > 0, "Gen_Reply produced no scenario")
    for s in scen:
        s["others"] = sorted(s["others"])
        s["bodies"].sort(key=lambda b: json.dumps(b, sort_keys=True))
    # homogeneous packages (same content kind / role / kind of neighbours): a defect that breaks a whole package then
    # takes few innocent scenarios with it
    scen.sort(key=lambda s: (s["c"], s["role"], [o for o in s["others"] if o != "204"] == [], s["sh"], scen_key(s)))
    chk.require(len({scen_key(s) for s in scen}) == len(scen), "Gen_Reply emitted a scenario twice")
    for i, s in enumerate(scen):
        s["id"] = f"s{i:04d}"
    return scen


def serve_entries(idx: int, sc: dict) -> list[dict]:
    return [{"sid": f"{key}#{k}", "status": u["status"], "transport": "bundled", "path_re": path, **wire(b)} for key, path, u in units(idx, sc) for k, b in enumerate(u["bodies"])]


def _check_obs(o: dict, keys: list[str], what: str) -> None:
    for k in keys:
        v = o.get(k)
        if isinstance(v, dict) and "observer_error" in v:
            raise core.MachineryError(f"observer {k} crashed on {what}: {v['observer_error']} {v.get('tb', '')[-400:]}")


def _raise_got(exctype: str) -> dict:
    return {"kind": "raise", "pykind": "", "pyclass": "", "tree": NOTREE, "items": [], "itemkinds": [], "cat": "", "exc": exctype}


def generate_and_serve(chk: Check, scen: list[dict], label: str, pack: int) -> list[dict]:
    """One trace per scenario.  Scenarios are packed `pack` per generated package (own path, own tag = own endpoint module
    each).  A package that cannot be imported is split: operations whose endpoint module does not compile are re-generated
    alone, the rest together; a scenario whose package cannot be generated / imported even ALONE gets a trace in which every
    call "raises" that error (nothing can be called)."""
    root = chk.scratch.sub("gen_" + label)
    indexed = list(enumerate(scen))
    groups: list[list[tuple[int, dict]]] = [indexed[i : i + pack] for i in range(0, len(indexed), pack)]
    traces: list[dict] = []
    round_ = 0
    while groups:
        round_ += 1
        gjobs = [{"id": f"{label}r{round_}g{g}", "root": str(root), "spec": document(grp), "pkg": f"c05{label}r{round_}g{g}", "core": None, "force": True, "nopp": True} for g, grp in enumerate(groups)]
        t0 = time.time()
        gres = core.parallel_py(chk.scratch, "harness.w_gen", gjobs)
        chk.cov.setdefault("phase_wall_s", {})[f"generate[{label}#{round_}]"] = round(time.time() - t0, 2)
        chk.cov["packages_generated"] = chk.cov.get("packages_generated", 0) + len(gjobs)
        ojobs = []
        for j, g, grp in zip(gjobs, gres, groups):
            if not g["ok"]:
                continue
            entries = [e for idx, sc in grp for e in serve_entries(idx, sc)]
            job = {"id": j["id"], "root": j["root"], "pkg": j["pkg"], "core": None, "want": ["compile", "import", "retkinds", "serve_by_path"], "serve": entries}
            if not _HELPER_OUTCOMES and not any("helpers" in x for x in ojobs):
                job["want"].append("helpers")
                job["helpers"] = [{"hid": h["id"], "fn": h["fn"], "chunks": h["chunks"]} for h in helper_cases(chk)]
            ojobs.append(job)
        ojobs.sort(key=lambda j: -len(j["serve"]))
        t0 = time.time()
        ores = {r["id"]: r for r in core.parallel_py(chk.scratch, "harness.w_obs", ojobs, env=OBS_ENV)} if ojobs else {}
        chk.cov["phase_wall_s"][f"observe[{label}#{round_}]"] = round(time.time() - t0, 2)
        retry: list[list[tuple[int, dict]]] = []
        for j, g, grp in zip(gjobs, gres, groups):
            reason = None
            culprits: set[int] = set()
            o = ores.get(j["id"])
            if not g["ok"]:
                reason = {"stage": "generate", "exctype": g["errtype"] or "Exception", "msg": (g["err"] or "")[:200]}
            else:
                _check_obs(o, ["compile", "import"], j["id"])
                bad = [m for m in o["import"] if not m["ok"]]
                if bad:
                    reason = {"stage": "import", "exctype": bad[0]["exc"]["type"], "msg": f"{bad[0]['m']}: {bad[0]['exc']['msg'][:160]}"}
                    for e in o["compile"]["errors"]:
                        m = re.search(r"endpoints/t_?(\d+)\w*\.py$", e["file"])
                        if m:
                            culprits.add(int(m.group(1)))
            if reason is not None:
                dead = list(grp) if len(grp) == 1 else []
                if len(grp) > 1:
                    # an operation whose OWN endpoint module (one per tag) does not compile makes every package it is in
                    # unimportable (client.py imports all endpoint modules): no need to regenerate it alone
                    dead = [x for x in grp if x[0] in culprits]
                    rest = [x for x in grp if x[0] not in culprits]
                    chk.cov.setdefault("package_splits", []).append({"round": round_, "size": len(grp), "culprits": len(culprits), "why": reason["msg"][:120]})
                    if culprits:
                        reason = {"stage": "compile", "exctype": "SyntaxError", "msg": "; ".join(f"{e['file']}: {e['msg']}" for e in o["compile"]["errors"])[:200]}
                        retry += [rest] if rest else []
                    else:
                        retry += [[x] for x in grp]  # every scenario alone
                for idx, sc0 in dead:
                    for _key, _path, sc in units(idx, sc0):
                        ev = [{"body": b, "got": _raise_got(reason["exctype"]), "_msg": f"{reason['stage']} failed: {reason['msg']}"} for b in sc["bodies"]]
                        traces.append({"id": sc["id"], "served": sc["served"], "others": sc["others"], "c": sc["c"], "sh": sc["sh"], "role": sc["role"], "sib": sc["sib"], "ord": sc["ord"], "share": sc["share"], "via": "method", "ann": ["any"], "ev": ev, "_sc": sc, "_ret": "", "_unusable": reason["stage"]})
                continue
            _check_obs(o, ["retkinds", "serve_by_path"], j["id"])
            if "helpers" in o:
                _check_obs(o, ["helpers"], j["id"])
                _HELPER_OUTCOMES.update({h["hid"]: h["outcome"] for h in o["helpers"]})
            kinds = {(r["prop"], r["method"]): r for r in o["retkinds"]}
            by_sid: dict[str, dict] = {}
            for rec in o["serve_by_path"]:
                chk.require(rec["sid"] not in by_sid, f"{j['id']}: two methods answered for {rec['sid']}")
                by_sid[rec["sid"]] = rec
            for idx, sc0 in grp:
                for key, path, sc in units(idx, sc0):
                    ev = []
                    meth = None
                    for k, b in enumerate(sc["bodies"]):
                        rec = by_sid.get(f"{key}#{k}")
                        chk.require(rec is not None, f"{j['id']}: no method sends GET {path} (scenario {sc['id']})")
                        chk.require(rec["sent"][0]["method"] == "GET", f"{j['id']}: {path} was not requested with GET")
                        chk.require(meth in (None, (rec["prop"], rec["method"])), f"{j['id']}: two methods send to {path}")
                        meth = (rec["prop"], rec["method"])
                        ev.append({"body": b, "got": got_of(rec["outcome"]), "_msg": rec["outcome"].get("exc", {}).get("msg", "")[:160] if rec["outcome"]["kind"] == "raise" else ""})
                    rk = kinds[meth]
                    if rk["kinds"] == ["unresolved"]:
                        chk.note_drift(f"return annotation of the method for scenario {sc['id']} cannot be evaluated ({rk['error']}); annotation clause not judged")
                        rk = {**rk, "kinds": ["any"]}
                    traces.append({"id": sc["id"], "served": sc["served"], "others": sc["others"], "c": sc["c"], "sh": sc["sh"], "role": sc["role"], "sib": sc["sib"], "ord": sc["ord"], "share": sc["share"], "via": "method", "ann": rk["kinds"], "ev": ev, "_sc": sc, "_ret": by_sid[f"{key}#0"]["ret"]})
        groups = retry
        chk.require(round_ <= 4, "package splitting did not converge")
    order = {s["id"]: i for i, s in enumerate(scen)}
    traces.sort(key=lambda t: (order[t["id"].removesuffix("co")], t["id"]))
    return traces


# --------------------------------------------------------------------------------------------
# bundled stream helpers, driven directly (the emitted methods use only some of them)

_HELPER_CASES: list[dict] = []
_HELPER_OUTCOMES: dict[str, dict] = {}


def _t(v: Any) -> dict:
    return to_tree(v)


def helper_cases(chk: Check) -> list[dict]:
    if _HELPER_CASES:
        return _HELPER_CASES
    t1 = {"id": 1, "name": "a", "nums": [1, 2], "tag": "t"}
    t2 = {"id": 2, "name": "b"}
    t3 = {"id": 2, "name": "a", "tag": "u"}
    seqs = [[], [t1], [t1, t2], [t2, t1], [t3, t2, t1]]
    k = 0
    for fn, ct in (("iter_ndjson", "ndjson"), ("iter_sse_events_text", "sse"), ("iter_sse", "sse")):
        for seq in seqs:
            for chunking in ("whole", "split") + (("multiline",) if ct == "sse" else ()):
                body = {"ct": ct, "var": "exact", "tree": NOTREE, "items": [_t(x) for x in seq], "chunking": chunking}
                # what was sent, at the helper's level of abstraction: records for NDJSON, `data` payload texts for SSE
                # (the lines of a multi-line payload joined with LF)
                dump = (lambda x: json.dumps(x, indent=0)) if chunking == "multiline" else json.dumps
                expect = body if fn == "iter_ndjson" else {**body, "items": [_t(dump(x)) for x in seq]}
                _HELPER_CASES.append({"id": f"h{k:02d}", "fn": fn, "chunks": wire(body)["chunks"], "body": expect})
                k += 1
    for seq in (["YWJj"], ["YWIA", "/2Nk"], ["/2Nk", "YWIA"], []):
        body = {"ct": "octet", "var": "exact", "tree": NOTREE, "items": [{"t": "bytes", "s": s, "kids": []} for s in seq], "chunking": "whole"}
        _HELPER_CASES.append({"id": f"h{k:02d}", "fn": "iter_bytes", "chunks": wire(body)["chunks"], "body": body})
        k += 1
    return _HELPER_CASES


def helper_traces(chk: Check) -> list[dict]:
    outs = dict(_HELPER_OUTCOMES)
    if not outs:
        return []
    tr = []
    for h in helper_cases(chk):
        oc = outs[h["id"]]
        tr.append({"id": h["id"], "served": "200", "others": [], "c": h["body"]["ct"], "sh": "object" if h["body"]["ct"] != "octet" else "-", "role": "helper", "sib": False, "ord": "asc", "share": "inline", "via": "helper:" + h["fn"], "ann": ["any"], "ev": [{"body": h["body"], "got": got_of(oc), "_msg": oc.get("exc", {}).get("msg", "")[:160] if oc["kind"] == "raise" else ""}], "_sc": {"helper": h["fn"], "chunks": [bytes(c).decode("latin-1") for c in h["chunks"]]}})
    return tr


# --------------------------------------------------------------------------------------------
# (C) the monitor


def _good(body: dict, got: dict, ann: list[str], c: str, sh: str) -> dict:
    return {"served": "200", "others": [], "c": c, "sh": sh, "role": "primary", "sib": False, "ord": "asc", "share": "inline", "via": "method", "ann": ann, "ev": [{"body": body, "got": got}]}


def negative_traces() -> list[dict]:
    """synthetic observations the monitor must accept (controls) or reject with the named clause."""
    T1 = {"id": 1, "name": "a", "nums": [1, 2], "tag": "t"}
    T2 = {"id": 2, "name": "b"}
    jb = lambda v: {"ct": "json", "var": "exact", "tree": _t(v), "items": [], "chunking": "whole"}  # noqa: E731
    ret = lambda pk, v: {"kind": "return", "pykind": pk, "pyclass": "model" if pk.startswith("model:") else pk, "tree": _t(v) if v is not NOTREE else NOTREE, "items": [], "itemkinds": [], "cat": "", "exc": ""}  # noqa: E731
    its = lambda vs, kinds, cat="": {"kind": "items", "pykind": "", "pyclass": "", "tree": NOTREE, "items": [_t(v) for v in vs], "itemkinds": kinds, "cat": cat, "exc": ""}  # noqa: E731
    sse = lambda vs: {"ct": "sse", "var": "exact", "tree": NOTREE, "items": [_t(v) for v in vs], "chunking": "whole"}  # noqa: E731
    octet = {"ct": "octet", "var": "exact", "tree": NOTREE, "items": [{"t": "bytes", "s": "YWIA", "kids": []}, {"t": "bytes", "s": "/2Nk", "kids": []}], "chunking": "whole"}
    text = {"ct": "text", "var": "exact", "tree": _t("hello world"), "items": [], "chunking": "whole"}
    none = {"ct": "none", "var": "exact", "tree": NOTREE, "items": [], "chunking": "whole"}
    raised = {"kind": "raise", "pykind": "", "pyclass": "", "tree": NOTREE, "items": [], "itemkinds": [], "cat": "", "exc": "KeyError"}
    A = ["model:Thing"]
    cases = [
        ("control_model", _good(jb(T1), ret("model:Thing", T1), A, "json", "object"), None),
        ("control_absent_optional_null_or_empty", _good(jb(T2), ret("model:Thing", {**T2, "tag": None, "nums": []}), A, "json", "object"), None),
        ("required_changed", _good(jb(T1), ret("model:Thing", {**T1, "id": 2}), A, "json", "object"), "C05.value"),
        ("optional_lost", _good(jb(T1), ret("model:Thing", {**T1, "tag": None}), A, "json", "object"), "C05.value"),
        ("required_null", _good(jb(T1), ret("model:Thing", {**T1, "name": None}), A, "json", "object"), "C05.value"),
        ("raw_dict_for_model", _good(jb(T1), ret("dict", T1), A, "json", "object"), "C05.kind"),
        ("model_outside_annotation", _good(jb(T1), ret("model:Thing", T1), ["model:Other"], "json", "object"), "C05.kind"),
        ("list_reordered", _good(jb([T1, T2]), ret("list", [T2, T1]), ["list"], "json", "array"), "C05.value"),
        ("raised", _good(jb(T1), raised, A, "json", "object"), "C05.raised"),
        ("control_null_body_of_nullable", _good(jb(None), ret("none", None), ["list", "none"], "json", "nullarr"), None),
        ("control_empty_list_of_nullable", _good(jb([]), ret("list", []), ["list", "none"], "json", "nullarr"), None),
        ("empty_list_became_none", _good(jb([]), ret("none", None), ["list", "none"], "json", "nullarr"), "C05.value"),
        ("empty_model_became_none", _good(jb({}), ret("none", None), ["model:Prefs", "none"], "json", "nullobj"), "C05.value"),
        ("zero_became_none", _good(jb(0), ret("none", None), ["int"], "json", "prim"), "C05.value"),
        ("null_became_empty_list", _good(jb(None), ret("list", []), ["list", "none"], "json", "nullarr"), "C05.value"),
        ("control_none", _good(none, ret("none", NOTREE), ["none"], "none", "-"), None),
        ("value_for_no_content", _good(none, ret("str", ""), ["none"], "none", "-"), "C05.none_expected"),
        ("control_text", _good(text, ret("str", "hello world"), ["str"], "text", "str"), None),
        ("text_changed", _good(text, ret("str", "hello"), ["str"], "text", "str"), "C05.text"),
        ("text_as_bytes", _good(text, ret("bytes", {"__bytes__": "aGVsbG8gd29ybGQ="}), ["str"], "text", "str"), "C05.text"),
        ("control_bytes_rechunked", _good(octet, its([{"__bytes__": "YWIA/2Nk"}], ["bytes"], "YWIA/2Nk"), ["aiter:bytes"], "octet", "-"), None),
        ("control_bytes_value", _good(octet, ret("bytes", {"__bytes__": "YWIA/2Nk"}), ["bytes"], "octet", "-"), None),
        ("bytes_value_changed", _good(octet, ret("bytes", {"__bytes__": "YWIA"}), ["bytes"], "octet", "-"), "C05.bytes"),
        ("chunks_reordered", _good(octet, its([{"__bytes__": "/2Nk"}, {"__bytes__": "YWIA"}], ["bytes"], "/2NkYWIA"), ["aiter:bytes"], "octet", "-"), "C05.stream_order"),
        ("chunk_lost", _good(octet, its([{"__bytes__": "YWIA"}], ["bytes"], "YWIA"), ["aiter:bytes"], "octet", "-"), "C05.stream_items"),
        ("control_events", _good(sse([T1, T2]), its([T1, T2], ["dict"]), ["aiter:dict"], "sse", "object"), None),
        ("events_reordered", _good(sse([T1, T2]), its([T2, T1], ["dict"]), ["aiter:dict"], "sse", "object"), "C05.stream_order"),
        ("event_lost", _good(sse([T1, T2]), its([T1], ["dict"]), ["aiter:dict"], "sse", "object"), "C05.stream_items"),
        ("event_duplicated", _good(sse([T1, T2]), its([T1, T1, T2], ["dict"]), ["aiter:dict"], "sse", "object"), "C05.stream_items"),
        ("events_undecoded", _good(sse([T1]), its([json.dumps(T1)], ["str"]), ["aiter:any"], "sse", "object"), "C05.stream_items"),
        ("events_as_list", _good(sse([T1]), ret("list", [T1]), ["aiter:dict"], "sse", "object"), "C05.stream_items"),
        ("item_kind_outside_annotation", _good(sse([T1]), its([T1], ["dict"]), ["aiter:model:Thing"], "sse", "object"), "C05.kind"),
    ]
    out = []
    for name, t, expect in cases:
        out.append({**t, "id": "neg-" + name, "_name": name, "_expect": expect})
    return out


def judge(chk: Check, traces: list[dict], label: str, negatives: bool) -> dict[str, dict]:
    negs = negative_traces() if negatives else []
    d = chk.scratch.sub("traces_" + label)
    tf = d / "traces.ndjson"

    def strip(x: Any) -> Any:
        if isinstance(x, dict):
            return {k: strip(v) for k, v in x.items() if not k.startswith("_")}
        if isinstance(x, list):
            return [strip(v) for v in x]
        return x

    with tf.open("w") as f:
        for t in traces + negs:
            f.write(json.dumps(strip(t)) + "\n")
    if not traces and not negs:
        return {}
    r = run_tlc(chk.scratch, "Trace_Reply", "SPECIFICATION Spec\nCHECK_DEADLOCK FALSE\n", env={"TRACE_FILE": str(tf)}, timeout=1500)
    chk.add_tlc(f"Trace_Reply[{label}]", r)
    vs = {v["id"]: v for v in r.printed.get("VERDICT", [])}
    chk.require(len(vs) == len(traces) + len(negs), f"monitor produced {len(vs)} verdicts for {len(traces) + len(negs)} traces")
    for n in negs:
        got = sorted({f["clause"] for f in vs[n["id"]]["fails"]})
        want = [n["_expect"]] if n["_expect"] else []
        chk.require((got == []) if not want else (want[0] in got), f"synthetic trace {n['_name']} judged {got}, expected {want}")
        chk.cov.setdefault("negative_traces_rejected", {})[n["_name"]] = " + ".join(got) or "accepted (control)"
    return vs


ANTE = {"C05.raised": "calls", "C05.none_expected": "none", "C05.value": "json", "C05.kind": "returned", "C05.text": "text", "C05.bytes": "bytes", "C05.stream_items": "stream", "C05.stream_order": "ordered"}


def account(chk: Check, traces: list[dict], vs: dict[str, dict], design_dev: Counter | None, verbose: bool = False) -> dict[str, int]:
    stats = {"calls": 0, "failing": 0}
    real: Counter = Counter()
    model: Counter = Counter()
    ndrift = 0
    for t in traces:
        v = vs[t["id"]]
        sc = t["_sc"]
        chk.require(v["wellformed"], f"trace {t['id']} is outside the specified scenario space")
        a = v["ante"]
        chk.require(a["calls"] == len(t["ev"]), "monitor did not consume every event")
        stats["calls"] += a["calls"]
        chk.count(a["calls"])
        for c, key in ANTE.items():
            chk.clause(c, a[key])
        if t["via"] == "method":
            for k, e in enumerate(t["ev"]):
                if e["body"]["ct"] != "none":
                    chk.nontrivial(f"{t['id']}#{k}")
            chk.sample({"declared": sc["decl"], "served": sc["served"], "status": sc["status"], "sent": sent(t["ev"][0]["body"]), "return_annotation": t["_ret"], "observed": brief(t["ev"][0]["got"])}, cap=8)
        for f in v["model_fails"]:
            model[fkey(f["clause"], f["locus"])] += f["n"]
        if v["ann_drift"] and not t.get("_unusable"):
            if len([x for x in chk.drift if x.startswith("annotation")]) < 3:
                chk.note_drift(f"annotation of scenario {scen_label(sc)} admits {t['ann']} but the as-is model says {sorted(sc['model_ann'])}")
        if v["ndrift"]:
            ndrift += v["ndrift"]
            if len([x for x in chk.drift if x.startswith("outcome")]) < 4:
                e = t["ev"][v["drift_first"] - 1]
                chk.note_drift(f"outcome differs from the as-is model for {scen_label(sc)} sent {json.dumps(sent(e['body']))[:160]} ({v['ndrift']} bodies of this operation): observed {json.dumps(brief(e['got']))[:200]}")
        for f in v["fails"]:
            loc = clean_locus(f["locus"])
            e = t["ev"][f["first"] - 1]
            stats["failing"] += f["n"]
            real[fkey(f["clause"], f["locus"])] += f["n"]
            scen = {k: sc[k] for k in sc if k not in ("bodies", "id", "model_ann", "co")} if t["via"] == "method" else dict(sc)
            scen["body"] = e["body"]
            chk.fail(f["clause"], loc, scen, f"{f['n']} bodies of this operation, first: sent {json.dumps(sent(e['body']))[:200]} annotation {t.get('_ret', '')!r}: observed {json.dumps(brief(e['got']))[:200]} {e.get('_msg', '')}")
        if verbose:
            print("SCENARIO ", json.dumps({k: sc[k] for k in sc if k != "bodies"}))
            print("ANNOTATION", t.get("_ret"), t["ann"])
            for e in t["ev"]:
                print("SENT     ", json.dumps(sent(e["body"])))
                print("OUTCOME  ", json.dumps(brief(e["got"])), e.get("_msg", ""))
            print("VERDICT  ", json.dumps(v))
    chk.cov.setdefault("failure_classes", []).extend({"clause": json.loads(k)[0], "locus": json.loads(k)[1], "bodies": n} for k, n in sorted(real.items()))
    if ndrift:
        chk.note_drift(f"{ndrift} call outcomes in total differ from the as-is model")
    chk.cov["calls_differing_from_model"] = chk.cov.get("calls_differing_from_model", 0) + ndrift
    if design_dev is not None:
        # the design check and the monitor's model column are the same operator over the same scenarios
        if set(model) != set(design_dev):
            chk.note_drift(f"design run and monitor disagree on the model's counterexample classes: {sorted(set(model) ^ set(design_dev))[:3]}")
        only_model = sorted(set(model) - set(real))
        only_real = sorted(set(real) - set(model))
        chk.cov["counterexample_classes"] = {"design_and_code": len(set(model) & set(real)), "design_only": len(only_model), "code_only": len(only_real)}
        for k in only_model[:6]:
            chk.note_drift(f"the as-is model predicts {k} but the code does not show it")
        for k in only_real[:6]:
            chk.note_drift(f"the code shows {k} which the as-is model does not predict")
    return stats


def scen_label(sc: dict) -> str:
    if "decl" not in sc:
        return json.dumps(sc)[:80]
    return ("[with sibling operation] " if sc.get("sib") else "") + (f"[responses in {sc['ord']} order] " if sc.get("ord", "asc") != "asc" else "") + (f"[served response declared: {sc['share']}] " if sc.get("share", "inline") != "inline" else "") + "{" + ", ".join(f"{st}: {r['c']}" + (f"/{r['sh']}" if r["sh"] != "-" else "") for st, r in sorted(sc["decl"].items())) + f"}} served {sc['served']}"


# --------------------------------------------------------------------------------------------


def run(chk: Check) -> None:
    thorough = chk.tier == "thorough"
    maxdecl, level = (3, 2) if thorough else (2, 1)
    chk.cov["rule"] = (
        "TLC enumerates every scenario = (set of <= %d declared statuses of {200,201,202,204,206,default}, designated served response: "
        "primary, secondary, or `default` where it is the only response) x content kind {none, json, text/plain, octet-stream, "
        "event-stream, x-ndjson, json+text on one response} x body shape {object model, array of models, primitive alias, array alias, "
        "oneOf union, dict via additionalProperties, integer, string}; the other declared statuses carry a different JSON model (204: no "
        "content); per scenario every body of Reply!Bodies(level %d) (two values per leaf, optionals present/absent, empty / one / two "
        "items in both orders, two chunkings, exact and decorated Content-Type for multi-content responses). Each scenario is one operation "
        "of a really generated package; its method is called once per body against a fake server. evaluations = judged (scenario, served "
        "body) outcomes; non-trivial = those with a body"
    ) % (maxdecl, level)
    chk.assumptions += [
        "the server is an httpx.MockTransport injected under the emitted HttpxTransport (bundled transport only)",
        "value comparison tolerates, for an OPTIONAL member absent from the body: absent, null, or (list-typed) an empty list - as in C03",
        "binary streams are compared by the concatenation of the yielded chunks (a transport may re-cut chunks); order is judged on the chunks' multiset",
        "a `default` response is served (status 203) only where it is the only declared response and has content; next to explicit 2xx keys it is a filler",
        "a secondary 2xx response with its own schema must be admitted by the return annotation (the statement says 'a value of the annotated return type')",
    ]
    # (A) runs in a thread while (B) generates and observes; its accounting is applied here afterwards
    import concurrent.futures

    rec = _Rec(chk.scratch.path / "design")
    pool = concurrent.futures.ThreadPoolExecutor(1)
    fut = pool.submit(design, rec, maxdecl, level)
    scen = scenarios(chk, maxdecl, level)
    chk.cov["scenarios"] = len(scen)
    chk.cov["served_bodies"] = sum(len(s["bodies"]) for s in scen)
    traces = generate_and_serve(chk, scen, "q" if not thorough else "t", PACK)
    chk.cov["scenarios_whose_package_cannot_be_imported"] = sum(1 for t in traces if t.get("_unusable"))
    htr = helper_traces(chk)
    chk.require(len(htr) > 0, "the bundled stream helpers were not observed")
    dev = fut.result()
    pool.shutdown()
    rec.apply(chk)
    if any(f["clause"] == "C05.design_invariant" for f in chk.fails):
        return
    t0 = time.time()
    vs = judge(chk, traces + htr, "all", negatives=True)
    chk.cov["phase_wall_s"]["judge"] = round(time.time() - t0, 2)
    chk.cov["traces_validated_against_impl"] += len(traces) + len(htr)
    stats = account(chk, traces, vs, dev)
    hstats = account(chk, htr, vs, None)
    chk.cov["calls"] = {"method": stats, "helper": hstats}
    chk.cov["exhaustive"] = True
    for c in CLAUSES:
        chk.require(chk.cov["clauses_checked"].get(c, 0) > 0, f"clause {c} was never evaluated")


def replay(chk: Check, path: str) -> None:
    rec = json.loads(open(path).read())
    sc = dict(rec["scenario"])
    if "helper" in sc:
        print("helper-level failure; re-running the helper cases")
        scen = scenarios(chk, 1, 1)[:1]
        generate_and_serve(chk, scen, "rp", 1)
        htr = [t for t in helper_traces(chk) if t["via"] == "helper:" + sc["helper"]]
        vs = judge(chk, htr, "replay", negatives=False)
        account(chk, htr, vs, None, verbose=True)
        return
    body = sc.pop("body")
    # the scenario with every body of its cell (level 1) plus the failing one first
    r = run_tlc(chk.scratch, "Gen_Reply", f"SPECIFICATION Spec\nCONSTANTS\n MaxDecl = {len(sc['others']) + 1}\n Level = 1\nCHECK_DEADLOCK FALSE\n", workers=4)
    for x in r.printed.get("SCEN", []):
        x.setdefault("ord", "asc")
    match = [s for s in r.printed.get("SCEN", []) if s["served"] == sc["served"] and sorted(s["others"]) == sorted(sc["others"]) and s["c"] == sc["c"] and s["sh"] == sc["sh"] and s["sib"] == sc["sib"] and s["ord"] == sc.get("ord", "asc") and s["share"] == sc.get("share", "inline")]
    chk.require(len(match) == 1, "the replay's scenario is not in the specified scenario space")
    s = match[0]
    s["others"] = sorted(s["others"])
    s["bodies"] = [body] + [b for b in sorted(s["bodies"], key=lambda b: json.dumps(b, sort_keys=True)) if b != body]
    s["id"] = "replay"
    traces = generate_and_serve(chk, [s], "rp", 1)
    vs = judge(chk, traces, "replay", negatives=False)
    chk.cov["traces_validated_against_impl"] += len(traces)
    print("OPERATION", json.dumps(operation(s, 0)))
    account(chk, traces, vs, None, verbose=True)
