"""X06 (beyond the listed properties) - the enum pipeline: from `enum:` keywords and discriminator mappings to emitted Enum classes.

specs/EnumPipe.tla states, independently of the generator, what a document's enum declarations admit and what a user of the
emitted client relies on (Values, Members, RightEnum, Shared, Named, RoundTrip, Stable), and carries an implementation-shaped
model of the pipeline (first-come registry keyed by derived names, str()/int() coercion, member suffixing, "{value}" literals,
discriminator unification).  TLC (MC_EnumPipe) checks the statements on the reference registry and on the as-is pipeline for every
document of the bounded family; Gen_EnumPipe enumerates the documents (and the permutations of declaration order), this module
turns each into a real OpenAPI document, harness/w_gen.py runs the REAL generator, harness/obs_x06.py (inside harness/w_obs.py,
generator blocked) reads the emitted Enum classes, the annotation of every position and round trips every admitted value through
the emitted converter / endpoint method; Trace_EnumPipe (TLC) judges every scenario and recomputes the as-is registry (DRIFT)."""

from __future__ import annotations

import json
import os
import re
from typing import Any

from . import core
from .concretise import wrap
from .obs_x06 import abstract_text, concrete_text, member_fact, untag  # noqa: F401  (pure helpers; no generator import)

LEVEL = "model_checking"
R = "#/components/schemas/"
DESIGN_INVARIANTS = ("IdealHolds", "AsIsHoldsOutsideGap", "GapIsReal")
CLAUSES = ("Values", "Members", "RightEnum", "Shared", "Named", "RoundTrip", "Stable")


# ------------------------------------------------------------------------------------------------ abstract -> OpenAPI
def conc_decl(d: dict[str, Any]) -> dict[str, Any]:
    s: dict[str, Any] = {"type": d["base"], "enum": [untag(v) for v in d["vals"]]}
    if d["nul"]:
        s["nullable"] = True
    return s


def conc_prop(p: dict[str, Any]) -> dict[str, Any]:
    if p["src"] == "plain":
        return {"type": "string"}
    leaf = {"$ref": R + p["to"]} if p["src"] in ("ref", "objref") else conc_decl(p["decl"])
    if p["where"] == "item":
        return {"type": "array", "items": leaf}
    if p["where"] == "mapval":
        return {"type": "object", "additionalProperties": leaf}
    return leaf


def document(doc: dict[str, Any]) -> dict[str, Any]:
    schemas: dict[str, Any] = {}
    paths: dict[str, Any] = {}
    for o in doc["owners"]:
        if o["k"] == "enum":
            schemas[o["name"]] = conc_decl(o["decl"])
        elif o["k"] == "object":
            props: dict[str, Any] = {"mk_" + o["name"]: {"type": "string"}}
            req = []
            for p in o["props"]:
                props[p["key"]] = conc_prop(p)
                if p["req"]:
                    req.append(p["key"])
            schemas[o["name"]] = {"type": "object", "properties": props, **({"required": req} if req else {})}
        elif o["k"] == "union":
            dsc: dict[str, Any] = {"propertyName": o["disc"]}
            if o["mapping"]:
                dsc["mapping"] = {concrete_text(m): R + v for m, v in zip(o["mapping"], o["variants"])}
            schemas[o["name"]] = {"oneOf": [{"$ref": R + v} for v in o["variants"]], "discriminator": dsc}
        elif o["k"] == "op":
            params = [{"name": p["key"], "in": "query", "required": bool(p["req"]), "schema": conc_prop(p)} for p in o["props"]]
            paths["/" + o["name"]] = {"get": {"operationId": o["name"], "parameters": params, "responses": {"204": {"description": "none"}}}}
    return wrap(schemas, paths or None)


# ------------------------------------------------------------------------------------------------ the pipeline
def observe(chk: core.Check, scen: list[dict[str, Any]]) -> list[dict[str, Any]]:
    """Generate every permutation of every scenario with the real generator and observe the emitted package."""
    gdir = chk.scratch.sub("gen")
    gjobs, ojobs = [], []
    for i, s in enumerate(scen):
        for k, d in enumerate(s["perms"]):
            jid = f"{i}.{k}"
            root = str(gdir / f"d{i}p{k}")
            pkg = f"x{i}p{k}"
            gjobs.append({"id": jid, "root": root, "spec": document(d), "pkg": pkg, "core": None, "force": True, "nopp": True, "strategy": "operationId"})
            ojobs.append({"id": jid, "root": root, "pkg": pkg, "core": None, "want": ["x06"], "positions": s["positions"],
                          "owners": {o["name"]: [p["key"] for p in o["props"]] for o in d["owners"] if o["k"] == "object"},
                          "ops": {o["name"]: "/" + o["name"] for o in d["owners"] if o["k"] == "op"}})
    gres = core.parallel_py(chk.scratch, "harness.w_gen", gjobs, nproc=min(10, core.NCPU))
    ok = {r["id"] for r in gres if r["ok"]}
    ores = core.parallel_py(chk.scratch, "harness.w_obs", [j for j in ojobs if j["id"] in ok], nproc=min(10, core.NCPU), env={"VERIF_OBS_EXTRA": "harness.obs_x06"})
    by = {r["id"]: r for r in ores}
    gby = {r["id"]: r for r in gres}
    out = []
    for i, s in enumerate(scen):
        runs = []
        for k in range(len(s["perms"])):
            jid = f"{i}.{k}"
            g = gby[jid]
            if jid in by and "observer_error" not in by[jid]["x06"]:
                o = by[jid]["x06"]
                runs.append({"gen": "ok", **o})
            elif jid in by:
                raise core.MachineryError(f"observer failed on {s['doc']['id']}: {by[jid]['x06']}")
            else:
                # the generator refused the document: nothing was emitted
                runs.append({"gen": g["errtype"] or "error", "import_err": "none", "culprit": "", "classes": [],
                             "ann": [{"pos": p["id"], "kind": "missing", "cls": "generation:" + (g["errtype"] or "error"), "vals": [], "opt": False} for p in s["positions"]],
                             "rt": [{"pos": p["id"], "val": v, "ok": False, "back": [], "why": "generation"} for p in s["positions"] for v in p["admits"] if not (p["ok"] == "op" and v["t"] == "n")],
                             "generr": (g["err"] or "")[:200]})
        out.append({"id": s["doc"]["id"], "doc": s["doc"], "positions": s["positions"], "runs": runs})
    return out


# ------------------------------------------------------------------------------------------------ derived names (model input)
def snake(cls: str) -> str:
    return "_".join(w.lower() for w in re.findall(r"[A-Z]+(?=[A-Z][a-z])|[A-Z]?[a-z]+|[A-Z]+|[0-9]+", cls))


def mem_string(s: str) -> str:
    """Member name the string branch of the enum generator derives (plain string operations; model input, DRIFT if wrong)."""
    import keyword

    base = s.upper().replace("-", "_").replace(" ", "_")
    name = "".join(c for c in base if c in "ABCDEFGHIJKLMNOPQRSTUVWXYZ0123456789_")
    if not name:
        alnum = "".join(c for c in s if c.isascii() and c.isalnum())
        name = "MEMBER_EMPTY_STRING" if not alnum else "MEMBER_" + alnum.upper()
    elif name[0].isdigit():
        name = "MEMBER_" + name
    if keyword.iskeyword(name.lower()):
        name += "_"
    return name


def mem_int(v: Any) -> str:
    import keyword

    if not isinstance(v, (str, int)):
        return "E"
    base = str(v).upper().replace("-", "_").replace(" ", "_").replace(".", "_DOT_")
    name = "".join(c for c in base if c in "ABCDEFGHIJKLMNOPQRSTUVWXYZ0123456789_")
    if not name:
        iv = int_of(v)
        name = f"VALUE_NEG_{abs(iv)}" if iv < 0 else f"VALUE_{iv}"
    elif not (name[0].isalpha() or name[0] == "_"):
        name = "VALUE_" + name
    if keyword.iskeyword(name.lower()):
        name += "_"
    return name


def int_of(v: Any) -> int:
    try:
        return int(v)
    except (ValueError, TypeError):
        return 0


def lit_of(s: str) -> dict[str, str]:
    """What Python evaluates the emitted literal "<s>" to (Python's own literal evaluation is the oracle)."""
    import ast

    try:
        v = ast.literal_eval('"' + s + '"')
    except (SyntaxError, ValueError):
        return {"t": "E", "v": ""}
    return {"t": "s", "v": abstract_text(v)} if isinstance(v, str) else {"t": "E", "v": ""}


def vkey(v: dict[str, str]) -> str:
    return f"{v['t']}:{v['v']}"


def names_for(doc: dict[str, Any]) -> dict[str, Any]:
    from .schemanode import san_class

    n: dict[str, dict[str, Any]] = {k: {} for k in ("key", "ctx", "param", "unified", "cid", "mem", "imem", "ival", "lit", "fact")}
    decls = []
    for o in doc["owners"]:
        if o["k"] != "op":
            n["key"][o["name"]] = san_class(o["name"])
        if o["k"] == "enum":
            decls.append(o["decl"])
        if o["k"] == "union":
            prop = o["disc"]
            n["unified"][o["name"]] = san_class((o["name"][:-4] if o["name"].endswith("Enum") else o["name"]) + prop[:1].upper() + prop[1:] + "Enum")
            decls.append({"base": "string", "vals": [{"t": "s", "v": m} for m in o["mapping"]], "nul": False})
        for p in o["props"]:
            pid = f"{o['name']}.{p['key']}/{p['where']}"
            if p["src"] == "inline":
                decls.append(p["decl"])
                so, sp = san_class(o["name"]), san_class(p["key"])
                if o["k"] == "object":
                    n["ctx"][pid] = sp if sp.lower().startswith(so.lower()) else so + sp
                else:
                    n["param"][pid] = f"{so}Param{sp}Item"
    for group in ("key", "ctx", "param", "unified"):
        for k in n[group].values():
            n["cid"][k] = f"{snake(k)}.{k}"
    names = set()
    for d in decls:
        for v in d["vals"]:
            pv = untag(v)
            sv = {"t": "s", "v": abstract_text("None" if pv is None else str(pv))}
            n["mem"][vkey(sv)] = mem_string(concrete_text(sv["v"]))
            n["lit"][vkey(sv)] = lit_of(concrete_text(sv["v"]))
            names.add(n["mem"][vkey(sv)])
            ok = isinstance(pv, (str, int)) and not isinstance(pv, bool)
            n["imem"][vkey(v)] = mem_int(pv) if ok else "E"
            n["ival"][vkey(v)] = {"t": "i", "v": str(int_of(pv))} if ok else {"t": "E", "v": ""}
            names.add(n["imem"][vkey(v)])
    for nm in sorted(names):
        for k in range(0, 5):
            full = nm if k == 0 else f"{nm}_{k}"
            n["fact"][full] = member_fact("", full)
    return n


# ------------------------------------------------------------------------------------------------ judging
def to_trace(rec: dict[str, Any]) -> dict[str, Any]:
    runs = []
    for r in rec["runs"]:
        total = "generation" if r["gen"] != "ok" else "import" if r["import_err"] != "none" else "ok"
        runs.append({"total": total,
                     "classes": [{"cls": c["cls"], "base": c["base"], "built": bool(c["built"]), "src": c["src"], "members": c["members"]} for c in r["classes"]],
                     "ann": [{"pos": a["pos"], "kind": a["kind"], "cls": a["cls"], "vals": a["vals"]} for a in r["ann"]],
                     "rt": [{"pos": x["pos"], "val": x["val"], "ok": bool(x["ok"]), "back": x["back"]} for x in r["rt"]]})
    return {"id": rec["id"], "doc": rec["doc"], "runs": runs, "names": names_for(rec["doc"])}


def valkind(v: dict[str, str]) -> str:
    t, s = v["t"], v["v"]
    if t == "n":
        return "null"
    if t == "i":
        return "zero" if s == "0" else "negative" if s.startswith("-") else "int"
    if t != "s":
        return {"f": "float", "b": "bool"}.get(t, "other")
    for tok, k in (("<dq>", "quote"), ("<bs>", "backslash"), ("<nl>", "newline"), ("<bsp>", "control"), ("<euro>", "nonascii"), ("<pound>", "nonascii")):
        if tok in s:
            return k
    if s == "":
        return "empty"
    if s == "None":
        return "None_text"
    if len(s) > 4 and s.startswith("__") and s.endswith("__"):
        return "dunder"
    if s.startswith("__"):
        return "private"
    if len(s) > 2 and s.startswith("_") and s.endswith("_"):
        return "sunder"
    return "text"


def value_diff(cl: dict[str, Any], positions: list[dict[str, Any]], run0: dict[str, Any]) -> tuple[list[str], list[str]]:
    """Kinds of the declared values a class lacks (w.r.t. the positions annotated with it) and of the values nobody declared."""
    pos = {p["id"]: p for p in positions}
    have = {vkey(x["val"]) for x in cl["members"]}
    users = [pos[a["pos"]] for a in run0["ann"] if a["cls"] == cl["cls"] and a["pos"] in pos]
    admitted = {vkey(x): x for p in users for x in p["admits"] if x["t"] != "n"}
    every = {vkey(x) for p in positions for x in p["admits"]}
    return sorted({valkind(admitted[k]) for k in admitted if k not in have}), sorted({valkind(x["val"]) for x in cl["members"] if vkey(x["val"]) not in every})


def pos_kind(p: dict[str, Any]) -> str:
    return f"{'param' if p['ok'] == 'op' else 'prop'}/{p['where']}/{p['src']}"


def relation(p: dict[str, Any], q: dict[str, Any]) -> str:
    if p["src"] == "ref" and q["src"] == "ref":
        return "two_declared" if p["to"] != q["to"] else "same_declared"
    if p["src"] == "ref" or q["src"] == "ref":
        return "inline_and_declared"
    if p["owner"] == q["owner"]:
        return "same_schema"
    if p["ok"] != q["ok"]:
        return "schema_and_operation"
    return "two_schemas"


def decl_name(p: dict[str, Any]) -> str:
    """What a position's enum IS in the document: the declared schema it refers to, or the property / parameter that carries it."""
    return p["to"] if p["src"] == "ref" else f"{p['owner']}.{p['key']}"


def got_of(a: dict[str, Any] | None) -> str:
    if a is None:
        return "none"
    if a["kind"] == "closed":
        return "enum_class" if a["cls"] else "literal"
    return f"{a['kind']}:{a['cls']}"


def judge(chk: core.Check, recs: list[dict[str, Any]]) -> None:
    tf = chk.scratch.sub("traces") / "traces.ndjson"
    with open(tf, "w") as f:
        for r in recs:
            f.write(json.dumps(to_trace(r)) + "\n")
    m = core.run_tlc(chk.scratch, "Trace_EnumPipe", "SPECIFICATION Spec\nCHECK_DEADLOCK FALSE\n", workers=8, env={"TRACE_FILE": str(tf)}, timeout=900)
    # (-coverage exhausts the heap on the modules that evaluate the as-is operators; a vacuous run is refused by the count of verdicts
    # below and by the per-clause counts the monitor reports in `checked`)
    chk.add_tlc("Trace_EnumPipe", m)
    verdicts = {v["id"]: v for v in m.printed.get("VERDICT", [])}
    chk.require(len(verdicts) == len(recs), f"monitor judged {len(verdicts)} of {len(recs)} documents")
    chk.cov["traces_validated_against_impl"] += sum(len(r["runs"]) for r in recs)
    drift: dict[str, list[str]] = {}
    for r in recs:
        v = verdicts[r["id"]]
        run0 = r["runs"][0]
        pos = {p["id"]: p for p in r["positions"]}
        ann = {a["pos"]: a for a in run0["ann"]}
        chk.nontrivial(r["id"])
        for c in ("Total",) + CLAUSES:
            n = int(v["checked"][c])
            if n:
                chk.clause("X06." + c, n)
                chk.count(n)
        right_bad = {f["at"] for f in v["fails"] if f["clause"] == "RightEnum"}
        for f in v["fails"]:
            c, at, why = f["clause"], f["at"], f["why"]
            scenario = {"doc": r["doc"], "positions": r["positions"], "id": r["id"], "at": at}
            detail: dict[str, Any] = {"why": why, "at": at}
            if c == "Total":
                bad = [x for x in run0["classes"] if not x["built"]]
                facts = sorted({s["fact"] for x in bad for s in x["src"] if s["fact"] != "ok"})
                msg = run0.get("import_msg", "") or run0.get("generr", "")
                exc = run0["gen"] if why == "generation" else run0["import_err"]
                cause = ("integer_enum_value_not_str_or_int" if "integer enum naming must be str or int" in msg else "generator_raised") if why == "generation" else \
                    "duplicate_values" if "duplicate values found" in msg else "member_name:" + ",".join(facts) if facts and exc == "ValueError" else \
                    "literal" if exc == "SyntaxError" else "missing_module" if exc == "ModuleNotFoundError" else "other"
                locus = {"stage": why, "exc": exc, "cause": cause}
                detail["msg"] = msg
            elif c == "Members":
                cl = next(x for x in run0["classes"] if x["cls"] == at)
                locus = {"why": why, "base": cl["base"]}
                detail["src"] = cl["src"]
            elif c == "Values":
                cl = next(x for x in run0["classes"] if x["cls"] == at)
                lost, added = value_diff(cl, r["positions"], run0)
                locus = {"why": why, "base": cl["base"], "lost": ",".join(lost), "added": ",".join(added)}
                detail["members"] = cl["members"]
            elif c == "RightEnum":
                p, a = pos[at], ann.get(at)
                others = [pos[b["pos"]] for b in run0["ann"] if a and a["cls"] and b["cls"] == a["cls"] and b["pos"] != at and b["pos"] in pos
                          and {vkey(x) for x in pos[b["pos"]]["admits"]} - {"n:"} != {vkey(x) for x in p["admits"]} - {"n:"}]
                mates = sorted({relation(p, q) for q in others})
                who = "|".join(sorted({decl_name(p)} | {decl_name(q) for q in others})) if others and not p["disc"] else ""
                if why in ("foreign", "lost", "added", "mixed"):
                    if p["disc"]:
                        nun = sum(1 for o in r["doc"]["owners"] if o["k"] == "union" and p["owner"] in o["variants"] and o["disc"] == p["key"])
                        cause = f"discriminator:variant_of_{nun}_union" + ("s" if nun != 1 else "")
                    elif mates:
                        cause = "shares_class:" + ",".join(mates)
                    elif why == "foreign":
                        cause = "values_of_another_declaration"
                    else:
                        have = {vkey(x) for x in a["vals"]}
                        lost = sorted({valkind(x) for x in p["admits"] if x["t"] != "n" and vkey(x) not in have})
                        added = sorted({valkind(x) for x in a["vals"] if x not in p["admits"]})
                        cause = "values:lost=" + ",".join(lost) + ";added=" + ",".join(added)
                else:
                    cause = "not_an_enum"
                locus = {"pos": pos_kind(p), "why": why, "got": got_of(a), "cause": cause, "who": who}
                detail["ann"] = a
            elif c == "Shared":
                p, q = pos[at], pos[f["mate"]]
                locus = {"pair": relation(p, q), "bases": "same" if p["base"] == q["base"] else "different", "disc": bool(p["disc"] or q["disc"]),
                         "who": "|".join(sorted({decl_name(p), decl_name(q)}))}
                detail["mate"] = f["mate"]
            elif c == "Named":
                refs = [p for p in r["positions"] if p["src"] == "ref" and p["to"] == at and not p["disc"]]
                cls = {ann[p["id"]]["cls"] for p in refs if p["id"] in ann and ann[p["id"]]["cls"]}
                rivals = sorted({("discriminator" if pos[b["pos"]]["disc"] else "inline_position" if pos[b["pos"]]["src"] == "inline" else "declared_enum")
                                 for b in run0["ann"] if b["cls"] in cls and b["pos"] in pos and not (pos[b["pos"]]["src"] == "ref" and pos[b["pos"]]["to"] == at)})
                decl = next(o["decl"] for o in r["doc"]["owners"] if o["name"] == at)
                want = [x for x in decl["vals"] if x["t"] != "n" and x["t"] == {"string": "s", "integer": "i", "boolean": "b"}.get(decl["base"], x["t"])]
                got = [x for p in refs if p["id"] in ann for x in ann[p["id"]]["vals"]]
                if why != "other_values":
                    cause = "n/a"
                elif not any(x in want for x in got):
                    cause = "values_of_another_declaration"
                else:
                    cause = "values:lost=" + ",".join(sorted({valkind(x) for x in want if x not in got})) + ";added=" + ",".join(sorted({valkind(x) for x in got if x not in want}))
                locus = {"why": why, "rivals": ",".join(rivals), "cause": cause}
            elif c == "RoundTrip":
                p, a = pos[at], ann.get(at)
                val = {"t": f["mate"].split(":", 1)[0], "v": f["mate"].split(":", 1)[1]}
                x = next((x for x in run0["rt"] if x["pos"] == at and x["val"] == val), None)
                right = at not in right_bad
                # when the position is not annotated with its own enum, the round trip fails as a consequence: the value kind does not matter
                locus = {"pos": pos_kind(p), "why": why, "how": (x["why"].split("=")[0] if x else ""), "ann": got_of(a), "right_enum": right,
                         "value": valkind(val) if val["t"] == "n" or (right and not (x and x["why"].startswith("wire") and a and a["cls"])) else "any"}
                detail["rt"] = x
            elif c == "Stable":
                differing = [k for k in (1, 2) if k < len(r["runs"]) and _proj(r["runs"][k], at) != _proj(run0, at)]
                p = pos.get(at)
                rivals: set[str] = set()
                for run in r["runs"]:
                    mine = next((b for b in run["ann"] if b["pos"] == at), None)
                    if p and mine and mine["cls"]:
                        rivals |= {relation(p, pos[b["pos"]]) for b in run["ann"] if b["cls"] == mine["cls"] and b["pos"] != at and b["pos"] in pos
                                   and {vkey(x) for x in pos[b["pos"]]["admits"]} - {"n:"} != {vkey(x) for x in p["admits"]} - {"n:"}}
                locus = {"what": why, "pos": pos_kind(p) if p else "n/a", "perm": "+".join(("owners", "props")[k - 1] for k in differing), "with": ",".join(sorted(rivals)),
                         "who": decl_name(p) if p and not rivals else "",
                         "totals": "+".join(sorted({("generation" if x["gen"] != "ok" else "import" if x["import_err"] != "none" else "ok") for x in r["runs"]}))}
            else:
                raise core.MachineryError(f"unknown clause {c}")
            chk.fail("X06." + c, locus, scenario, json.dumps(detail)[:600])
        for k, d in enumerate(v["drift"]):
            for item in d:
                drift.setdefault(item.split("=")[0].split(":")[0], []).append(f"{r['id']}#perm{k} {item}")
        if len(chk.cov["samples"]) < 6 and r["doc"]["grp"] in ("collision", "disc") and len(chk.cov["samples"]) % 2 == (0 if v["fails"] else 1):
            chk.sample({"doc": r["id"], "classes": [[c["cls"], [vkey(x["val"]) for x in c["members"]]] for c in run0["classes"]],
                        "annotations": [[a["pos"], a["kind"], a["cls"]] for a in run0["ann"]], "failing": sorted({f["clause"] for f in v["fails"]})})
    for k, lst in sorted(drift.items()):
        chk.note_drift(f"as-is pipeline of EnumPipe.tla disagrees with the generator ({k}): {len(lst)} place(s), e.g. {lst[0]}")


def _proj(run: dict[str, Any], at: str) -> Any:
    if at == "classes":
        return sorted((c["cls"], c["built"], sorted(vkey(m["val"]) for m in c["members"])) for c in run["classes"])
    return [(a["kind"], a["cls"], sorted(vkey(x) for x in a["vals"])) for a in run["ann"] if a["pos"] == at]


def run(chk: core.Check) -> None:
    tier = chk.tier
    consts = f'CONSTANT Tier = "{tier}"\n'
    g = core.run_tlc(chk.scratch, "Gen_EnumPipe", "SPECIFICATION GSpec\n" + consts + "CHECK_DEADLOCK FALSE\n", workers=4, coverage=True, timeout=600)
    chk.add_tlc("Gen_EnumPipe", g)
    chk.require(g.coverage.get("Emit", (0, 0))[1] > 100, "vacuous Gen_EnumPipe run")
    scen = sorted(g.printed.get("SCEN", []), key=lambda s: s["doc"]["id"])
    chk.require(len(scen) > 100, "Gen_EnumPipe emitted too few documents")
    # (A) design level: the statements on Ideal and on the as-is pipeline, for every document, in every declaration order
    nf = chk.scratch.sub("names") / "names.ndjson"
    with open(nf, "w") as f:
        for s in scen:
            f.write(json.dumps({"id": s["doc"]["id"], "names": names_for(s["doc"])}) + "\n")
    mc = core.run_tlc(chk.scratch, "MC_EnumPipe", "SPECIFICATION Spec\n" + consts + "".join(f"INVARIANT {i}\n" for i in DESIGN_INVARIANTS) + "CHECK_DEADLOCK FALSE\n",
                      workers=8, env={"NAMES_FILE": str(nf)}, timeout=900)
    chk.add_tlc("MC_EnumPipe[design]", mc)
    # -coverage exhausts the heap on this module (cost model of the recursive as-is operators); vacuity is refused by counting instead:
    # every document is a state that prints its Gap and the clauses the as-is pipeline fails, both sides of every gap must occur
    gaps = mc.printed.get("GAP", [])
    chk.require(len(gaps) == len(scen) and mc.distinct == 2 * len(scen), "vacuous MC_EnumPipe run")
    by_gap: dict[str, int] = {}
    for x in gaps:
        for gname in x["gap"] or ["none"]:
            by_gap[gname] = by_gap.get(gname, 0) + 1
    chk.cov["design_gap_documents"] = dict(sorted(by_gap.items()))
    chk.cov["design_not_modelled"] = sorted(x["id"] for x in gaps if not x["modelled"])
    chk.cov["design_invariants"] = list(DESIGN_INVARIANTS)
    chk.require(by_gap.get("none", 0) >= 20 and len(by_gap) >= 8, f"the design run does not exercise both sides of Gap: {by_gap}")
    # (B)+(C) the real generator
    recs = observe(chk, scen)
    if os.environ.get("X06_DUMP"):  # debugging aid: the raw observations, one line per document
        with open(os.environ["X06_DUMP"], "w") as f:
            for r in recs:
                f.write(json.dumps(r) + "\n")
    judge(chk, recs)
    chk.cov["rule"] = f"every document of Family({tier}): value kinds x position kinds, name collisions x (same | different | differently typed) value sets, discriminated unions; each in 3 declaration orders"
    chk.cov["exhaustive"] = True


def replay(chk: core.Check, path: str) -> None:
    rp = json.load(open(path))
    doc = rp["scenario"]["doc"]
    scen = [{"doc": doc, "perms": perms_of(doc), "positions": rp["scenario"]["positions"]}]
    judge(chk, observe(chk, scen))


def perms_of(doc: dict[str, Any]) -> list[dict[str, Any]]:
    """Perms(doc) of specs/EnumPipe.tla (used by replay only; the check takes the permutations from TLC)."""
    rev_o = {**doc, "owners": list(reversed(doc["owners"]))}
    rev_p = {**doc, "owners": [{**o, "props": list(reversed(o["props"]))} for o in doc["owners"]]}
    return [doc, rev_o, rev_p]
