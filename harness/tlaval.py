"""Parser for values as printed by TLC (state dumps, dot labels, -simulate trace files).

Python mapping: strings -> str, ints -> int, TRUE/FALSE -> bool, <<...>> -> list, {...} -> frozenset
(elements made hashable via freeze), [a |-> v] -> dict, (k :> v @@ ...) -> dict, model values -> ModelValue(str).
"""

from __future__ import annotations

import re
from typing import Any


class ModelValue(str):
    pass


def freeze(v: Any) -> Any:
    if isinstance(v, list):
        return tuple(freeze(x) for x in v)
    if isinstance(v, dict):
        return tuple(sorted((freeze(k), freeze(x)) for k, x in v.items()))
    if isinstance(v, (set, frozenset)):
        return frozenset(freeze(x) for x in v)
    return v


class _P:
    def __init__(self, s: str):
        self.s, self.i = s, 0

    def ws(self) -> None:
        while self.i < len(self.s) and self.s[self.i] in " \t\r\n":
            self.i += 1

    def peek(self, t: str) -> bool:
        self.ws()
        return self.s.startswith(t, self.i)

    def eat(self, t: str) -> None:
        self.ws()
        if not self.s.startswith(t, self.i):
            raise ValueError(f"expected {t!r} at {self.i}: {self.s[self.i:self.i+40]!r}")
        self.i += len(t)

    def value(self) -> Any:
        self.ws()
        c = self.s[self.i]
        if c == '"':
            return self.string()
        if self.peek("<<"):
            self.eat("<<")
            out = []
            if self.peek(">>"):
                self.eat(">>")
                return out
            while True:
                out.append(self.value())
                if self.peek(","):
                    self.eat(",")
                    continue
                self.eat(">>")
                return out
        if c == "{":
            self.eat("{")
            out = []
            if self.peek("}"):
                self.eat("}")
                return frozenset()
            while True:
                out.append(freeze(self.value()))
                if self.peek(","):
                    self.eat(",")
                    continue
                self.eat("}")
                return frozenset(out)
        if c == "[":
            self.eat("[")
            d = {}
            while True:
                self.ws()
                m = re.compile(r"[A-Za-z_][A-Za-z0-9_]*").match(self.s, self.i)
                if not m:
                    raise ValueError(f"record field expected at {self.i}")
                k = m.group(0)
                self.i = m.end()
                self.eat("|->")
                d[k] = self.value()
                if self.peek(","):
                    self.eat(",")
                    continue
                self.eat("]")
                return d
        if c == "(":
            self.eat("(")
            d = {}
            while True:
                k = self.value()
                self.eat(":>")
                d[freeze(k)] = self.value()
                if self.peek("@@"):
                    self.eat("@@")
                    continue
                self.eat(")")
                return d
        m = re.compile(r"-?\d+").match(self.s, self.i)
        if m:
            self.i = m.end()
            return int(m.group(0))
        m = re.compile(r"[A-Za-z_][A-Za-z0-9_]*").match(self.s, self.i)
        if m:
            self.i = m.end()
            w = m.group(0)
            if w == "TRUE":
                return True
            if w == "FALSE":
                return False
            return ModelValue(w)
        raise ValueError(f"cannot parse value at {self.i}: {self.s[self.i:self.i+40]!r}")

    def string(self) -> str:
        assert self.s[self.i] == '"'
        self.i += 1
        out = []
        while True:
            c = self.s[self.i]
            if c == "\\":
                n = self.s[self.i + 1]
                out.append({"n": "\n", "t": "\t", "r": "\r", "f": "\f"}.get(n, n))
                self.i += 2
            elif c == '"':
                self.i += 1
                return "".join(out)
            else:
                out.append(c)
                self.i += 1


def parse_value(s: str) -> Any:
    p = _P(s)
    v = p.value()
    p.ws()
    if p.i != len(p.s):
        raise ValueError(f"trailing text at {p.i}: {p.s[p.i:p.i+40]!r}")
    return v


def parse_state(label: str) -> dict[str, Any]:
    """Parse a TLC state (`/\\ x = v` conjunct list) into {var: value}."""
    out: dict[str, Any] = {}
    p = _P(label)
    while True:
        p.ws()
        if p.i >= len(p.s):
            return out
        p.eat("/\\")
        p.ws()
        m = re.compile(r"[A-Za-z_][A-Za-z0-9_]*").match(p.s, p.i)
        if not m:
            raise ValueError("variable name expected")
        p.i = m.end()
        p.eat("=")
        out[m.group(0)] = p.value()


_NODE = re.compile(r'^(-?\d+) \[label="((?:[^"\\]|\\.)*)"(.*)$')
_EDGE = re.compile(r'^(-?\d+) -> (-?\d+) \[label="((?:[^"\\]|\\.)*)"')


def _unescape_dot(s: str) -> str:
    out = []
    i = 0
    while i < len(s):
        c = s[i]
        if c == "\\" and i + 1 < len(s):
            n = s[i + 1]
            if n == "n":
                out.append("\n")
            else:
                out.append(n)
            i += 2
        else:
            out.append(c)
            i += 1
    return "".join(out)


def parse_dot(text: str):
    """-> (nodes: id -> state dict, edges: [(src, dst, action label)], init ids)."""
    nodes: dict[str, dict[str, Any]] = {}
    edges: list[tuple[str, str, str]] = []
    init: set[str] = set()
    for line in text.splitlines():
        line = line.strip()
        m = _EDGE.match(line)
        if m:
            edges.append((m.group(1), m.group(2), _unescape_dot(m.group(3))))
            continue
        m = _NODE.match(line)
        if m:
            # dot escaping wraps TLC's own escaping of strings: unescape once
            nodes[m.group(1)] = parse_state(_unescape_dot(m.group(2)))
            if "style = filled" in m.group(3):
                init.add(m.group(1))
    return nodes, edges, init


def parse_action(label: str) -> tuple[str, list[Any]]:
    """`Enter("A",TRUE)` -> ("Enter", ["A", True])"""
    m = re.match(r"^(\w+)(?:\((.*)\))?$", label.strip(), re.S)
    if not m:
        raise ValueError(f"bad action label {label!r}")
    if m.group(2) is None or not m.group(2).strip():
        return m.group(1), []
    return m.group(1), parse_value("<<" + m.group(2) + ">>")
