"""Worker for X05: loads concretised documents with the REAL `load_ir_from_spec` and projects the IR of the operations onto
the vocabulary of specs/OpLoad.tla.

Job: {"id", "comps": the component tables printed by Gen_OpLoad, "variants": [{"kind", "arg", "doc"}], "tokens": [...]}
Result: {"id", "valid_real": "valid" | "invalid:<ExceptionType>", "runs": [{"kind", "arg", "obs"}]} with
  obs = {"exc": exception type of load_ir_from_spec ("" = it returned), "excmsg", "mentions": which of `tokens` (the document's
         operationIds and response keys) the exception message contains,
         "skips": [{"m", "path", "msg"}] one per `Skipping operation parsing for <M> <path>: <msg>` Python warning,
         "warns": the other warnings (not judged), "ops": the projected IROperations in the order of IRSpec.operations}
`valid_real` is the verdict of openapi-spec-validator on the main document (compared with OpLoad!Strict by the harness).
JSON null is never emitted (TLC's Json module cannot read it)."""

from __future__ import annotations

import json
import logging
import re
import sys
import warnings
from typing import Any

from harness import core

core.install_tree_under_test()
logging.disable(logging.CRITICAL)

from pyopenapi_gen.core.loader.loader import load_ir_from_spec  # noqa: E402

from harness.x05 import concretise  # noqa: E402

try:
    from openapi_spec_validator import validate as _validate
except Exception:  # pragma: no cover
    _validate = None

SKIP = re.compile(r"^Skipping operation parsing for (\S+) (\S+): (.*)$", re.S)


def p_schema(s: Any) -> dict[str, str]:
    if s is None:
        return {"ty": "", "name": "", "props": "", "enum": "", "ity": "", "ienum": ""}
    items = getattr(s, "items", None)
    return {
        "ty": str(s.type) if s.type is not None else "",
        "name": str(s.name) if s.name is not None else "",
        "props": ",".join(sorted(str(k) for k in (s.properties or {}))),
        "enum": ",".join(str(v) for v in (s.enum or [])),
        "ity": str(items.type) if items is not None and items.type is not None else "",
        "ienum": ",".join(str(v) for v in (items.enum or [])) if items is not None else "",
    }


def p_content(content: Any) -> list[dict[str, Any]]:
    return [{"ct": str(k), "sch": p_schema(v)} for k, v in (content or {}).items()]


def p_op(op: Any) -> dict[str, Any]:
    rb = op.request_body
    return {
        "path": str(op.path),
        "m": str(getattr(op.method, "value", op.method)).lower(),
        "opid": str(op.operation_id) if op.operation_id is not None else "",
        "tags": [str(t) for t in (op.tags or [])],
        "params": [{"name": str(p.name), "loc": str(p.param_in), "req": bool(p.required), "sch": p_schema(p.schema)} for p in op.parameters],
        "hasbody": rb is not None,
        "breq": bool(rb.required) if rb is not None else False,
        "bcts": p_content(rb.content) if rb is not None else [],
        "resps": [{"code": str(r.status_code), "codetype": type(r.status_code).__name__, "cts": p_content(r.content)} for r in op.responses],
    }


def observe(spec: dict[str, Any], tokens: list[str]) -> dict[str, Any]:
    obs: dict[str, Any] = {"exc": "", "excmsg": "", "mentions": [], "skips": [], "warns": [], "ops": []}
    with warnings.catch_warnings(record=True) as ws:
        warnings.simplefilter("always")
        try:
            ir = load_ir_from_spec(spec)
            obs["ops"] = [p_op(o) for o in ir.operations]
        except Exception as e:  # noqa: BLE001 - the exception is the observation
            obs["exc"] = type(e).__name__
            obs["excmsg"] = str(e)[:300]
            obs["mentions"] = [t for t in tokens if t and t in str(e)]
    for w in ws:
        msg = str(w.message)
        m = SKIP.match(msg)
        if m:
            obs["skips"].append({"m": m.group(1).lower(), "path": m.group(2), "msg": m.group(3)[:200]})
        else:
            obs["warns"].append(msg[:160])
    return obs


def validity(spec: dict[str, Any]) -> str:
    if _validate is None:
        return "unavailable"
    try:
        _validate(spec)
        return "valid"
    except Exception as e:  # noqa: BLE001
        return "invalid:" + type(e).__name__


def main() -> None:
    jobs = json.load(sys.stdin)
    for job in jobs:
        runs = []
        valid = "unavailable"
        for v in job["variants"]:
            if v["kind"] == "main":
                valid = validity(concretise(v["doc"], job["comps"]))
            runs.append({"kind": v["kind"], "arg": v["arg"], "obs": observe(concretise(v["doc"], job["comps"]), job["tokens"])})
        sys.stdout.write(json.dumps({"id": job["id"], "valid_real": valid, "runs": runs}) + "\n")
    sys.stdout.flush()


if __name__ == "__main__":
    main()
