"""Worker: run the real generator (generate_client) on a batch of documents.

stdin: JSON list of jobs
  {"id", "root": project root dir, "spec": dict | null, "spec_text": str | null, "ext": "json"|"yaml",
   "pkg": "a.b.client", "core": null|"a.core", "force": bool, "nopp": bool, "strategy": "operationId|clean|path"}
stdout: one JSON line per job: {"id", "ok", "err", "errtype", "files": [relpaths], "warnings": [...]}
"""

from __future__ import annotations

import io
import json
import logging
import os
import sys
import warnings
from contextlib import redirect_stderr, redirect_stdout
from pathlib import Path

from harness import core

core.install_tree_under_test()

logging.disable(logging.CRITICAL)


def run_job(job: dict) -> dict:
    from pyopenapi_gen import generate_client
    from pyopenapi_gen.ir import NamingStrategy

    root = Path(job["root"])
    root.mkdir(parents=True, exist_ok=True)
    ext = job.get("ext", "json")
    spec_path = root / f"_spec_{job['id']}.{ext}"
    if job.get("spec_text") is not None:
        spec_path.write_text(job["spec_text"])
    else:
        spec_path.write_text(json.dumps(job["spec"]))
    strat = {"operationId": NamingStrategy.OPERATION_ID, "clean": NamingStrategy.CLEAN, "path": NamingStrategy.PATH}[
        job.get("strategy", "operationId")
    ]
    out: dict = {"id": job["id"], "ok": False, "err": None, "errtype": None, "files": [], "warnings": []}
    buf = io.StringIO()
    cwd = os.getcwd()
    if job.get("cwd"):
        os.chdir(job["cwd"])
    try:
        with warnings.catch_warnings(record=True) as w, redirect_stdout(buf), redirect_stderr(buf):
            warnings.simplefilter("always")
            files = generate_client(
                spec_path=str(spec_path),
                project_root=str(root),
                output_package=job["pkg"],
                core_package=job.get("core"),
                force=bool(job.get("force", True)),
                no_postprocess=bool(job.get("nopp", True)),
                naming_strategy=strat,
            )
        out["ok"] = True
        out["files"] = sorted(str(Path(f).resolve().relative_to(root.resolve())) for f in files if str(Path(f).resolve()).startswith(str(root.resolve())))
        out["warnings"] = [str(x.message)[:300] for x in w][:50]
    except BaseException as e:  # noqa: BLE001
        if isinstance(e, KeyboardInterrupt):
            raise
        out["errtype"] = type(e).__name__
        out["err"] = str(e)[:600]
    finally:
        os.chdir(cwd)
    if not job.get("keep_spec"):
        try:
            spec_path.unlink()
        except OSError:
            pass
    return out


def main() -> None:
    sys.setrecursionlimit(20000)
    jobs = json.load(sys.stdin)
    sys.setrecursionlimit(1000)
    for job in jobs:
        print(json.dumps(run_job(job)), flush=True)


if __name__ == "__main__":
    main()
