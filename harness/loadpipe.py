"""Shared pipeline of C01 / C12: feature documents -> real generation -> observation in a generator-less
interpreter -> PyImport (TLC) entry-point exploration -> confirmation -> Trace_Load (TLC) verdicts."""

from __future__ import annotations

import ast
import hashlib
import json
import re
import subprocess
import sys
from pathlib import Path
from typing import Any

from . import core, features
from .core import Check, run_tlc, tla

# layouts whose package / core names are PREFIX-RELATED (core named after the client's last segment; a last segment that is
# a prefix of a stdlib module name): path arithmetic on dotted names must respect segment boundaries
PREFIX_LAYOUTS = [
    {"depth": 2, "core": "named_after_tail"},   # pkg p<j>.biz      core biz_core<j>
    {"depth": 2, "core": "embedded_data_tail"},  # pkg p<j>.data     (tail is a prefix of `dataclasses`)
    {"depth": 3, "core": "sibling_prefix"},      # pkg p<j>.api.svc  core p<j>.api.svc_core
    {"depth": 2, "core": "repeated_component"},  # pkg p<j>.p<j>     (first two components equal; found by X03)
    {"depth": 2, "core": "core_is_client_tail"},  # pkg p<j>.kern<j>  core kern<j> (the client's dotted name ends with the core's; found by C11 round 2)
]

LAYOUTS = [
    {"depth": 1, "core": "embedded"},
    {"depth": 2, "core": "embedded"},
    {"depth": 3, "core": "embedded"},
    {"depth": 2, "core": "sibling"},
    {"depth": 3, "core": "sibling"},
    {"depth": 1, "core": "toplevel"},
]
STRATEGIES = ["operationId", "clean", "path"]

RUNTIME_FILES = None  # read from the tree under test


def pkg_names(j: int, layout: dict) -> tuple[str, str | None]:
    top = f"p{j}"
    d = layout["depth"]
    pkg = {1: top, 2: f"{top}.client", 3: f"{top}.api.client"}[d]
    c = layout["core"]
    if c == "named_after_tail":
        return f"{top}.biz", f"biz_core{j}"
    if c == "embedded_data_tail":
        return f"{top}.data", None
    if c == "sibling_prefix":
        return f"{top}.api.svc", f"{top}.api.svc_core"
    if c == "repeated_component":
        return f"{top}.{top}", None
    if c == "core_is_client_tail":
        return f"{top}.kern{j}", f"kern{j}"
    if c == "embedded":
        return pkg, None
    if c == "toplevel" or d == 1:
        return pkg, f"core{j}"
    parent = pkg.rsplit(".", 1)[0]
    return pkg, f"{parent}.core"


def gen_feature_scenarios(chk: Check, feats: list[str], max_size: int, rotate: bool = True, layouts=None, strategies=None) -> list[dict]:
    layouts = layouts or LAYOUTS
    strategies = strategies or STRATEGIES
    cfg = f"""SPECIFICATION Spec
CONSTANTS
 Features <- MCFeatures
 MaxSize = {max_size}
 Layouts <- MCLayouts
 Strategies <- MCStrategies
 Rotate = {tla(rotate)}
CHECK_DEADLOCK FALSE
"""
    mod = f"""---- MODULE MC_Gen_Features ----
EXTENDS Gen_Features
MCFeatures == {tla(feats)}
MCLayouts == {tla(layouts)}
MCStrategies == {tla(strategies)}
====
"""
    r = run_tlc(chk.scratch, "MC_Gen_Features", cfg, files={"MC_Gen_Features.tla": mod}, workers=4)
    chk.add_tlc("Gen_Features", r)
    sc = r.printed.get("SCEN", [])
    chk.require(len(sc) > 0, "Gen_Features produced nothing")
    sc.sort(key=lambda s: json.dumps(s, sort_keys=True))
    return sc


def msgclass(exctype: str, msg: str) -> str:
    if "partially initialized module" in msg:
        return "partial_init"
    m = re.search(r"cannot import name '(\w+)'", msg)
    if m:
        nm = m.group(1)
        m2 = re.fullmatch(r"Error(\d)\d\d", nm)
        if m2:
            return f"missing_status_alias_{m2.group(1)}xx"
        return "cannot_import_name"
    if "duplicate argument" in msg:
        a = re.search(r"duplicate argument '(\w+)'", msg)
        arg = a.group(1) if a else ""
        return "duplicate_argument_self" if arg == "self" else "duplicate_argument"
    if "unsupported operand type(s) for |: 'str' and 'NoneType'" in msg:
        return "quoted_forward_ref_or_none"
    if "unsupported operand type(s) for |: 'NoneType' and 'NoneType'" in msg:
        return "class_body_shadowing_none"
    if "unsupported operand type(s) for |" in msg:
        return "bad_union_operands"
    if exctype == "NameError":
        return "name_error"
    if exctype == "ModuleNotFoundError":
        return "module_not_found"
    if exctype == "SyntaxError":
        return "syntax:" + re.sub(r"'[^']*'", "'*'", msg)[:50]
    return exctype + ":" + re.sub(r"'[^']*'", "'*'", re.sub(r"\d+", "N", msg))[:60]


def modkind(pkg: str, core: str | None, m: str) -> str:
    if core and (m == core or m.startswith(core + ".")):
        return "core"
    if m == pkg:
        return "package"
    rest = m[len(pkg) + 1 :] if m.startswith(pkg + ".") else m
    head = rest.split(".")[0]
    if head in ("models", "endpoints", "mocks", "client", "core"):
        return head
    return "ancestor" if pkg.startswith(m + ".") else "other"


def origin_kind(root: str, pkg: str, core: str | None, file: str) -> str:
    try:
        rel = Path(file).resolve().relative_to(Path(root).resolve())
    except Exception:  # noqa: BLE001
        return "outside"
    mod = ".".join(rel.with_suffix("").parts)
    return modkind(pkg, core, mod)


def runtime_reference() -> dict[str, bytes]:
    """The runtime modules as shipped with the generator under test (core_emitter.RUNTIME_FILES)."""
    src = core.REPO / "src" / "pyopenapi_gen"
    txt = (src / "emitters" / "core_emitter.py").read_text()
    m = re.search(r"RUNTIME_FILES\s*=\s*\[(.*?)\]", txt, re.S)
    files = re.findall(r"[\"']([^\"']+\.py)[\"']", m.group(1)) if m else []
    out = {}
    for f in files:
        p = src / f
        if p.exists():
            out[f] = p.read_bytes()
    return out


def generate_and_observe(chk: Check, scen: list[dict], *, nopp: bool = True, want=("compile", "import", "exports", "facts"), label: str = "feat") -> list[dict]:
    root = chk.scratch.sub("gen_" + label)
    jobs = []
    for j, sc in enumerate(scen):
        pkg, corep = pkg_names(j, sc["layout"])
        spec = sc.get("spec") or features.build(list(sc["features"]))
        jobs.append({"id": f"{label}{j}", "root": str(root), "spec": spec, "pkg": pkg, "core": corep, "force": True, "nopp": nopp, "strategy": sc.get("strategy", "operationId")})
    gres = core.parallel_py(chk.scratch, "harness.w_gen", jobs)
    ojobs = [{"id": j["id"], "root": j["root"], "pkg": j["pkg"], "core": j["core"], "want": list(want)} for j, g in zip(jobs, gres) if g["ok"]]
    ores = {r["id"]: r for r in core.parallel_py(chk.scratch, "harness.w_obs", ojobs)} if ojobs else {}
    out = []
    for sc, j, g in zip(scen, jobs, gres):
        o = ores.get(j["id"])
        if o:
            for w in want:
                if isinstance(o.get(w), dict) and "observer_error" in o[w]:
                    raise core.MachineryError(f"observer {w} crashed on {j['id']}: {o[w]['observer_error']} {o[w].get('tb', '')[-400:]}")
        out.append({"sc": sc, "job": j, "gen": g, "obs": o})
    return out


PYIMPORT_CHUNK = 400


def predict_entries(chk: Check, recs: list[dict], label: str, only: set[str] | None = None) -> dict[str, list[dict]]:
    """Run PyImport over the facts of every observed package; returns id -> verdicts (one per entry module)."""
    d = chk.scratch.sub("pyimport")
    lines: list[str] = []
    for r in recs:
        o = r["obs"]
        if not o or "facts" not in o or "mods" not in o["facts"]:
            continue
        if only is not None and r["job"]["id"] not in only:
            continue
        pkg, corep = r["job"]["pkg"], r["job"]["core"]
        mods = o["facts"]["mods"]
        # entries: every module of the client package; core modules only when the core is shared
        entries = [m for m in mods if modkind(pkg, corep, m) != "core" or (corep and m.count(".") <= corep.count(".") + 1)]
        lines.append(json.dumps({"id": r["job"]["id"], "mods": mods, "entries": entries}))
    if not lines:
        return {}
    out: dict[str, list[dict]] = {}
    # one TLC run per PYIMPORT_CHUNK packages: the whole thorough family in one run came close to the time limit on a loaded machine
    for k in range(0, len(lines), PYIMPORT_CHUNK):
        tf = d / f"facts_{k}.ndjson"
        tf.write_text("\n".join(lines[k : k + PYIMPORT_CHUNK]) + "\n")
        r = run_tlc(chk.scratch, "PyImport", "SPECIFICATION Spec\nINVARIANT TypeOK\nCHECK_DEADLOCK FALSE\n", workers=core.NCPU, env={"TRACE_FILE": str(tf)}, coverage=False, timeout=1800)
        chk.add_tlc(f"PyImport[{label}/{k // PYIMPORT_CHUNK}]", r)
        for v in r.printed.get("VERDICT", []):
            out.setdefault(v["id"], []).append(v)
        tf.unlink()
    chk.cov["entry_points_explored"] = chk.cov.get("entry_points_explored", 0) + sum(len(v) for v in out.values())
    return out


CONFIRM_SCRIPT = r"""
import sys, json, importlib
sys.path.insert(0, sys.argv[1])
from harness import w_obs
w_obs.install_blocker()
try:
    importlib.import_module(sys.argv[2])
    print(json.dumps({"ok": True}))
except BaseException as e:
    print(json.dumps({"ok": False, "type": type(e).__name__, "msg": str(e)[:200]}))
"""


def confirm_entry(chk: Check, root: str, entry: str) -> dict:
    p = core.run_py(chk.scratch, ["-c", CONFIRM_SCRIPT, root, entry], timeout=120)
    try:
        return json.loads(p.stdout.strip().splitlines()[-1])
    except Exception:  # noqa: BLE001
        raise core.MachineryError(f"confirmation run failed: {p.stderr[-500:]}")


def build_events(chk: Check, recs: list[dict], predicted: dict[str, list[dict]], *, runtime: bool, nopp: bool, max_confirm: int = 2) -> list[dict]:
    ref = runtime_reference() if runtime else {}
    traces = []
    for r in recs:
        o = r["obs"]
        if not o:
            continue
        j = r["job"]
        root, pkg, corep = j["root"], j["pkg"], j["core"]
        ev: list[dict] = []
        for e in o.get("compile", {}).get("errors", []):
            ev.append({"k": "syntax", "file": e["file"], "msgclass": msgclass("SyntaxError", e["msg"]), "origin": origin_kind(root, pkg, corep, str(Path(root) / e["file"]))})
        failed = set()
        for m in o.get("import", []):
            if m["ok"]:
                ev.append({"k": "import", "m": m["m"], "ok": True, "exctype": "", "msgclass": "", "origin": "", "modkind": modkind(pkg, corep, m["m"])})
            else:
                failed.add(m["m"])
                x = m["exc"]
                ev.append({"k": "import", "m": m["m"], "ok": False, "exctype": x["type"], "msgclass": msgclass(x["type"], x["msg"]), "origin": origin_kind(root, pkg, corep, x.get("file", "")), "modkind": modkind(pkg, corep, m["m"])})
        ex = o.get("exports", {})
        for u in ex.get("unresolved", []):
            ev.append({"k": "export", "m": u["m"], "name": u["name"], "modkind": modkind(pkg, corep, u["m"])})
        for _ in range(ex.get("checked", 0) - len(ex.get("unresolved", []))):
            pass
        if ex.get("checked"):
            ev.append({"k": "exportok", "n": ex["checked"]})
        # entry-point exploration
        nconf = 0
        any_batch_failure = bool(failed)
        for v in predicted.get(j["id"], []):
            pred = v["err"]["type"]
            conf, realtype, realclass = "untested", "", ""
            if pred != "none" and v["entry"] not in failed and nconf < max_confirm:
                nconf += 1
                c = confirm_entry(chk, root, v["entry"])
                conf = "no" if c["ok"] else "yes"
                realtype = c.get("type", "")
                realclass = msgclass(realtype, c.get("msg", "")) if not c["ok"] else ""
                if c["ok"]:
                    chk.note_drift(f"PyImport predicts {pred} for entry {v['entry']} ({v['err']}) but the real import succeeds")
            elif pred == "none" and v["entry"] in failed and not any(x["k"] == "import" and not x["ok"] and x["exctype"] in ("TypeError", "SyntaxError", "AttributeError", "ValueError") for x in ev):
                chk.cov["model_misses"] = chk.cov.get("model_misses", 0) + 1
            ev.append({"k": "entry", "entry": v["entry"], "predicted": pred, "confirmed": conf, "realtype": realtype, "realclass": realclass, "batch_failed": v["entry"] in failed or (any_batch_failure and conf != "yes"), "entrykind": modkind(pkg, corep, v["entry"])})
        # every import statement (C12)
        mods = set(o.get("facts", {}).get("mods", {}))
        for s in o.get("facts", {}).get("imports", []):
            top = (s["abs"] or s["target"]).split(".")[0] if s["level"] == 0 else s["abs"].split(".")[0]
            resolves = True
            own_tops = {pkg.split(".")[0], (corep or pkg).split(".")[0]}
            if s["level"] > 0 or top in own_tops:
                # an import into the package's / core's own namespace must name a module that was emitted
                resolves = s["abs"] in mods
            ev.append({"k": "importstmt", "m": s["m"], "top": top, "level": s["level"], "depth": s["depth"], "guarded": bool(s.get("guarded")), "resolves": resolves, "modkind": modkind(pkg, corep, s["m"])})
        for g in o.get("generator_imports", []):
            ev.append({"k": "genimport", "name": g})
        if runtime:
            cdir = Path(root).joinpath(*(corep or pkg + ".core").split("."))
            for name, data in sorted(ref.items()):
                rel = name.split("core/", 1)[1] if "core/" in name else name
                p = cdir / rel
                if not p.exists():
                    ev.append({"k": "runtimefile", "name": rel, "same": False, "ast_equal": False, "postprocess": not nopp})
                    continue
                got = p.read_bytes()
                same = got == data
                aeq = same
                if not same:
                    try:
                        aeq = ast.dump(ast.parse(got)) == ast.dump(ast.parse(data))
                    except SyntaxError:
                        aeq = False
                ev.append({"k": "runtimefile", "name": rel, "same": same, "ast_equal": aeq, "postprocess": not nopp})
        if "smoke" in o:
            sm = o["smoke"]
            ev.append({"k": "smoke", "ok": bool(sm.get("ok")), "exctype": sm.get("exctype", "")})
        traces.append({"id": j["id"], "pkgtop": pkg.split(".")[0], "coretop": (corep or pkg).split(".")[0], "ev": ev, "_rec": r})
    return traces


def judge(chk: Check, traces: list[dict], label: str) -> list[dict]:
    if not traces:
        return []
    d = chk.scratch.sub("load")
    tf = d / "traces.ndjson"
    with tf.open("w") as f:
        for t in traces:
            f.write(json.dumps({k: v for k, v in t.items() if not k.startswith("_")}) + "\n")
    consts = "---- MODULE LoadConsts ----\nStdlibNames == " + tla(set(sys.stdlib_module_names)) + "\n====\n"
    r = run_tlc(chk.scratch, "Trace_Load", "SPECIFICATION Spec\nCHECK_DEADLOCK FALSE\n", workers=8, env={"TRACE_FILE": str(tf)}, files={"LoadConsts.tla": consts})
    chk.add_tlc(f"Trace_Load[{label}]", r)
    vs = r.printed.get("VERDICT", [])
    chk.require(len(vs) == len(traces), f"Trace_Load produced {len(vs)} verdicts for {len(traces)} traces")
    chk.cov["traces_validated_against_impl"] += len(traces)
    return vs
