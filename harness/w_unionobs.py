"""Extra observer for harness.w_obs (registered through VERIF_OBS_EXTRA=harness.w_unionobs): decode payloads through
the union alias / discriminator metadata the GENERATOR emitted, with the converter bundled in the emitted package.

job (in addition to w_obs' id/root/pkg): {"want": ["unions"], "alias": "Pet", "positions": [names from POSITIONS],
  "names": {class name: 1-based variant index}, "cases": [{"cid", "payload": tagged tree}]}
observation: {"alias_repr": str, "res": [{"cid", "pos", "out", "chosen", "ckind", "reenc", "ekind"}]}

Must not import pyopenapi_gen nor harness.core (w_obs blocks the generator on purpose).
"""

from __future__ import annotations

import dataclasses
import enum
import importlib
import re
import sys
from typing import Any

# w_obs runs as `python -m harness.w_obs`, i.e. as the module __main__: registering into a second copy imported as
# `harness.w_obs` would not be seen by the running worker, so the registry of __main__ is used when it is w_obs.
_main = sys.modules.get("__main__")
if isinstance(getattr(_main, "OBS", None), dict) and hasattr(_main, "register"):
    w_obs = _main
else:
    from harness import w_obs  # type: ignore[no-redef]


def to_tree(x: Any) -> dict:
    if x is None:
        return {"t": "null", "v": 0}
    if isinstance(x, enum.Enum):
        return to_tree(x.value)
    if isinstance(x, bool):
        return {"t": "b", "v": x}
    if isinstance(x, int):
        return {"t": "i", "v": x} if abs(x) < 2**30 else {"t": "x", "v": "bigint"}
    if isinstance(x, float):
        y = x * 10
        if y != y or abs(y) >= 2**30 or abs(y - round(y)) > 1e-9:
            return {"t": "x", "v": "float:" + repr(x)[:40]}
        return {"t": "f", "v": int(round(y))}
    if isinstance(x, str):
        return {"t": "s", "v": x}
    if isinstance(x, (list, tuple)):
        return {"t": "l", "v": [to_tree(e) for e in x]}
    if isinstance(x, dict):
        return {"t": "o", "v": [{"k": str(k), "v": to_tree(x[k])} for k in sorted(x, key=str)]}
    return {"t": "x", "v": type(x).__name__}


def from_tree(t: dict) -> Any:
    k = t["t"]
    if k == "null":
        return None
    if k in ("b", "i", "s"):
        return t["v"]
    if k == "f":
        return t["v"] / 10.0
    if k == "l":
        return [from_tree(e) for e in t["v"]]
    if k == "o":
        return {e["k"]: from_tree(e["v"]) for e in t["v"]}
    raise ValueError(k)


def err_kind(e: BaseException) -> str:
    msg = str(e)
    if "No module named" in msg:
        return "mapping_import_failed"  # get_mapping() of the emitted discriminator metadata could not import a variant
    if "Unknown discriminator value" in msg:
        return "unknown_discriminator"
    if "Failed to deserialize as" in msg and "(discriminator" in msg:
        return "mapped_variant_failed"
    if "Could not structure dict into any variant" in msg:
        return "no_dataclass_variant"
    if "Cannot structure" in msg and "into" in msg:
        return "no_variant"
    if "None is not valid" in msg:
        return "null_not_allowed"
    m = re.search(r"\b([A-Z][A-Za-z]+(Error|Exception))\b", msg)
    return "other:" + (m.group(1) if m else type(e).__name__)


def kind_of_value(r: Any, classes: dict[type, int]) -> tuple[int, str]:
    """classes: the variant classes of THIS package's union (identity, not name: two clients may both have an Alpha)."""
    if r is None:
        return 0, "null"
    if dataclasses.is_dataclass(r) and not isinstance(r, type):
        if type(r) in classes:
            return classes[type(r)], "obj"
        return 0, "foreign:" + type(r).__name__
    for name, py in (("bool", bool), ("int", int), ("float", float), ("str", str), ("list", list), ("dict", dict)):
        if type(r) is py:
            return 0, name
    return 0, "other:" + type(r).__name__


# The POSITION through which a union value is reached is a dimension of the family.  One table, shared with the
# concretiser (harness/c14.py::union_doc emits exactly these schemas): position -> (root schema, body template with the
# payload at "$P", path from the decoded root to the union value; a str step is an attribute of a dataclass or a key).
POSITIONS: dict[str, tuple[str, Any, list]] = {
    "top": ("Pet", "$P", []),                                   # the alias itself (response root)
    "field": ("Hfield", {"u": "$P"}, ["u"]),                    # u: $ref Pet
    "list": ("Hlist", {"items": ["$P"]}, ["items", 0]),         # items: inline array of $ref Pet
    "nlist": ("Hnlist", {"items": ["$P"]}, ["items", 0]),       # items: $ref PetList (NAMED array of $ref Pet)
    "nlist_top": ("PetList", ["$P"], [0]),                      # the named array alias as a root
    "map": ("Hmap", {"m": {"k": "$P"}}, ["m", "k"]),            # m: inline additionalProperties $ref Pet
    "nmap": ("Hnmap", {"m": {"k": "$P"}}, ["m", "k"]),          # m: $ref PetMap (NAMED map of $ref Pet)
    "rows": ("Hrows", {"rows": [["$P"]]}, ["rows", 0, 0]),      # rows: array of arrays of $ref Pet
    "ifield": ("Hifield", {"u": "$P"}, ["u"]),                  # u: the union schema declared INLINE at the property
    "ilist": ("Hilist", {"items": ["$P"]}, ["items", 0]),       # items: array of the INLINE union schema
    "opt": ("Hopt", {"u": "$P"}, ["u"]),                        # u: $ref Pet, not required
    "olist": ("Hopt", {"items": ["$P"]}, ["items", 0]),         # items: inline array, not required
}
# the second union of a "pair" document (same variants, reversed order, no discriminator) and where it is used
PAIR_POSITIONS = [("PetB", "$P"), ("Bfield", {"u": "$P"}), ("Blist", {"items": ["$P"]}), ("Bopt", {"u": "$P"}), ("Bopt", {"items": ["$P"]}), ("Brows", {"rows": [["$P"]]}), ("Bnlist", {"items": ["$P"]})]
BASE_POSITIONS = ["top", "field", "list"]
EXTRA_POSITIONS = ["nlist", "ifield", "nlist_top", "map", "ilist", "nmap", "rows", "opt", "olist"]


def fill(template: Any, payload: Any) -> Any:
    if template == "$P":
        return payload
    if isinstance(template, dict):
        return {k: fill(v, payload) for k, v in template.items()}
    if isinstance(template, list):
        return [fill(v, payload) for v in template]
    return template


def walk(r: Any, path: list) -> Any:
    for step in path:
        if isinstance(step, int):
            if not isinstance(r, list) or len(r) != 1:
                raise RuntimeError("ListShapeError")
            r = r[step]
        elif dataclasses.is_dataclass(r) and step in {f.name for f in dataclasses.fields(r)}:
            r = getattr(r, step)
        else:
            r = r[step]  # dict or generated map wrapper
    return r


def member_tokens(t: Any) -> list[str]:
    """Member order of the union TYPE OBJECT found at a position (class names / Python kinds, None dropped)."""
    import typing

    if typing.get_origin(t) is typing.Annotated:
        t = typing.get_args(t)[0]
    out = []
    for a in typing.get_args(t):
        if a is type(None):
            continue
        if typing.get_origin(a) is typing.Annotated or typing.get_origin(a) is typing.Union:
            out += member_tokens(a)
        elif isinstance(a, type):
            out.append(a.__name__)
        else:
            o = typing.get_origin(a)
            out.append(getattr(o, "__name__", str(o)))
    return out


def type_at(t: Any, path: list) -> Any:
    """The type annotation reached from the root type along a position's path."""
    import typing

    def strip_opt(x: Any) -> Any:
        if typing.get_origin(x) in (typing.Union, getattr(__import__("types"), "UnionType", None)):
            non = [a for a in typing.get_args(x) if a is not type(None)]
            if len(non) == 1:
                return non[0]
        return x

    for step in path:
        t = strip_opt(t)
        if isinstance(step, int):
            t = typing.get_args(t)[0]
        elif dataclasses.is_dataclass(t) and step in {f.name for f in dataclasses.fields(t)}:
            t = typing.get_type_hints(t, include_extras=True)[step]
        elif dataclasses.is_dataclass(t):  # generated map wrapper: _data: dict[str, V]
            t = typing.get_args(typing.get_type_hints(t, include_extras=True)["_data"])[1]
        else:
            t = typing.get_args(t)[1]
    return t


def type_order(models: Any, pos: str, want: list[str]) -> str:
    """"declared" when the union type object at this position lists its members in the document's order, "collapsed"
    when Python handed out an equal-but-differently-ordered Union built earlier (Union[A, B] == Union[B, A])."""
    root, _template, path = POSITIONS[pos]
    try:
        got = member_tokens(type_at(getattr(models, root), path))
    except Exception:  # noqa: BLE001
        return "unknown"
    if sorted(got) != sorted(want):
        return "unknown"  # the emitted alias is not member-for-member the document's union (e.g. typed map -> dict[str, Any])
    return "declared" if got == want else "collapsed"


def decode_cases(job: dict, cc: Any, models: Any) -> list[dict]:
    classes = {getattr(models, n): i for n, i in job["names"].items() if hasattr(models, n)}
    res = []

    def root_cause(payload: Any, own: str) -> str:
        """An Optional[List[...]] wrapper re-raises only 'no variant matched' and hides why the item failed: when the very
        same payload is also rejected by the alias itself, that error kind is the observation's error kind."""
        try:
            cc.structure_from_dict(payload, getattr(models, POSITIONS["top"][0]))
        except Exception as e:  # noqa: BLE001
            return err_kind(e)
        return own

    torder = {pos: type_order(models, pos, job["order"]) if job.get("order") else "unknown" for pos in job.get("positions", BASE_POSITIONS)}
    for c in job["cases"]:
        payload = from_tree(c["payload"])
        for pos in job.get("positions", BASE_POSITIONS):
            root, template, path = POSITIONS[pos]
            out: dict[str, Any] = {"cid": c["cid"], "pos": pos, "torder": torder[pos]}
            try:
                r = walk(cc.structure_from_dict(fill(template, payload), getattr(models, root)), path)
            except Exception as e:  # noqa: BLE001
                ek = err_kind(e)
                if pos != "top" and ek == "no_variant":
                    ek = root_cause(payload, ek)
                out.update({"out": "err", "chosen": 0, "ckind": "-", "reenc": {"t": "null", "v": 0}, "ekind": ek})
                res.append(out)
                continue
            chosen, ckind = kind_of_value(r, classes)
            try:
                reenc = to_tree(cc.unstructure_to_dict(r))
            except Exception as e:  # noqa: BLE001
                reenc = {"t": "x", "v": "unstructure:" + type(e).__name__}
            out.update({"out": "ok", "chosen": chosen, "ckind": ckind, "reenc": reenc, "ekind": "-"})
            res.append(out)
    return res


@w_obs.register("unions")
def obs_unions(job: dict) -> Any:
    """Optional job["history"] == {"pkg": other client package sharing job["core"], "alias", "payloads": [trees]}:
    `fresh` = this client's union decoded with a freshly imported converter module; then the converter module is
    imported anew (empty module state), the OTHER client's union is decoded first and this client's union after it
    (`res`) - two clients of one process sharing one core package."""
    pkg = job["pkg"]
    core_mod = (job.get("core") or pkg + ".core") + ".cattrs_converter"
    models = importlib.import_module(pkg + ".models")
    cc = importlib.import_module(core_mod)
    alias = getattr(models, job["alias"])
    out: dict[str, Any] = {"alias_repr": repr(alias)[:300]}
    hist = job.get("history")
    if not hist:
        out["res"] = decode_cases(job, cc, models)
        return out
    out["fresh"] = decode_cases(job, cc, models)
    sys.modules.pop(core_mod, None)
    cc2 = importlib.import_module(core_mod)
    if hist.get("kind", "classes") == "classes":
        other = importlib.import_module(hist["pkg"] + ".models")
        oalias = getattr(other, hist["alias"])
        for t in hist["payloads"]:
            try:
                cc2.structure_from_dict(from_tree(t), oalias)
            except Exception:  # noqa: BLE001
                pass
    else:
        # kind "perm": the SAME document declares a second union (Pet2) over the same variant schemas in reversed
        # order; it is decoded first - as a root, a field, an array item and an optional field - then Pet
        roots = {root: getattr(models, root) for root, _ in PAIR_POSITIONS}  # a missing schema is an observer error
        for c in job["cases"]:
            payload = from_tree(c["payload"])
            for root, template in PAIR_POSITIONS:
                try:
                    cc2.structure_from_dict(fill(template, payload), roots[root])
                except Exception:  # noqa: BLE001
                    pass
    out["res"] = decode_cases(job, cc2, models)
    return out
