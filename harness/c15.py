"""C15 - spec text can never alter the structure of generated code.

TextSink.tla (TLC) enumerates every payload of length <= k over a 11-class hostile alphabet together with the
lexical-context transitions it exercises; the harness picks a transition-covering payload set (quick) or all payloads
(thorough), places each payload in each text-bearing position of a document, generates side by side with a benign
baseline of the same length and compares: every file parses, the AST skeleton is unchanged, meaningful literals
evaluate to the original string.  Trace_TextSink.tla judges."""

from __future__ import annotations

import json
from typing import Any, Callable

from . import core
from .core import Check, run_tlc, tla
from .features import jresp, obj, ref

LEVEL = "exploration"

CHARS = {"plain": "x", "dq": '"', "sq": "'", "bs": "\\", "lf": "\n", "cr": "\r", "hash": "#", "lbrace": "{", "rbrace": "}", "nonascii": "é", "usep": "\u2028",
         # further members of the usep class (each placed alone and inside plain text)
         "usep_ps": "\u2029", "usep_nel": "\x85", "usep_vt": "\x0b", "usep_ff": "\x0c", "usep_fs": "\x1c", "usep_rs": "\x1e"}
# characters outside the Basic Multilingual Plane: one code point in Python, a surrogate PAIR in JSON / UTF-16 escapes
CHARS["astral"] = "\U0001F516"
USEP_MORE = ["usep_ps", "usep_nel", "usep_vt", "usep_ff", "usep_fs", "usep_rs"]


def base_doc() -> dict:
    return {
        "openapi": "3.0.3",
        "info": {"title": "Text API", "version": "1.0.0", "description": "about"},
        "servers": [{"url": "https://api.example.com"}],
        "tags": [{"name": "things", "description": "tag text"}],
        "paths": {
            "/things": {
                "get": {
                    # MANY optional query parameters on one operation (size thresholds of the emitters)
                    "operationId": "listThings",
                    "tags": ["things"],
                    "parameters": [{"name": f"opt{i:02d}", "in": "query", "schema": {"type": "string"}} for i in range(12)] + [{"name": "X-Many", "in": "header", "schema": {"type": "string"}}],
                    "responses": {"200": jresp({"type": "array", "items": ref("Thing")})},
                }
            },
            "/things/{thingId}": {
                "get": {
                    "operationId": "getThing",
                    "summary": "sum",
                    "description": "desc",
                    "tags": ["things"],
                    "parameters": [
                        {"name": "thingId", "in": "path", "required": True, "schema": {"type": "string"}, "description": "pd"},
                        {"name": "filter", "in": "query", "schema": {"type": "string"}, "description": "qd"},
                        {"name": "X-Trace", "in": "header", "schema": {"type": "string"}},
                    ],
                    "responses": {"200": jresp(ref("Thing"), "resp text"), "404": {"description": "nf text"}},
                },
                "put": {
                    # two request content types: the @overload / runtime-dispatch path of the method generator
                    "operationId": "replaceThing",
                    "tags": ["things"],
                    "parameters": [
                        {"name": "thingId", "in": "path", "required": True, "schema": {"type": "string"}},
                        {"name": "mode", "in": "query", "schema": {"type": "string"}},
                        {"name": "X-Mode", "in": "header", "schema": {"type": "string"}},
                    ],
                    "requestBody": {"required": True, "content": {"application/json": {"schema": ref("Thing")}, "multipart/form-data": {"schema": {"type": "object", "properties": {"file": {"type": "string", "format": "binary"}}}}}},
                    "responses": {"200": jresp(ref("Thing"))},
                },
                "post": {
                    "operationId": "makeThing",
                    "tags": ["things"],
                    "parameters": [{"name": "thingId", "in": "path", "required": True, "schema": {"type": "string"}}],
                    "requestBody": {"required": True, "content": {"application/json": {"schema": ref("Thing")}}},
                    "responses": {"201": jresp(ref("Shape"))},
                },
            }
        },
        "components": {
            "schemas": {
                "Thing": obj({"name": {"type": "string", "description": "prop text"}, "nick": {"type": "string", "default": "dflt"}, "kind": ref("Kind"), "size": {"type": "integer"}}, ["name"], description="schema text"),
                "Kind": {"type": "string", "enum": ["alpha", "beta"], "description": "enum text"},
                "Label": {"type": "string", "description": "alias text"},
                "A1": obj({"type": {"type": "string"}, "a": {"type": "string"}}, ["type"]),
                "B1": obj({"type": {"type": "string"}, "b": {"type": "string"}}, ["type"]),
                "Shape": {"oneOf": [ref("A1"), ref("B1")], "discriminator": {"propertyName": "type", "mapping": {"aaa": "#/components/schemas/A1", "bbb": "#/components/schemas/B1"}}, "description": "union text"},
            }
        },
    }


def _get(d): return d["paths"]["/things/{thingId}"]["get"]


def _set(path: list, key: str) -> Callable[[dict, str], None]:
    def f(d: dict, t: str) -> None:
        x: Any = d
        for k in path:
            x = x[k]
        x[key] = t
    return f


def _prop_name(d: dict, t: str) -> None:
    props = d["components"]["schemas"]["Thing"]["properties"]
    props[t] = props.pop("size")


def _enum_value(d: dict, t: str) -> None:
    d["components"]["schemas"]["Kind"]["enum"] = ["alpha", t]


def _query_name(d: dict, t: str) -> None:
    _get(d)["parameters"][1]["name"] = t


def _header_name(d: dict, t: str) -> None:
    _get(d)["parameters"][2]["name"] = t


def _put(d): return d["paths"]["/things/{thingId}"]["put"]


def _tag(d: dict, t: str) -> None:
    d["tags"][0]["name"] = t
    for m in ("get", "post", "put"):
        d["paths"]["/things/{thingId}"][m]["tags"] = [t]
    d["paths"]["/things"]["get"]["tags"] = [t]


def _disc_value(d: dict, t: str) -> None:
    m = d["components"]["schemas"]["Shape"]["discriminator"]["mapping"]
    m[t] = m.pop("bbb")


def _disc_prop(d: dict, t: str) -> None:
    for s in ("A1", "B1"):
        sch = d["components"]["schemas"][s]
        sch["properties"][t] = sch["properties"].pop("type")
        sch["required"] = [t]
    d["components"]["schemas"]["Shape"]["discriminator"]["propertyName"] = t


def _media_type(d: dict, t: str) -> None:
    c = d["paths"]["/things/{thingId}"]["post"]["requestBody"]["content"]
    c["application/json; profile=" + t] = c.pop("application/json")


S = ["components", "schemas"]
# position -> (setter, does the text carry meaning as a literal?)
POSITIONS: dict[str, tuple[Callable[[dict, str], None], bool]] = {
    "info_title": (_set(["info"], "title"), False),
    "info_description": (_set(["info"], "description"), False),
    "schema_description": (_set(S + ["Thing"], "description"), False),
    "alias_description": (_set(S + ["Label"], "description"), False),
    "enum_description": (_set(S + ["Kind"], "description"), False),
    "union_description": (_set(S + ["Shape"], "description"), False),
    "property_description": (_set(S + ["Thing", "properties", "name"], "description"), False),
    "property_name": (_prop_name, True),
    "enum_value": (_enum_value, True),
    "string_default": (_set(S + ["Thing", "properties", "nick"], "default"), False),
    # a default whose JSON type is not the property's type is still spec TEXT: it must stay data wherever it is rendered
    "int_default_text": (lambda d, t: d["components"]["schemas"]["Thing"]["properties"]["size"].__setitem__("default", t), False),
    "number_default_text": (lambda d, t: d["components"]["schemas"]["Thing"]["properties"].__setitem__("ratio", {"type": "number", "default": t}), False),
    "bool_default_text": (lambda d, t: d["components"]["schemas"]["Thing"]["properties"].__setitem__("flag", {"type": "boolean", "default": t}), False),
    "param_default": (lambda d, t: _get(d)["parameters"][1]["schema"].__setitem__("default", t), False),
    "example_text": (lambda d, t: d["components"]["schemas"]["Thing"]["properties"]["name"].__setitem__("example", t), False),
    "query_param_name": (_query_name, True),
    "header_param_name": (_header_name, True),
    # ... and on an operation with MANY optional query parameters (11th of 12)
    "query_param_name_many": (lambda d, t: d["paths"]["/things"]["get"]["parameters"][10].__setitem__("name", t), True),
    # the same text positions on an operation with SEVERAL request content types (a different generator path)
    "query_param_name_multi": (lambda d, t: _put(d)["parameters"][1].__setitem__("name", t), False),
    "header_param_name_multi": (lambda d, t: _put(d)["parameters"][2].__setitem__("name", t), False),
    "operation_description_multi": (lambda d, t: _put(d).__setitem__("description", t), False),
    "param_description": (lambda d, t: _get(d)["parameters"][1].__setitem__("description", t), False),
    "operation_summary": (lambda d, t: _get(d).__setitem__("summary", t), False),
    "operation_description": (lambda d, t: _get(d).__setitem__("description", t), False),
    "tag_name": (_tag, False),
    "tag_description": (lambda d, t: d["tags"][0].__setitem__("description", t), False),
    "response_description": (lambda d, t: _get(d)["responses"]["200"].__setitem__("description", t), False),
    "error_response_description": (lambda d, t: _get(d)["responses"]["404"].__setitem__("description", t), False),
    "discriminator_value": (_disc_value, True),
    "discriminator_property": (_disc_prop, True),
    "media_type_param": (_media_type, False),
    "server_url": (lambda d, t: d["servers"][0].__setitem__("url", "https://api.example.com/" + t), False),
}


# positions whose text also becomes an identifier get a benign prefix, so that the derived identifier is never empty
# (empty / invalid derived identifiers are property C20's business, not C15's)
NAME_PREFIX = {p: "q" for p in ("property_name", "query_param_name", "header_param_name", "query_param_name_many", "query_param_name_multi", "header_param_name_multi", "discriminator_property", "enum_value", "discriminator_value", "tag_name")}


# text that LOOKS like Python constructs (all "plain" for the lexical automaton, hostile for line-based text scanners)
CODELIKE = {
    "code_asyncdef": "async def drop_all(self, confirm: bool = True) -> None:",
    "code_def": "def helper(x):",
    "code_class": "class Injected:",
    "code_decorator": "@staticmethod",
    "code_import": "import os",
    "code_return": "return None",
    "code_args": "Args:",
    "code_protocol": "class XProtocol(Protocol):",
}


def payload_text(classes: list[str]) -> str:
    if len(classes) == 1 and classes[0] in CODELIKE:
        return CODELIKE[classes[0]]
    return "".join(CHARS[c] for c in classes)


def tlc_payloads(chk: Check, maxlen: int) -> list[dict]:
    cfg = f"SPECIFICATION Spec\nCONSTANTS MaxLen = {maxlen}\nINVARIANT PlainIsInert\nINVARIANT QuoteEscapesDq\nCHECK_DEADLOCK FALSE\n"
    r = run_tlc(chk.scratch, "TextSink", cfg, workers=8)
    chk.add_tlc(f"TextSink[len<={maxlen}]", r)
    ps = r.printed.get("SCEN", [])
    chk.require(len(ps) > 0, "TextSink emitted no payload")
    ps.sort(key=lambda p: (len(p["payload"]), json.dumps(p["payload"])))
    return ps


def transition_cover(ps: list[dict]) -> list[dict]:
    """Greedy cover of all (context, state, char) transitions, shortest payloads first; all single characters included."""
    chosen = [p for p in ps if len(p["payload"]) == 1]
    covered = {tuple(t) for p in chosen for t in p["trans"]}
    universe = {tuple(t) for p in ps for t in p["trans"]}
    for p in ps:
        new = {tuple(t) for t in p["trans"]} - covered
        if new:
            chosen.append(p)
            covered |= new
    assert covered == universe
    return chosen


def run(chk: Check) -> None:
    thorough = chk.tier == "thorough"
    ps = tlc_payloads(chk, 3)
    chosen = ps if thorough else transition_cover(ps)
    # classic hostile endings that matter for docstrings / literals (made of the same alphabet, length <= 4)
    extra = [["plain", "bs"], ["plain", "dq"], ["dq", "dq", "dq"], ["plain", "dq", "dq", "dq"], ["bs", "dq"], ["lbrace", "plain", "rbrace"], ["plain", "cr", "plain"], ["plain", "lf", "plain"], ["bs", "plain"], ["sq", "sq", "sq"]]
    # quote / backslash runs of length 2..5, and every hostile single character, both at the END of the text and INSIDE it
    for c in ("dq", "sq", "bs"):
        for n in (2, 3, 4, 5):
            extra.append([c] * n)
    inner = []
    for pl in [p["payload"] for p in chosen if len(p["payload"]) <= 2] + extra:
        if any(c != "plain" for c in pl):
            inner.append(["plain"] + list(pl) + ["plain"])
    extra += inner
    extra += [[k] for k in CODELIKE]
    for u in USEP_MORE + ["astral"]:
        extra += [[u], ["plain", u, "plain"]]
    have = {json.dumps(p["payload"]) for p in chosen}
    for e in extra:
        if json.dumps(e) not in have:
            have.add(json.dumps(e))
            chosen.append({"payload": e, "escapes": [], "trans": []})
    chk.cov["payloads"] = len(chosen)
    chk.cov["transitions_covered"] = len({tuple(t) for p in ps for t in p["trans"]})
    chk.cov["rule"] = (
        f"{len(POSITIONS)} text-bearing positions x {'all payloads of length <=3' if thorough else 'a transition-covering payload set (all single characters + greedy cover + classic endings)'} over the "
        "11-class hostile alphabet of TextSink.tla; each hostile document is generated next to a benign baseline of the same length; non-trivial = payload with at least one non-plain character"
    )
    chk.assumptions += ["skeleton = AST with identifiers, constants and docstring text erased", "a meaningful literal is found as a string constant of some non-core emitted file equal to the original text", "documents the generator rejects visibly are not judged"]
    root = chk.scratch.sub("text")
    jobs, meta = [], {}
    n = 0
    for pos, (setter, meaningful) in POSITIONS.items():
        lens = sorted({len(p["payload"]) for p in chosen})
        for L in lens:
            d = base_doc()
            setter(d, NAME_PREFIX.get(pos, "") + "x" * L)
            jid = f"b_{pos}_{L}"
            jobs.append({"id": jid, "root": str(root), "spec": d, "pkg": f"b{n}.client", "force": True, "nopp": True})
            meta[jid] = {"pos": pos, "L": L, "baseline": True}
            n += 1
        for p in chosen:
            txt = NAME_PREFIX.get(pos, "") + payload_text(p["payload"])
            d = base_doc()
            setter(d, txt)
            jid = f"h_{pos}_{n}"
            jobs.append({"id": jid, "root": str(root), "spec": d, "pkg": f"h{n}.client", "force": True, "nopp": True})
            meta[jid] = {"pos": pos, "L": len(p["payload"]), "baseline": False, "payload": p["payload"], "text": txt, "meaningful": meaningful}
            n += 1
    gres = core.parallel_py(chk.scratch, "harness.w_gen", jobs)
    ojobs = [{"id": j["id"], "root": j["root"], "pkg": j["pkg"], "want": ["textfacts"], "needle": meta[j["id"]].get("text") if meta[j["id"]].get("meaningful") else None} for j, g in zip(jobs, gres) if g["ok"]]
    ores = {r["id"]: r for r in core.parallel_py(chk.scratch, "harness.w_obs", ojobs, env={"VERIF_OBS_EXTRA": "harness.obs_text"})}
    gok = {j["id"]: g for j, g in zip(jobs, gres)}
    base_skel: dict[tuple, dict] = {}
    for jid, m in meta.items():
        if m["baseline"]:
            chk.require(gok[jid]["ok"], f"benign baseline rejected for {m['pos']}: {gok[jid]['err']}")
            base_skel[(m["pos"], m["L"])] = ores[jid]["textfacts"]["files"]
    # which single classes break a position on their own (for culprit attribution of longer payloads)
    def observe(jid: str) -> dict:
        m = meta[jid]
        g = gok[jid]
        if not g["ok"]:
            return {"accepted": False, "syntax_ok": True, "skeleton_same": True, "literal": "na"}
        tf = ores[jid]["textfacts"]
        files = tf["files"]
        syntax_ok = not any(str(v).startswith("SYNTAXERROR") for v in files.values())
        b = base_skel[(m["pos"], m["L"])]
        # file names may derive from the text (module stems): compare the multiset of skeletons
        same = syntax_ok and sorted(files.values()) == sorted(b.values())
        lit = "na"
        if m["meaningful"] and syntax_ok:
            lit = "same" if tf["has_needle"] else ("changed" if tf["near"] else "dropped")
        return {"accepted": True, "syntax_ok": syntax_ok, "skeleton_same": bool(same), "literal": lit}

    obs = {jid: observe(jid) for jid, m in meta.items() if not m["baseline"]}
    # culprit attribution: the hostile class of the payload with the highest failure rate at this position in this run
    ORDER = ["dq", "sq", "bs", "lf", "cr", "lbrace", "rbrace", "hash", "nonascii", "usep"] + USEP_MORE + ["astral"] + sorted(CODELIKE)
    stats: dict[tuple, list] = {}
    for jid, o in obs.items():
        m = meta[jid]
        bad = o["accepted"] and (not o["syntax_ok"] or not o["skeleton_same"] or o["literal"] in ("changed", "dropped"))
        for c in set(m["payload"]):
            if c != "plain":
                st = stats.setdefault((m["pos"], c), [0, 0])
                st[0] += 1
                st[1] += 1 if bad else 0
    traces = []
    for jid, o in obs.items():
        m = meta[jid]
        hostile = sorted({c for c in m["payload"] if c != "plain"}, key=ORDER.index)
        if hostile:
            culprit = max(hostile, key=lambda c: (stats[(m["pos"], c)][1] / stats[(m["pos"], c)][0], -ORDER.index(c)))
        else:
            culprit = "plain"
        pl = m["payload"]
        where = "none"
        run = 0
        if culprit in pl:
            where = "end" if pl[-1] == culprit else "inner"
            cur = 0
            for c in pl:
                cur = cur + 1 if c == culprit else 0
                run = max(run, cur)
        traces.append({"id": jid, "pos": m["pos"], "classes": hostile, "culprit": culprit, "where": where, "run": min(run, 4), **o})
    d = chk.scratch.sub("text_traces")
    tf = d / "t.ndjson"
    with tf.open("w") as f:
        for t in traces:
            f.write(json.dumps(t) + "\n")
    r = run_tlc(chk.scratch, "Trace_TextSink", "SPECIFICATION Spec\nCHECK_DEADLOCK FALSE\n", workers=8, env={"TRACE_FILE": str(tf)})
    chk.add_tlc("Trace_TextSink", r)
    vs = r.printed.get("VERDICT", [])
    chk.require(len(vs) == len(traces), "Trace_TextSink verdict count mismatch")
    chk.cov["traces_validated_against_impl"] += len(traces)
    rejected = 0
    for v in vs:
        m = meta[v["id"]]
        chk.count()
        if any(c != "plain" for c in m["payload"]):  # code-like payloads count as non-plain too
            chk.nontrivial({"pos": m["pos"], "p": m["payload"]})
        if not obs[v["id"]]["accepted"]:
            rejected += 1
        if v["clause"] != "ok":
            chk.fail(v["clause"], v["locus"], {"position": m["pos"], "payload": m["payload"], "text": m["text"]}, json.dumps(obs[v["id"]]))
    chk.cov["rejected_visibly"] = rejected
    chk.sample({"position": "enum_value", "payload": ["bs", "dq"], "text": payload_text(["bs", "dq"])})
    chk.cov["exhaustive"] = thorough


def replay(chk: Check, path: str) -> None:
    rec = json.loads(open(path).read())
    sc = rec["scenario"]
    root = chk.scratch.sub("replay")
    setter, meaningful = POSITIONS[sc["position"]]
    d = base_doc()
    setter(d, sc["text"])
    g = core.parallel_py(chk.scratch, "harness.w_gen", [{"id": "r", "root": str(root), "spec": d, "pkg": "r0.client", "force": True, "nopp": True}])[0]
    print("generation:", g["ok"], g["err"])
    if g["ok"]:
        o = core.parallel_py(chk.scratch, "harness.w_obs", [{"id": "r", "root": str(root), "pkg": "r0.client", "want": ["textfacts"], "needle": sc["text"] if meaningful else None}], env={"VERIF_OBS_EXTRA": "harness.obs_text"})[0]
        bad = {k: v for k, v in o["textfacts"]["files"].items() if str(v).startswith("SYNTAXERROR")}
        print("REPLAY", json.dumps({"syntax_errors": bad, "has_needle": o["textfacts"]["has_needle"], "near": o["textfacts"]["near"]}))
        if bad:
            chk.fail("C15.syntax_error", {"pos": sc["position"], "culprit": "replay"}, sc, json.dumps(bad))
