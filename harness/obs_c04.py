"""C04's own call observer (registered into harness.w_obs as `wire4`; activate with VERIF_OBS_EXTRA=harness.obs_wire,harness.obs_c04).

Like obs_wire's `wire` (same discovery, same transport injection, same capture, same record shape) but the ARGUMENT-ASSIGNMENT
family has three value modes per method:

  tokens  : every supplied leaf is a distinct token; <= max_plans subsets of the optional arguments (obs_wire.arg_plans)
  falsy   : one call per optional argument that admits a falsy value which is not None ("" / 0 / False / [] / {}): the required
            arguments as tokens, that one optional argument falsy, every other optional omitted.  "Optional arguments left as
            None are omitted" - nothing else may be: the falsy value has to arrive like any other value.  (One falsy value per
            call, so that every other value on the wire is still a unique token.)
  aliased : the required arguments plus the optional arguments that carry models, where every occurrence of a model class inside
            one argument is THE SAME instance (body=[item, item]; a model whose two fields and list field hold one sub-model
            object).  The expected JSON is the instance's JSON repeated - sharing an object is not a cycle.

  concurrent : the SCHEDULE is a dimension too - "awaiting the method issues exactly one request carrying the caller's
            arguments" has to hold while another call is in flight on the same client.  A second client is built on ONE bundled
            HttpxTransport whose OAuth2Auth refresh callback awaits a Future the observer controls.  For every pair
            (method i, method i+1) (cyclic over the methods of a tag client; a single method is paired with itself) the first
            call is started and runs until it is suspended inside the plug-in (or finishes), then the second call runs to
            completion, then the Future is resolved and the first call finishes: exactly the interleaving Enter(a) Suspend(a)
            Enter(b) .. Put(b) Resume(a) Put(a) of specs/MC_WireSched.tla, no sleeps.  The two calls use disjoint token sets
            (different Synth offsets); a captured request is attributed to the call in whose task the transport was entered.
            One record per call, judged by the unchanged monitor.  `strip_headers` names what the schedule machinery itself
            adds to the wire (the plug-in's Authorization header, the configured default headers).

Each record carries `mode` and, for falsy calls, `falsy` = the python name of the falsy argument.
"""

from __future__ import annotations

import asyncio
import dataclasses
import importlib
import inspect
import typing
from typing import Any

import httpx

from harness import obs_wire
from harness.obs_wire import Synth, _call, _hints, _methods, _nature, arg_plans, capture, discover, make_client
from harness.w_obs import register


class AliasSynth(Synth):
    """Every occurrence of a dataclass type inside one argument is one shared instance."""

    def __init__(self) -> None:
        super().__init__()
        self.cache: dict[type, tuple[Any, Any]] = {}
        self.reused = 0

    def make(self, t: Any, depth: int = 0) -> tuple[Any, Any]:
        if isinstance(t, type) and dataclasses.is_dataclass(t):
            if t in self.cache:
                self.reused += 1
                return self.cache[t]
            made = super().make(t, depth)
            if made[0] is not None:
                self.cache[t] = made
            return made
        return super().make(t, depth)


def _strip_optional(t: Any) -> Any:
    origin = typing.get_origin(t)
    if origin is typing.Union or type(t).__name__ == "UnionType":
        non = [a for a in typing.get_args(t) if a is not type(None)]
        return non[0] if len(non) == 1 else t
    return t


def falsy_for(t: Any) -> tuple[bool, Any]:
    """(has a falsy non-None value, that value) for an annotation."""
    t = _strip_optional(t)
    origin = typing.get_origin(t)
    if t is str:
        return True, ""
    if t is bool:
        return True, False
    if t is int:
        return True, 0
    if t is float:
        return True, 0.0
    if origin in (list, typing.List) or t is list:
        return True, []
    if origin in (dict, typing.Dict) or t is dict:
        return True, {}
    return False, None


def carries_model(t: Any, depth: int = 0) -> bool:
    if depth > 4:
        return False
    t = _strip_optional(t)
    if isinstance(t, type) and dataclasses.is_dataclass(t):
        return True
    return any(carries_model(a, depth + 1) for a in typing.get_args(t))


@register("wire4")
def obs_wire4(job: dict) -> Any:
    d = discover(job)
    captured: list[dict] = []

    def handler(req: httpx.Request) -> httpx.Response:
        captured.append(capture(req))
        return httpx.Response(200, json={})

    obs_wire._HANDLER[0] = handler
    client = make_client(job, d)
    out = []
    loop = asyncio.new_event_loop()

    def run(tc, pname, mn, fn, kwargs, expect, omitted, mode, falsy=""):
        captured.clear()
        res = loop.run_until_complete(asyncio.wait_for(_call(getattr(tc, mn), kwargs, _nature(fn)), 20))
        out.append(
            {
                "prop": pname,
                "cls": type(tc).__name__,
                "method": mn,
                "mode": mode,
                "falsy": falsy,
                "args": {k: (expect[k] if expect[k] is not None else "__none__") for k in kwargs},
                "omitted": omitted,
                "requests": list(captured),
                "outcome": res if res["kind"] == "raise" else {"kind": res["kind"]},
            }
        )

    try:
        for pname in sorted(d["props"]):
            try:
                tc = getattr(client, pname)
            except Exception:  # noqa: BLE001
                continue
            for mn, fn in _methods(type(tc)).items():
                hints = _hints(fn)
                plans = arg_plans(fn, hints)
                for plan in plans[: int(job.get("max_plans", 8))]:
                    syn = Synth()
                    kwargs, expect = {}, {}
                    for a in plan["required"] + plan["supplied"]:
                        kwargs[a], expect[a] = syn.make(hints.get(a, inspect._empty))
                    run(tc, pname, mn, fn, kwargs, expect, [o for o in plan["optional"] if o not in plan["supplied"]], "tokens")
                if not plans:
                    continue
                req, opt = plans[0]["required"], plans[0]["optional"]
                sig = inspect.signature(fn)
                nfalsy = 0
                for o in opt:
                    if sig.parameters[o].default is not None:
                        continue  # a selector (content_type=...), not an optional value
                    has, val = falsy_for(hints.get(o, inspect._empty))
                    if not has or nfalsy >= int(job.get("max_falsy", 6)):
                        continue
                    nfalsy += 1
                    syn = Synth()
                    kwargs, expect = {}, {}
                    for a in req:
                        kwargs[a], expect[a] = syn.make(hints.get(a, inspect._empty))
                    kwargs[o], expect[o] = val, val
                    run(tc, pname, mn, fn, kwargs, expect, [x for x in opt if x != o], "falsy", o)
                names = req + [o for o in opt if sig.parameters[o].default is None and carries_model(hints.get(o, inspect._empty))]
                if any(carries_model(hints.get(a, inspect._empty)) for a in names):
                    kwargs, expect = {}, {}
                    reused = 0
                    for a in names:
                        syn = AliasSynth()
                        syn.k = 10 * (len(kwargs) + 1)
                        kwargs[a], expect[a] = syn.make(hints.get(a, inspect._empty))
                        reused += syn.reused
                    if reused:
                        run(tc, pname, mn, fn, kwargs, expect, [x for x in opt if x not in names], "aliased")
        if job.get("concurrent", True):
            out += concurrent_calls(job, d, loop)
    finally:
        loop.close()
    return out


CONC_TOKEN = "tok-conc"


def _conc_plan(fn, hints: dict, offset: int) -> tuple[dict, dict, list[str]]:
    """Required arguments, every positional optional argument and the first keyword-only optional one (operations with several
    content types take their content arguments keyword-only and allow exactly one)."""
    sig = inspect.signature(fn)
    syn = Synth()
    syn.k = offset
    kwargs, expect, omitted = {}, {}, []
    took_kwonly = False
    for p in sig.parameters.values():
        if p.name == "self" or p.kind in (p.VAR_POSITIONAL, p.VAR_KEYWORD):
            continue
        if p.default is inspect._empty:
            pass
        elif p.default is not None:
            continue  # selector
        elif p.kind is p.KEYWORD_ONLY:
            if took_kwonly:
                omitted.append(p.name)
                continue
            took_kwonly = True
        kwargs[p.name], expect[p.name] = syn.make(hints.get(p.name, inspect._empty))
    return kwargs, expect, omitted


def concurrent_calls(job: dict, d: dict, loop) -> list[dict]:
    corep = job.get("core") or job["pkg"] + ".core"
    tm = importlib.import_module(corep + ".http_transport")
    try:
        am = importlib.import_module(corep + ".auth.plugins")
    except ImportError:
        am = importlib.import_module(corep + ".auth")
    state: dict[str, Any] = {"gate": None, "waiting": False, "owner": {}}

    async def refresh(tok: str) -> str:
        gate = state["gate"]
        if gate is not None and asyncio.current_task() is state.get("first"):
            state["waiting"] = True
            await gate
        return tok

    def handler(req: httpx.Request) -> httpx.Response:
        state["owner"].setdefault(asyncio.current_task(), []).append(capture(req))
        return httpx.Response(200, json={})

    obs_wire._HANDLER[0] = handler
    dh = dict(job.get("default_headers") or {})
    transport = tm.HttpxTransport("http://srv.test", auth=am.OAuth2Auth(CONC_TOKEN, refresh_callback=refresh), default_headers=dh or None)
    client = make_client(job, d, transport)
    strip = [["authorization", "Bearer " + CONC_TOKEN]] + [[k.lower(), v] for k, v in dh.items()]
    out: list[dict] = []

    async def pair(tc, pname, a, b):
        (mna, fna), (mnb, fnb) = a, b
        ka, ea, oa = _conc_plan(fna, _hints(fna), 0)
        kb, eb, ob = _conc_plan(fnb, _hints(fnb), 40)
        state.update(gate=loop.create_future(), waiting=False, owner={})
        ta = loop.create_task(_call(getattr(tc, mna), ka, _nature(fna)))
        state["first"] = ta
        for _ in range(200):  # until the first call is parked inside the plug-in (or is over)
            if state["waiting"] or ta.done():
                break
            await asyncio.sleep(0)
        tb = loop.create_task(_call(getattr(tc, mnb), kb, _nature(fnb)))
        try:
            rb = await asyncio.wait_for(tb, 20)
        finally:
            if not state["gate"].done():
                state["gate"].set_result(None)
        ra = await asyncio.wait_for(ta, 20)
        for mn, kw, ex, om, res, task, role, partner in ((mna, ka, ea, oa, ra, ta, "suspended" if state["waiting"] else "not_suspended", mnb), (mnb, kb, eb, ob, rb, tb, "overtaking", mna)):
            out.append(
                {
                    "prop": pname,
                    "cls": type(tc).__name__,
                    "method": mn,
                    "mode": "concurrent",
                    "falsy": "",
                    "role": role,
                    "partner": partner,
                    "strip_headers": strip,
                    "args": {k: (ex[k] if ex[k] is not None else "__none__") for k in kw},
                    "omitted": om,
                    "requests": list(state["owner"].get(task, [])),
                    "outcome": res if res["kind"] == "raise" else {"kind": res["kind"]},
                }
            )

    stride = max(1, int(job.get("pair_stride", 1)))
    for pname in sorted(d["props"]):
        try:
            tc = getattr(client, pname)
        except Exception:  # noqa: BLE001
            continue
        ms = list(_methods(type(tc)).items())
        for i in range(0, len(ms), stride):
            loop.run_until_complete(pair(tc, pname, ms[i], ms[(i + 1) % len(ms)]))
    return out
