"""Static facts of an emitted package, extracted with `ast` (no import): the input of specs/PyImport.tla
(import protocol model) and of the C12 closure clause.  Stdlib only; safe to import anywhere."""

from __future__ import annotations

import ast
import builtins
from pathlib import Path
from typing import Any

BUILTINS = set(dir(builtins))


def module_name(root: Path, path: Path) -> str:
    rel = path.relative_to(root).with_suffix("")
    parts = list(rel.parts)
    if parts[-1] == "__init__":
        parts = parts[:-1]
    return ".".join(parts)


BEYOND_TOP = "<beyond-top-level-package>"


def resolve_from(mod: str, is_pkg: bool, level: int, target: str | None) -> str:
    if level == 0:
        return target or ""
    base = mod.split(".") if is_pkg else mod.split(".")[:-1]
    if level > len(base):
        # CPython: "attempted relative import beyond top-level package" - never resolves, whatever the name spells
        return BEYOND_TOP + "." + (target or "")
    if level > 1:
        base = base[: len(base) - (level - 1)]
    return ".".join(base + ([target] if target else []))


def _names_loaded(node: ast.AST) -> set[str]:
    out = set()
    for n in ast.walk(node):
        if isinstance(n, ast.Name) and isinstance(n.ctx, ast.Load):
            out.add(n.id)
    return out


def _is_type_checking(test: ast.AST) -> bool:
    return (isinstance(test, ast.Name) and test.id == "TYPE_CHECKING") or (isinstance(test, ast.Attribute) and test.attr == "TYPE_CHECKING")


class _Mod:
    def __init__(self, mod: str, is_pkg: bool, tree: ast.Module):
        self.mod, self.is_pkg = mod, is_pkg
        self.stmts: list[dict[str, Any]] = []
        self.all_imports: list[dict[str, Any]] = []
        self.future_ann = any(isinstance(s, ast.ImportFrom) and s.module == "__future__" and any(a.name == "annotations" for a in s.names) for s in tree.body)
        self.all_decl: list[str] = []
        self._body(tree.body, top=True)
        self._collect_all_imports(tree, "top", False)

    # every import statement at any depth (C12)
    def _collect_all_imports(self, node: ast.AST, depth: str, tc: bool, guarded: bool = False) -> None:
        for ch in ast.iter_child_nodes(node):
            d, t = depth, tc
            g = guarded
            if isinstance(node, ast.Try) and ch in node.body:
                for h in node.handlers:
                    names = {n.id for n in ast.walk(h.type) if isinstance(n, ast.Name)} if h.type is not None else {"BaseException"}
                    if names & {"ImportError", "ModuleNotFoundError", "Exception", "BaseException"}:
                        g = True
            if isinstance(ch, (ast.FunctionDef, ast.AsyncFunctionDef, ast.ClassDef)):
                d = "nested"
            if isinstance(ch, ast.If) and _is_type_checking(ch.test):
                for b in ch.body:
                    self._collect_all_imports(ast.Module(body=[b], type_ignores=[]), d, True, g)
                for b in ch.orelse:
                    self._collect_all_imports(ast.Module(body=[b], type_ignores=[]), d, t, g)
                continue
            if isinstance(ch, ast.Import):
                for a in ch.names:
                    self.all_imports.append({"m": self.mod, "target": a.name, "level": 0, "abs": a.name, "names": [], "depth": "typechecking" if t else d, "guarded": g})
            elif isinstance(ch, ast.ImportFrom):
                self.all_imports.append(
                    {
                        "m": self.mod,
                        "target": ch.module or "",
                        "level": ch.level,
                        "abs": resolve_from(self.mod, self.is_pkg, ch.level, ch.module),
                        "names": [a.name for a in ch.names],
                        "depth": "typechecking" if t else d,
                        "guarded": g,
                    }
                )
            self._collect_all_imports(ch, d, t, g)

    def _emit_use(self, names: set[str]) -> None:
        names = {n for n in names if n not in BUILTINS}
        if names:
            self.stmts.append({"k": "use", "t": "", "names": sorted(names), "binds": []})

    def _body(self, body: list[ast.stmt], top: bool) -> None:
        for s in body:
            if isinstance(s, ast.Import):
                for a in s.names:
                    self.stmts.append({"k": "import", "t": a.name, "names": [], "binds": [a.asname or a.name.split(".")[0]]})
            elif isinstance(s, ast.ImportFrom):
                if s.module == "__future__":
                    continue
                tgt = resolve_from(self.mod, self.is_pkg, s.level, s.module)
                if any(a.name == "*" for a in s.names):
                    self.stmts.append({"k": "star", "t": tgt, "names": [], "binds": []})
                else:
                    self.stmts.append({"k": "from", "t": tgt, "names": [a.name for a in s.names], "binds": [a.asname or a.name for a in s.names]})
            elif isinstance(s, ast.If):
                if _is_type_checking(s.test):
                    self._body(s.orelse, top)
                else:
                    self._emit_use(_names_loaded(s.test))
                    self._body(s.body, top)
                    self._body(s.orelse, top)
            elif isinstance(s, ast.Try):
                self._body(s.body, top)
                for h in s.handlers:
                    pass  # handlers only run on failure
                self._body(s.orelse, top)
                self._body(s.finalbody, top)
            elif isinstance(s, ast.ClassDef):
                used: set[str] = set()
                for b in s.bases:
                    used |= _names_loaded(b)
                for k in s.keywords:
                    used |= _names_loaded(k.value)
                for dco in s.decorator_list:
                    used |= _names_loaded(dco)
                local: set[str] = set()
                for cs in s.body:
                    if isinstance(cs, ast.AnnAssign):
                        if not self.future_ann:
                            used |= _names_loaded(cs.annotation) - local
                        if cs.value is not None:
                            used |= _names_loaded(cs.value) - local
                        if isinstance(cs.target, ast.Name):
                            local.add(cs.target.id)
                    elif isinstance(cs, ast.Assign):
                        used |= _names_loaded(cs.value) - local
                        for t in cs.targets:
                            if isinstance(t, ast.Name):
                                local.add(t.id)
                    elif isinstance(cs, (ast.FunctionDef, ast.AsyncFunctionDef)):
                        for dco in cs.decorator_list:
                            used |= _names_loaded(dco) - local
                        for dflt in list(cs.args.defaults) + [x for x in cs.args.kw_defaults if x is not None]:
                            used |= _names_loaded(dflt) - local
                        if not self.future_ann:
                            for a in cs.args.args + cs.args.kwonlyargs + cs.args.posonlyargs:
                                if a.annotation is not None:
                                    used |= _names_loaded(a.annotation) - local
                            if cs.returns is not None:
                                used |= _names_loaded(cs.returns) - local
                        local.add(cs.name)
                    elif isinstance(cs, ast.ClassDef):
                        local.add(cs.name)
                self._emit_use(used)
                self.stmts.append({"k": "bind", "t": "", "names": [], "binds": [s.name]})
            elif isinstance(s, (ast.FunctionDef, ast.AsyncFunctionDef)):
                used = set()
                for dco in s.decorator_list:
                    used |= _names_loaded(dco)
                for dflt in list(s.args.defaults) + [x for x in s.args.kw_defaults if x is not None]:
                    used |= _names_loaded(dflt)
                if not self.future_ann:
                    for a in s.args.args + s.args.kwonlyargs + s.args.posonlyargs:
                        if a.annotation is not None:
                            used |= _names_loaded(a.annotation)
                    if s.returns is not None:
                        used |= _names_loaded(s.returns)
                self._emit_use(used)
                self.stmts.append({"k": "bind", "t": "", "names": [], "binds": [s.name]})
            elif isinstance(s, ast.Assign):
                self._emit_use(_names_loaded(s.value))
                binds = []
                for t in s.targets:
                    for n in ast.walk(t):
                        if isinstance(n, ast.Name):
                            binds.append(n.id)
                if binds:
                    self.stmts.append({"k": "bind", "t": "", "names": [], "binds": binds})
                if any(isinstance(t, ast.Name) and t.id == "__all__" for t in s.targets):
                    try:
                        self.all_decl = [str(x) for x in ast.literal_eval(s.value)]
                    except Exception:  # noqa: BLE001
                        pass
            elif isinstance(s, ast.AnnAssign):
                used = set()
                if not self.future_ann:
                    used |= _names_loaded(s.annotation)
                if s.value is not None:
                    used |= _names_loaded(s.value)
                self._emit_use(used)
                if isinstance(s.target, ast.Name) and s.value is not None:
                    self.stmts.append({"k": "bind", "t": "", "names": [], "binds": [s.target.id]})
                    if s.target.id == "__all__":
                        try:
                            self.all_decl = [str(x) for x in ast.literal_eval(s.value)]
                        except Exception:  # noqa: BLE001
                            pass
            elif isinstance(s, ast.Expr):
                self._emit_use(_names_loaded(s.value))
            elif isinstance(s, (ast.With, ast.For, ast.While)):
                self._body(getattr(s, "body", []), top)


def package_facts(root: str | Path, pkgs: list[str]) -> dict[str, Any]:
    """Facts for the packages `pkgs` (dotted) under root: {mods: {name: {pkg, parent, stmts, all}}, imports: [...], syntax: [...]}"""
    root = Path(root)
    mods: dict[str, Any] = {}
    imports: list[dict[str, Any]] = []
    syntax: list[dict[str, Any]] = []
    files: list[Path] = []
    for pkg in pkgs:
        d = root.joinpath(*pkg.split("."))
        if d.exists():
            files += sorted(d.rglob("*.py"))
        # ancestor packages' __init__ files take part in the import protocol
        parts = pkg.split(".")
        for i in range(1, len(parts)):
            f = root.joinpath(*parts[:i]) / "__init__.py"
            if f.exists():
                files.append(f)
    seen = set()
    for f in files:
        if f in seen:
            continue
        seen.add(f)
        m = module_name(root, f)
        is_pkg = f.name == "__init__.py"
        try:
            tree = ast.parse(f.read_text())
        except SyntaxError as e:
            syntax.append({"file": str(f.relative_to(root)), "msg": e.msg, "line": e.lineno or 0})
            mods[m] = {"pkg": is_pkg, "parent": ".".join(m.split(".")[:-1]), "stmts": [], "all": [], "syntax_error": True}
            continue
        mm = _Mod(m, is_pkg, tree)
        mods[m] = {"pkg": is_pkg, "parent": ".".join(m.split(".")[:-1]), "stmts": mm.stmts, "all": mm.all_decl, "syntax_error": False}
        imports += mm.all_imports
    # externalise: imports whose target is not a module of the package become plain binds
    names = set(mods)
    for m, rec in mods.items():
        out = []
        for s in rec["stmts"]:
            if s["k"] in ("import", "from", "star") and s["t"] not in names:
                # a target inside the package tree that does not exist as a module is a real failure; outside = external
                inside = any(s["t"] == p or s["t"].startswith(p + ".") for p in pkgs)
                if inside:
                    out.append({"k": "missing", "t": s["t"], "names": s["names"], "binds": s["binds"]})
                else:
                    out.append({"k": "bind", "t": "", "names": [], "binds": s["binds"]})
            else:
                out.append(s)
        # merge adjacent binds
        merged: list[dict[str, Any]] = []
        for s in out:
            if s["k"] == "bind" and merged and merged[-1]["k"] == "bind":
                merged[-1] = {"k": "bind", "t": "", "names": [], "binds": merged[-1]["binds"] + s["binds"]}
            else:
                merged.append(s)
        out = merged
        rec["leaf"] = m.split(".")[-1]
        rec["stmts"] = out
    return {"mods": mods, "imports": imports, "syntax": syntax}
