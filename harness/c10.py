"""C10 - without force nothing is touched; writes stay contained.

GenRun.tla models ClientGenerator.generate over an abstract file system (stages, write-sets per mode, a fault at any
stage); TLC checks it exhaustively and emits one behaviour per (existing tree, force, core layout, cwd, post-processing,
fault stage).  Every behaviour is replayed with a REAL generation in a sentinel-seeded sandbox project under an audit
hook (faults injected part-way through the stage); Trace_GenRun.tla judges the recorded operations and the
before/after snapshot.
"""

from __future__ import annotations

import json

from . import core, features
from .core import Check, run_tlc, tla

LEVEL = "model_checking"

OUTCOME = {"C09.rerun_failed": "C10.match_raised", "C09.diff_missed": "C10.difference_accepted"}
LAYOUT = {"embedded": ("acme.client", None), "sibling": ("acme.api.client", "acme.api.core"), "toplevel": ("client", "sharedcore"),
          # concrete variants of the model's external-core layouts with PREFIX-related package names (the core's name is a string prefix
          # of the client's, and the other way round)
          "toplevel:core_prefixes_client": ("acme_billing", "acme"), "toplevel:client_prefixes_core": ("acme", "acme_core"),
          "sibling:core_prefixes_client": ("shop.api_client", "shop.api")}


def model_behaviours(chk: Check, existing, cores, cwds, pps) -> list[dict]:
    cfg = f"""SPECIFICATION MCSpec
CONSTANTS
 Existing = {tla(set(existing))}
 Cores = {tla(set(cores))}
 Cwds = {tla(set(cwds))}
 PostFlags = {tla(set(pps))}
INVARIANT TypeOK
CHECK_DEADLOCK FALSE
"""
    r = run_tlc(chk.scratch, "MC_GenRun", cfg, workers=8, coverage=True)
    chk.add_tlc("MC_GenRun", r)
    for act in ("MCNext", "Emit"):
        chk.require(r.coverage.get(act, (0, 0))[1] > 0, f"vacuous GenRun design run: action {act} never taken")
    beh = r.printed.get("SCEN", [])
    chk.require(len(beh) > 0, "MC_GenRun emitted no behaviour")
    beh.sort(key=lambda b: json.dumps(b["sc"], sort_keys=True))
    return beh


def run_real(chk: Check, behaviours: list[dict], label: str, spec: dict | None = None) -> list[dict]:
    spec = spec or features.build(["many_errors", "enum_top", "inline_object"])
    base = chk.scratch.sub("genrun_" + label)
    jobs = []
    for i, b in enumerate(behaviours):
        sc = b["sc"]
        pkg, corep = LAYOUT[b.get("layout") or sc["core"]]
        job = {"id": f"{label}{i}", "base": str(base), "spec": b.get("spec") or spec, "pkg": pkg, "core": corep, "existing": b.get("variant") or sc["existing"], "force": sc["force"], "pp": sc["pp"], "cwd": sc["cwd"], "fault": sc["fault"]}
        if b.get("spec_old"):
            job["spec_old"] = b["spec_old"]
        if b.get("docname"):
            job["docname"] = b["docname"]
        if b.get("tmpdir"):
            job["tmpdir"] = b["tmpdir"]
        if b.get("layout"):
            job["layout"] = b["layout"]
        jobs.append(job)
    res = core.parallel_py(chk.scratch, "harness.w_genrun", jobs, timeout=1500)
    traces = []
    for b, j, r in zip(behaviours, jobs, res):
        if "setup_failed" in r:
            raise core.MachineryError(f"sandbox setup generation failed: {r['setup_failed']}")
        def head(e):
            return e["path"].split("/")[0] if e["cls"] == "rootOther" else ""

        ev = [{"k": "op", "op": e["op"], "cls": e["cls"], "stage": e["stage"], "head": head(e)} for e in r["events"] if e["k"] == "op"]
        ev += [{"k": "delta", "kind": e["kind"], "cls": e["cls"], "stage": "snapshot", "head": head(e)} for e in r["delta"]]
        # compress: identical events carry no extra information for the judge
        seen, cev = set(), []
        for e in ev:
            k = json.dumps(e, sort_keys=True)
            if k not in seen:
                seen.add(k)
                cev.append(e)
        traces.append({"id": j["id"], "sc": b["sc"], "result": r["result"], "fault_fired": bool(r["fault_fired"]), "ev": cev, "expect": {"result": b["result"], "viol": sorted(b["viol"])}, "_raw": r, "_job": j, "_big": bool(b.get("spec"))})
    return traces


def judge(chk: Check, traces: list[dict], label: str, clauses: tuple[str, ...], rename: dict[str, str] | None = None) -> None:
    d = chk.scratch.sub("genrun_traces")
    tf = d / "traces.ndjson"
    with tf.open("w") as f:
        for t in traces:
            f.write(json.dumps({k: v for k, v in t.items() if not k.startswith("_")}) + "\n")
    r = run_tlc(chk.scratch, "Trace_GenRun", "SPECIFICATION Spec\nCHECK_DEADLOCK FALSE\n", workers=8, env={"TRACE_FILE": str(tf)})
    chk.add_tlc(f"Trace_GenRun[{label}]", r)
    vs = r.printed.get("VERDICT", [])
    chk.require(len(vs) == len(traces), f"Trace_GenRun produced {len(vs)} verdicts for {len(traces)} traces")
    chk.cov["traces_validated_against_impl"] += len(traces)
    chk.count(len(traces))
    by_id = {t["id"]: t for t in traces}
    nd = 0
    for v in vs:
        t = by_id[v["id"]]
        chk.nontrivial({"sc": t["sc"]})
        chk.clause("operations_judged", v["nev"])
        if t["sc"]["fault"] != "none" and t["fault_fired"]:
            chk.clause("faults_fired", 1)
        if not v["conforms"] and (t["sc"]["fault"] == "none" or t["fault_fired"]):
            nd += 1
            if nd <= 3:
                chk.note_drift(f"run result {t['result']} but GenRun.tla expects {t['expect']['result']} for {json.dumps(t['sc'])} ({t['_raw'].get('err', '')[:100]})")
        for f in v["fails"]:
            if not f["clause"].startswith(clauses):
                continue
            f = dict(f, clause=(rename or {}).get(f["clause"], f["clause"]))
            loc = dict(f["locus"])
            loc["pp"] = t["sc"]["pp"]
            loc["cwd"] = t["sc"]["cwd"]
            examples = [e for e in t["_raw"]["events"] if e.get("cls") == loc.get("cls")][:2] + [e for e in t["_raw"]["delta"] if e.get("cls") == loc.get("cls")][:2]
            if t["_job"]["existing"] != t["sc"]["existing"]:
                loc["variant"] = t["_job"]["existing"]
            if t.get("_big"):
                loc["big"] = True
            if t["_job"].get("tmpdir"):
                loc["tmpdir"] = t["_job"]["tmpdir"]
            if t["_job"].get("layout"):
                loc["layout"] = t["_job"]["layout"]
            if t["_job"].get("docname"):
                loc["doc"] = t["_job"]["docname"]   # a catalogue document (one feature), not the default document of the tree variants
            chk.fail(f["clause"], loc, {"sc": t["sc"], "variant": t["_job"]["existing"], "big": bool(t.get("_big")), "docname": t["_job"].get("docname", ""), "tmpdir": t["_job"].get("tmpdir", ""), "layout": t["_job"].get("layout", "")}, json.dumps(examples)[:400] + " err=" + t["_raw"].get("err", "")[:120])
    if nd > 3:
        chk.note_drift(f"{nd} runs in total whose result differs from the model's")
    t = traces[len(traces) // 2]
    chk.sample({"scenario": t["sc"], "result": t["result"], "events_head": t["ev"][:5], "model_expects": t["expect"]})


def run(chk: Check) -> None:
    thorough = chk.tier == "thorough"
    chk.cov["rule"] = (
        "TLC enumerates GenRun behaviours: existing tree {absent,equal,different,partial} x force x core layout {embedded,sibling,toplevel} "
        "x cwd {root,elsewhere} x post-processing x fault at each of 12 stages (or none); each behaviour is one real generation in a sandbox "
        "project with sentinels; non-trivial = distinct scenario; quick runs post-processing only with fault in {none,postprocess,diff}"
    )
    chk.assumptions += [
        "file-system effects are observed with sys.addaudithook (in-process) and before/after snapshots (sub-processes such as ruff)",
        "faults are injected by raising from the audit hook on the 2nd write of the stage, or at entry for stages that write nothing",
        "paths outside the project root (the generator's TemporaryDirectory, TMPDIR) are not judged; creating the directories of the package path counts as allowed",
    ]
    beh = model_behaviours(chk, ["absent", "equal", "different", "partial"], ["embedded", "sibling", "toplevel"], ["root", "elsewhere"], [False, True])
    chk.cov["model_behaviours"] = len(beh)
    chk.cov["model_violations"] = sorted({v for b in beh for v in b["viol"]})
    if not thorough:
        beh = [b for b in beh if (not b["sc"]["pp"]) or b["sc"]["fault"] in ("none", "postprocess", "diff")]
        beh = [b for b in beh if not (b["sc"]["pp"] and b["sc"]["core"] == "toplevel" and b["sc"]["cwd"] == "elsewhere")]
    # concrete variants of the model's `partial` existing tree (what is missing matters to the code, not to the model)
    extra = []
    for b in beh:
        sc = b["sc"]
        if sc["existing"] == "partial" and sc["fault"] == "none" and not sc["pp"]:
            for variant in ("missing:root_init", "missing:models_init", "missing:client", "emptied"):
                extra.append(dict(b, variant=variant))
            # package markers on the chain of the core / of the ancestors: a run without force must not (re)create them either
            if sc["core"] != "embedded":
                extra.append(dict(b, variant="missing:core_init"))
        if sc["existing"] == "equal" and sc["fault"] == "none" and not sc["pp"] and sc["cwd"] == "elsewhere":
            extra.append(dict(b, variant="userfile"))
            # an up-to-date tree whose top-level ancestor package lost its marker (a namespace package the user keeps that way):
            # nothing the comparison looks at differs
            extra.append(dict(b, variant="missing:ancestor_init"))
    # prefix-related package names for the external-core layouts (every non-force behaviour over an existing tree, and the plain writes)
    for b in list(beh):
        sc = b["sc"]
        if sc["fault"] == "none" and not sc["pp"] and sc["cwd"] == "elsewhere" and sc["core"] in ("toplevel", "sibling"):
            for lay in [k for k in LAYOUT if k.startswith(sc["core"] + ":")]:
                extra.append(dict(b, layout=lay))
    # the ENVIRONMENT of the run: every non-force behaviour over an existing tree once more with the temporary directory below a
    # dot-directory and once with a blank / non-ASCII path (the comparison tree lives there)
    for b in list(beh):
        sc = b["sc"]
        if not sc["force"] and sc["existing"] != "absent" and sc["fault"] == "none" and not sc["pp"] and sc["cwd"] == "elsewhere":
            for td in ("hidden", "spaced") if thorough or sc["core"] == "embedded" else ("hidden",):
                extra.append(dict(b, tmpdir=td))
    # one large document (> 200 emitted .py files) for post-processed writing runs: tools that switch strategy on size
    big = big_document(230)
    for b in beh:
        sc = b["sc"]
        if sc["pp"] and sc["fault"] == "none" and sc["cwd"] == "elsewhere" and sc["existing"] in ("absent", "equal") and (sc["force"] or sc["existing"] == "absent") and sc["core"] != "toplevel":
            if thorough or (sc["existing"] == "absent" and sc["force"]):
                extra.append(dict(b, spec=big))
    traces = run_real(chk, beh + extra, "r")
    # the outcome half of the property ("on a match it succeeds, on a difference ... it raises") is what Trace_GenRun reports as
    # C09.rerun_failed / C09.diff_missed: judged here too, under C10's own clause names
    judge(chk, traces, "behaviours", ("C10.", "C09.rerun_failed", "C09.diff_missed"), rename=OUTCOME)
    chk.require(chk.cov["clauses_checked"].get("faults_fired", 0) > 50, "fault injection hardly ever fired")
    chk.cov["exhaustive"] = True


def big_document(n: int) -> dict:
    d = features.build(["many_errors"])
    for i in range(n):
        d["components"]["schemas"][f"Bulk{i:03d}"] = features.obj({"v": {"type": "string"}, "n": {"type": "integer"}})
    return d


def replay(chk: Check, path: str) -> None:
    rec = json.loads(open(path).read())
    sc = rec["scenario"]["sc"]
    b = {"sc": sc, "result": "?", "viol": []}
    if rec["scenario"].get("variant") and rec["scenario"]["variant"] != sc["existing"]:
        b["variant"] = rec["scenario"]["variant"]
    if rec["scenario"].get("tmpdir"):
        b["tmpdir"] = rec["scenario"]["tmpdir"]
    if rec["scenario"].get("layout"):
        b["layout"] = rec["scenario"]["layout"]
    if rec["scenario"].get("docname"):
        b["docname"] = rec["scenario"]["docname"]
        b["spec"] = features.build([b["docname"]])
    if rec["scenario"].get("big"):
        b["spec"] = big_document(230)
    traces = run_real(chk, [b], "replay")
    judge(chk, traces, "replay", ("C10.", "C09."), rename=OUTCOME if chk.prop == "C10" else None)
    for f in chk.fails:
        print("REPLAY-FAIL", f["clause"], json.dumps(f["locus"]), f["detail"][:300])
