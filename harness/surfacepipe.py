"""Shared pipeline of C07 / C13: Gen_Surface (TLC) documents -> real generation (w_gen, force path) -> observation in a
generator-less interpreter (`surface`, `wire`, `mockcall` of obs_wire + `surfacex` of obs_surface_extra) -> one
recorded surface per document -> Trace_Surface (TLC) verdicts; plus the MC_Surface design runs.

Nothing here derives a name with the sanitisers under test: methods are identified with operations by the request
they SEND (HTTP method + path template match), tag clients with tag classes by the lower-case alphanumerics of the
property name (plain string operations), Protocols / mocks with clients through the class statement
(`class X(XProtocol)`) and the MockAPIClient property of the same name.
"""

from __future__ import annotations

import copy
import json
import keyword
import re
from collections import Counter
from typing import Any

import yaml

from . import core
from .core import Check, run_tlc, tla

OBS_ENV = {"VERIF_OBS_EXTRA": "harness.obs_wire,harness.obs_surface_extra"}
CHUNK = 3000

C07_CLAUSES = ["C07.op_unreachable", "C07.op_duplicated", "C07.ops_collapsed", "C07.client_unreachable", "C07.name_invalid", "C07.name_strategy", "C07.silent_drop"]
C13_CLAUSES = ["C13.mock_class_missing", "C13.method_missing", "C13.signature_differs", "C13.nature", "C13.mock_does_not_raise", "C13.apiclient_property_missing", "C13.protocol_unsatisfied"]
DESIGN_ACTIONS = ["GroupEndpoints", "GroupClient", "GroupMocks", "Judge"]


def fold(s: str) -> str:
    """Lower-case alphanumerics (ASCII) - the harness's own tag / name folding."""
    return "".join(ch for ch in s.lower() if ch in "abcdefghijklmnopqrstuvwxyz0123456789")


# ---------------------------------------------------------------------------------------------
# TLC: family and design runs


def family(chk: Check, tier: str) -> list[dict]:
    cfg = f"SPECIFICATION Spec\nCONSTANTS\n Tier = {tla(tier)}\nINVARIANT FamilyOK\nCHECK_DEADLOCK FALSE\n"
    r = run_tlc(chk.scratch, "Gen_Surface", cfg, timeout=900)
    chk.add_tlc(f"Gen_Surface[{tier}]", r)
    docs = r.printed.get("SCEN", [])
    chk.require(len(docs) > 0, "Gen_Surface emitted no document")
    chk.require(len({d["id"] for d in docs}) == len(docs), "Gen_Surface emitted a document id twice")
    for d in docs:
        for op in d["ops"]:
            chk.require([fold(t) for t in op["tags"]] == list(op["keys"]), f"Surface!FoldTable disagrees with the harness fold on {op['tags']}")
    docs.sort(key=lambda d: d["id"])
    return docs


class SubScratch:
    """A private numbering space inside the check's scratch directory for TLC runs started from a helper thread."""

    def __init__(self, chk: Check, name: str):
        self.path = chk.scratch.path / name
        self.path.mkdir(parents=True, exist_ok=True)
        self._n = 0

    def sub(self, name: str):
        self._n += 1
        p = self.path / f"{self._n:03d}_{name}"
        p.mkdir(parents=True)
        return p


def design_cfg(variant: str, maxops: int, invariants: list[str]) -> str:
    inv = "".join(f"INVARIANT {i}\n" for i in invariants)
    return f"SPECIFICATION Spec\nCONSTANTS\n Variant = {tla(variant)}\n MaxOps = {maxops}\n{inv}CHECK_DEADLOCK FALSE\n"


def design_runs(sub: SubScratch, tier: str) -> list[tuple[str, core.TlcResult, str]]:
    """as_is: all tag assignments of <= 3 operations with the invariants the code's design does satisfy + coverage;
    fixed: the reference meaning as real invariants (quick: <= 2 operations)."""
    a = run_tlc(sub, "MC_Surface", design_cfg("as_is", 3, ["TypeOK", "ExactlyOncePerClass"]), coverage=True, allow_violation=True, workers=6, timeout=600)
    f = run_tlc(sub, "MC_Surface", design_cfg("fixed", 3 if tier == "thorough" else 2, ["TypeOK", "ExactlyOncePerClass", "ClientsReachable", "MockParity", "NoDeviation"]), allow_violation=True, workers=4, timeout=600)
    return [("MC_Surface[as_is,3,coverage]", a, "as_is"), (f"MC_Surface[fixed,{3 if tier == 'thorough' else 2}]", f, "fixed")]


def account_design(chk: Check, prop: str, runs: list[tuple[str, core.TlcResult, str]]) -> None:
    """Design deviations of the as-is model are findings of the DESIGN: each must be listed (same clause + locus as the
    monitor produces), and the counterexample relation the property is about must actually be exhibited."""
    findings = [f for f in core.load_findings() if f.get("property") == prop]
    for name, r, variant in runs:
        chk.add_tlc(name, r)
        chk.require(r.distinct > 0, f"{name} explored nothing")
        if r.violated:
            chk.fail(f"{prop}.design_invariant", {"invariant": r.violated[0], "variant": variant}, {"run": name}, r.out[-1500:])
            continue
        if variant != "as_is":
            continue
        for a in DESIGN_ACTIONS:
            chk.require(r.coverage.get(a, (0, 0))[1] > 0, f"vacuous design run: action {a} never taken")
        dev: Counter = Counter()
        for d in r.printed.get("DESIGN", []):
            for f in d["fails"]:
                dev[json.dumps([f["clause"], f["locus"]], sort_keys=True)] += 1
        rows = []
        for k, n in sorted(dev.items()):
            clause, locus = json.loads(k)
            own = clause.startswith(prop + ".")
            hit = next((e["id"] for e in findings if core._match(e, clause, locus)), "") if own else ""
            rows.append({"clause": clause, "locus": locus, "tag_assignments": n, "finding": hit})
            if own and not hit:
                chk.fail(clause, locus, {"design_model": "MC_Surface as_is", "tag_assignments": n}, "the model of the grouping rules as the code has them deviates from the reference meaning and no finding lists it")
        chk.cov["design_deviations"] = rows
        chk.cov["design_tag_assignments"] = len(r.printed.get("DESIGN", []))
        have = {(x["clause"], json.dumps(x["locus"], sort_keys=True)) for x in rows}
        if prop == "C13":
            want = [("C13.mock_class_missing", {"tagpos": 2, "variants": False}), ("C13.apiclient_property_missing", {"side": "mock", "tagpos": 2, "variants": False}), ("C13.method_missing", {"side": "mock", "tagpos": 2, "variants": False})]
            chk.require(any(x["clause"] == "C01.mock_client_syntax" and x["locus"]["clients"] == 1 and x["locus"]["args"] == 3 for x in rows), "design run did not exhibit: spelling variants fold to one client but three mock arguments")
        else:
            want = [("C07.client_unreachable", {"shadowed_by": "request", "class_emitted": True})]
        for c, l in want:
            chk.require((c, json.dumps(l, sort_keys=True)) in have, f"design run did not exhibit the counterexample {c} {l}")


# ---------------------------------------------------------------------------------------------
# concretiser: abstract document -> OpenAPI (dict, or YAML text written here so that `200:` is an int key)

COMPONENTS = {
    "R": {"type": "object", "properties": {"x": {"type": "string"}, "n": {"type": "integer"}}},
    # every multi-content operation has its own JSON body model (M<oid>)
    **{f"M{i}": {"type": "object", "properties": {"a": {"type": "string"}, f"field_{i}": {"type": "integer"}}, "required": ["a"]} for i in range(1, 9)},
    "UploadM": {"type": "object", "properties": {"file": {"type": "string", "format": "binary"}}},
}


def _ref(n: str) -> dict:
    return {"$ref": "#/components/schemas/" + n}


def _q(name: str, typ: str = "string", required: bool = False, where: str = "query") -> dict:
    return {"name": name, "in": where, "required": required, "schema": {"type": typ}}


def operation_node(op: dict) -> dict:
    node: dict[str, Any] = {}
    if op["opid"]:
        node["operationId"] = op["opid"]
    if op["tags"]:
        node["tags"] = list(op["tags"])
    params = []
    if "{id}" in op["path"]:
        params.append({"name": "id", "in": "path", "required": True, "schema": {"type": "integer"}})
    kind = op["kind"]
    resp: dict[str, Any] = {"description": "ok", "content": {"application/json": {"schema": _ref("R")}}}
    if kind == "multi":
        node["requestBody"] = {"required": True, "content": {"application/json": {"schema": _ref(f"M{op['oid']}")}, "multipart/form-data": {"schema": _ref("UploadM")}}}
    elif kind == "sse":
        resp = {"description": "events", "content": {"text/event-stream": {"schema": _ref("R")}}}
    elif kind == "ndjson":
        resp = {"description": "lines", "content": {"application/x-ndjson": {"schema": _ref("R")}}}
    elif kind == "octet":
        resp = {"description": "bytes", "content": {"application/octet-stream": {"schema": {"type": "string", "format": "binary"}}}}
    elif kind == "manyopt":
        params += [_q("limit", "integer"), _q("offset", "integer"), _q("sort"), _q("order"), _q("q"), _q("verbose", "boolean")]
    elif kind == "longsig":
        params += [
            _q("required_filter_expression_for_the_listing", required=True),
            _q("include_soft_deleted_records_in_the_result", "boolean"),
            _q("maximum_number_of_records_per_page", "integer"),
            _q("continuation_token_from_previous_page"),
            _q("X-Correlation-Identifier-For-Tracing", where="header"),
            _q("X-Tenant-Organisation-Identifier", where="header"),
            _q("created_after_timestamp_inclusive"),
            _q("created_before_timestamp_exclusive"),
        ]
    if params:
        node["parameters"] = params
    node["responses"] = {"200": resp}
    if kind == "mixed":  # the primary response is JSON; a secondary success response streams
        node["responses"]["206"] = {"description": "partial raw download", "content": {"application/octet-stream": {"schema": {"type": "string", "format": "binary"}}}}
    return node


ERR = {"description": "error", "content": {"application/json": {"schema": {"$ref": "#/components/schemas/R"}}}}
SHARED = {
    "responses": {"Ok": {"description": "ok", "content": {"application/json": {"schema": {"$ref": "#/components/schemas/R"}}}}, "NotFound": {"description": "missing"}},
    "parameters": {"PageSize": {"name": "page_size", "in": "query", "required": False, "schema": {"type": "integer"}}},
    "requestBodies": {"ThingBody": {"required": True, "content": {"application/json": {"schema": {"$ref": "#/components/schemas/M1"}}}}},
}


WORDS = ["Organization", "Project", "Deployment", "Telemetry", "Snapshot", "Record", "Envelope"]


def long_name(length: int, style: str, seed: str) -> str:
    """A name of exactly `length` characters: PascalCase (models) or snake_case (parameters)."""
    sep = "_" if style == "snake" else ""
    s = "Long" + seed
    i = 0
    while len(s) < length:
        s += sep + WORDS[i % len(WORDS)]
        i += 1
    s = s[:length].rstrip("_")
    s += "x" * (length - len(s))
    return s.lower() if style == "snake" else s


def _replace_refs(v: Any, mapping: dict[str, str]) -> Any:
    if isinstance(v, dict):
        return {k: (mapping.get(x, x) if k == "$ref" and isinstance(x, str) else _replace_refs(x, mapping)) for k, x in v.items()}
    if isinstance(v, list):
        return [_replace_refs(x, mapping) for x in v]
    return v


def decorate(node: dict, item: dict, op: dict, deco: str, schemas: dict) -> None:
    """One unusual-but-valid construct added to an operation (names = Gen_Surface!Decos).  `item` is the path item."""
    if deco.startswith("long_model_"):
        # every model this operation's signature mentions (return type, request body) gets a name of the given length
        length = int(deco.rsplit("_", 1)[1])
        mapping = {}
        for base in ["R", f"M{op['oid']}"]:
            name = long_name(length, "pascal", base)
            schemas[name] = copy.deepcopy(schemas[base])
            mapping["#/components/schemas/" + base] = "#/components/schemas/" + name
        for k in ("responses", "requestBody"):
            if k in node:
                node[k] = _replace_refs(node[k], mapping)
        return
    if deco.startswith("long_param_"):
        length = int(deco.rsplit("_", 1)[1])
        node.setdefault("parameters", []).append({"name": long_name(length, "snake", "filter"), "in": "query", "required": False, "schema": {"type": "string"}})
        return
    if deco == "inline_response":
        # the item schema is declared inline: the loader promotes it to <OperationId><status>Response
        inline = {"type": "object", "properties": {"x": {"type": "string"}, "n": {"type": "integer"}}}
        node["responses"] = _replace_refs(node["responses"], {})
        for r in node["responses"].values():
            for media in (r.get("content") or {}).values():
                if media.get("schema") == {"$ref": "#/components/schemas/R"}:
                    media["schema"] = copy.deepcopy(inline)
        return
    # (two decorations on one operation may both rewrite the response table: the second one works on whatever is primary by then)
    ok = node["responses"].get("200") or next(iter(node["responses"].values()))
    if deco == "resp_default_only":
        node["responses"] = {"default": ok}
    elif deco == "resp_wild_upper":
        node["responses"].update({"4XX": copy.deepcopy(ERR), "5XX": {"description": "server error"}})
    elif deco == "resp_wild_lower":
        node["responses"].update({"4xx": copy.deepcopy(ERR), "5xx": {"description": "server error"}})
    elif deco == "resp_2XX_primary":
        node["responses"] = {"2XX": ok, "404": {"description": "missing"}}
    elif deco == "resp_multi_status":
        node["responses"].update({"201": copy.deepcopy(ok), "404": copy.deepcopy(ERR), "500": {"description": "boom"}})
    elif deco == "resp_no_content":
        node["responses"] = {"204": {"description": "nothing"}}
    elif deco == "resp_desc_only":
        node["responses"] = {"200": {"description": "ok, no content declared"}}
    elif deco == "resp_ref":
        node["responses"] = {"200": {"$ref": "#/components/responses/Ok"}, "404": {"$ref": "#/components/responses/NotFound"}}
    elif deco == "resp_default_plus":
        node["responses"]["default"] = copy.deepcopy(ERR)
    elif deco == "param_ref":
        node.setdefault("parameters", []).append({"$ref": "#/components/parameters/PageSize"})
    elif deco == "body_ref":
        if op["method"].upper() in ("POST", "PUT", "PATCH") and "requestBody" not in node:
            node["requestBody"] = {"$ref": "#/components/requestBodies/ThingBody"}
    elif deco == "pathlevel_keys":
        item.setdefault("summary", "things")
        item.setdefault("description", "a path item with its own keys next to the methods")
        item.setdefault("servers", [{"url": "https://alt.srv.test"}])
        item.setdefault("parameters", [{"name": "trace_id", "in": "query", "required": False, "schema": {"type": "string"}}])
    elif deco == "ext_deprecated":
        node.update({"deprecated": True, "x-internal-id": "abc", "x-codegen": {"group": "g", "weight": 3}, "summary": "s", "description": "d", "externalDocs": {"url": "https://docs.srv.test/x"}})
    elif deco == "op_misc":
        node.update({"servers": [{"url": "https://alt.srv.test"}], "security": []})
        node.setdefault("parameters", [])
    else:
        raise core.MachineryError(f"unknown decoration {deco}")


def document(doc: dict) -> dict:
    paths: dict[str, Any] = {}
    schemas = copy.deepcopy(COMPONENTS)
    for op in doc["ops"]:
        item = paths.setdefault(op["path"], {})
        node = operation_node(op)
        for deco in op.get("decos", []):
            decorate(node, item, op, deco, schemas)
        item[op["method"].lower()] = node
    return {"openapi": "3.0.3", "info": {"title": "Surface", "version": "1.0.0"}, "paths": paths, "components": {"schemas": schemas, **copy.deepcopy(SHARED)}}


def _scalar(v: Any) -> str:
    return json.dumps(v)


def yaml_text(v: Any, indent: int = 0, bare: bool = False, under_responses: bool = False) -> str:
    """Block-style YAML with JSON-quoted scalars; the status keys of a `responses` object are written bare when asked."""
    pad = " " * indent
    out = []
    if isinstance(v, dict):
        for k, x in v.items():
            key = k if (bare and under_responses and k.isdigit()) else json.dumps(k)
            if isinstance(x, (dict, list)) and x:
                out.append(f"{pad}{key}:")
                out.append(yaml_text(x, indent + 2, bare, k == "responses"))
            elif isinstance(x, (dict, list)):
                out.append(f"{pad}{key}: " + ("{}" if isinstance(x, dict) else "[]"))
            else:
                out.append(f"{pad}{key}: {_scalar(x)}")
    elif isinstance(v, list):
        for x in v:
            if isinstance(x, (dict, list)) and x:
                out.append(f"{pad}-")
                out.append(yaml_text(x, indent + 2, bare, False))
            else:
                out.append(f"{pad}- {_scalar(x)}")
    return "\n".join(out)


def _int_status(d: Any, under: bool = False) -> Any:
    if isinstance(d, dict):
        return {(int(k) if under and k.isdigit() else k): _int_status(x, k == "responses") for k, x in d.items()}
    if isinstance(d, list):
        return [_int_status(x) for x in d]
    return d


def render(chk: Check, doc: dict) -> dict:
    """-> the w_gen job fields for this document's rendering."""
    d = document(doc)
    if doc["rendering"] == "json":
        return {"spec": d}
    bare = doc["rendering"] == "yamlbare"
    text = yaml_text(d, 0, bare) + "\n"
    back = yaml.safe_load(text)
    chk.require(back == (_int_status(d) if bare else d), f"the YAML rendering of {doc['id']} does not mean the document")
    return {"spec_text": text, "ext": "yaml"}


# ---------------------------------------------------------------------------------------------
# generation + observation


def generate_and_observe(chk: Check, docs: list[dict], label: str) -> list[dict]:
    root = chk.scratch.sub("gen_" + label)
    jobs = []
    for j, doc in enumerate(docs):
        job = {"id": doc["id"], "root": str(root), "pkg": f"s{label}{j}", "core": None, "force": True, "nopp": True, "strategy": doc["strategy"]}
        job.update(render(chk, doc))
        jobs.append(job)
    gres = core.parallel_py(chk.scratch, "harness.w_gen", jobs)
    ojobs = [{"id": j["id"], "root": j["root"], "pkg": j["pkg"], "core": None, "want": ["surfacex", "surface", "wire", "wirex", "mockcall"], "max_plans": 3} for j, g in zip(jobs, gres) if g["ok"]]
    ores = {r["id"]: r for r in core.parallel_py(chk.scratch, "harness.w_obs", ojobs, env=OBS_ENV)} if ojobs else {}
    return [{"doc": d, "job": j, "gen": g, "obs": ores.get(j["id"])} for d, j, g in zip(docs, jobs, gres)]


# ---------------------------------------------------------------------------------------------
# observation -> recorded surface


def template_match(template: str, path: str) -> bool:
    a = template.strip("/").split("/")
    b = path.strip("/").split("/")
    return len(a) == len(b) and all((x.startswith("{") and x.endswith("}") and y != "") or x == y for x, y in zip(a, b))


def wclass(msg: str) -> str:
    """Normalised reason of a `Skipping operation parsing for METHOD PATH: reason` warning."""
    reason = msg.split(": ", 1)[1] if ": " in msg else msg
    if "code must be a string" in reason:
        return "status_key_not_str"
    return re.sub(r"'[^']*'", "'*'", re.sub(r"\d+", "N", reason)).strip()[:60]


def warnings_for(op: dict, warnings: list[str]) -> list[str]:
    needle = f"{op['method'].upper()} {op['path']}:"
    return [w for w in warnings if needle in w]


def strip_digits_suffix(nf: str, stem: str) -> str:
    if nf == stem:
        return "equal"
    if stem and nf.startswith(stem) and nf[len(stem) :].isdigit():
        return "suffix"
    return "other"


def fastapi_prefix(opid: str, method: str, path: str) -> str | None:
    """The handler name of a FastAPI-generated operationId, by the reference definition: name + path with every
    non-word character replaced by `_` (FastAPI's own rule) - or with the runs of `_` collapsed (the form the project's
    documentation uses) - + `_` + method."""
    low = opid.lower()
    suf = "_" + method.lower()
    if not low.endswith(suf):
        return None
    w = opid[: -len(suf)]
    raw = re.sub(r"[^0-9a-zA-Z_]", "_", path)  # "/items/{id}" -> "_items__id_"
    collapsed = "_" + "_".join(x for x in re.split(r"[^0-9a-zA-Z]+", path) if x)  # -> "_items_id"
    for cand in (raw, collapsed):
        if cand.strip("_") and w.lower().endswith(cand.lower()) and len(w) > len(cand):
            return w[: -len(cand)]
    return None


def expected_stem(op: dict, strategy: str) -> str:
    mp = fold(op["method"] + op["path"])
    if strategy == "path" or not op["opid"]:
        return mp
    if strategy == "clean":
        pre = fastapi_prefix(op["opid"], op["method"], op["path"])
        if pre:
            return fold(pre)
    return fold(op["opid"])


def name_relation(name: str, op: dict, strategy: str) -> tuple[str, str]:
    nf = fold(name)
    rel = strip_digits_suffix(nf, expected_stem(op, strategy))
    if rel != "other":
        return rel, ""
    if op["opid"] and strip_digits_suffix(nf, fold(op["opid"])) != "other":
        return rel, "operation_id_verbatim"
    if strip_digits_suffix(nf, fold(op["method"] + op["path"])) != "other":
        return rel, "method_and_path"
    return rel, "unrelated"


def _nature_ast(defs: list[dict]) -> str:
    if not defs:
        return "na"
    d = defs[-1]
    if d["async"] and d["yields"]:
        return "agen"
    return "coro" if d["async"] else "plain"


def _side(defs: list[dict], rt: dict | None) -> dict:
    """One side of a method: its `def`s in source order - an exact textual repetition of a def (the code emits an
    operation twice into a class when two of its tags fold to the same class) is ONE def - and its runtime signature."""
    uniq: list[dict] = []
    for d in defs:
        if not any(d["h"] == u["h"] for u in uniq):
            uniq.append(d)
    defs = uniq
    return {
        "has": bool(defs) or rt is not None,
        "nat": (rt or {}).get("nature") or _nature_ast(defs),
        "iter": (defs[-1]["ret"] if defs else (rt or {}).get("ret", "")).replace("typing.", "").startswith("AsyncIterator"),
        "defs": [{"over": bool(d["over"]), "ret": d["ret"], "params": d["params"]} for d in defs],
        "rt": {"has": rt is not None, "ret": (rt or {}).get("ret", ""), "params": (rt or {}).get("sig", [])},
    }


def _public(defs: list[dict]) -> list[str]:
    seen = []
    for d in defs:
        if not d["name"].startswith("_") and d["name"] not in seen:
            seen.append(d["name"])
    return seen


def build_trace(doc: dict, gen: dict, obs: dict | None) -> tuple[dict, dict]:
    """-> (recorded surface for the monitor, notes for the harness: unmatched requests, skipped reasons)."""
    notes: dict[str, Any] = {"unmatched": [], "mock_error": "", "import_error": ""}
    ops = []
    for op in doc["ops"]:
        ws = warnings_for(op, gen.get("warnings") or [])
        ops.append({**op, "warned": bool(ws), "wclass": wclass(ws[0]) if ws else "", "hasparam": "{" in op["path"]})
    t: dict[str, Any] = {"id": doc["id"], "status": "ok", "strategy": doc["strategy"], "rendering": doc["rendering"], "ops": ops, "apiattrs": [], "apiprops": [], "mockok": "no", "mockprops": [], "clients": []}
    if not gen["ok"]:
        t["status"] = "rejected"
        return t, notes
    sx = (obs or {}).get("surfacex")
    if not isinstance(sx, dict) or "observer_error" in sx:
        raise core.MachineryError(f"surfacex observer failed on {doc['id']}: {json.dumps(sx)[:600]}")
    api = sx["api"]
    surf = (obs or {}).get("surface")
    wire = (obs or {}).get("wire")
    mcall = (obs or {}).get("mockcall")
    if not api["import_ok"]:
        err = api["error"]
        notes["import_error"] = f"{err.get('type')}: {err.get('msg', '')[:160]}"
        missing = err.get("type") in ("ModuleNotFoundError", "ImportError") and ".endpoints" in err.get("msg", "") and err.get("where", "").startswith("client.py")
        t["status"] = "noimport_missing_endpoint" if missing else "noimport"
        surf, wire = None, None
    else:
        for name, o in (("surface", surf), ("wire", wire)):
            if not isinstance(o, (dict, list)) or (isinstance(o, dict) and "observer_error" in o):
                raise core.MachineryError(f"{name} observer failed on the importable package of {doc['id']}: {json.dumps(o)[:600]}")
    t["apiattrs"] = sorted({fold(a) for a in api.get("attrs", [])})
    t["apiprops"] = list(api.get("props", []))
    mapi = sx["mock_api"]
    t["mockok"] = "yes" if mapi["import_ok"] else "no"
    t["mockprops"] = sorted(mapi["props"])
    if not mapi["import_ok"]:
        notes["mock_error"] = f"{mapi['error'].get('type')}: {mapi['error'].get('msg', '')[:120]}"
    # classes by file
    ep_classes: dict[str, tuple[dict, str]] = {}
    for f in sx["endpoints"]:
        for c in f["classes"]:
            ep_classes[c["name"]] = (c, f["file"][:-3])
    mock_classes: dict[str, dict] = {}
    for f in sx["mocks"]:
        for c in f["classes"]:
            mock_classes[c["name"]] = c
    rt_clients = {c["cls"]: c for c in (surf or {}).get("clients", [])} if isinstance(surf, dict) else {}
    rt_mocks = (surf or {}).get("mock", {}) if isinstance(surf, dict) else {}
    calls_by: dict[tuple[str, str], list[dict]] = {}
    wirex = (obs or {}).get("wirex") if api["import_ok"] else None
    if wirex is not None and not isinstance(wirex, list):
        raise core.MachineryError(f"wirex observer failed on {doc['id']}: {json.dumps(wirex)[:600]}")
    for c in (wire or []) + (wirex or []):
        calls_by.setdefault((c["cls"], c["method"]), []).append(c)
    mock_outcome: dict[tuple[str, str], str] = {}
    if isinstance(mcall, dict):
        for c in mcall.get("calls", []):
            oc = c["outcome"]
            mock_outcome[(c["cls"], c["method"])] = (oc.get("exctype") or "raise") if oc["kind"] == "raise" else "return"
    for name, (c, stem) in sorted(ep_classes.items()):
        proto_name = next((b for b in c["bases"] if b.endswith("Protocol") and b != "Protocol"), None)
        if proto_name is None:
            continue  # the Protocol classes themselves
        rt = rt_clients.get(name)
        prop = rt["prop"] if rt else ""
        pc = ep_classes.get(proto_name, (None, ""))[0]
        if not c["parse_ok"]:
            continue  # the client class itself is not Python: C01's domain
        mock_name = mapi["props"].get(prop) if (prop and mapi["import_ok"] and prop in mapi["props"]) else "Mock" + name
        mc = mock_classes.get(mock_name)
        rtm = (rt_mocks.get("classes") or {}).get(mock_name)
        cdefs = [d for d in c["defs"] if not d["name"].startswith("_")]
        pdefs = [d for d in (pc["defs"] if pc and pc["parse_ok"] else []) if not d["name"].startswith("_")]
        mdefs = [d for d in (mc["defs"] if mc and mc["parse_ok"] else []) if not d["name"].startswith("_")]
        names = _public(cdefs)
        for n in (rt or {}).get("methods", {}):
            if n not in names:
                names.append(n)
        nonover = Counter(n for n, _h in {(d["name"], d["h"]) for d in cdefs if not d["over"]})
        repeated = sorted({d["name"] for d in cdefs if sum(1 for e in cdefs if e["h"] == d["h"]) > 1})
        if repeated:
            notes["repeated_defs"] = notes.get("repeated_defs", []) + [f"{name}.{n}" for n in repeated]
        methods = []
        silent = 0
        for n in names:
            calls = calls_by.get((name, n), [])
            sent = any(cl["requests"] for cl in calls)
            hit: list[int] = []
            for cl in calls:
                for rq in cl["requests"]:
                    m = [op["oid"] for op in ops if op["method"].upper() == rq["method"].upper() and template_match(op["path"], rq["path"])]
                    if not m:
                        notes["unmatched"].append(f"{name}.{n} requested {rq['method']} {rq['path']}")
                    hit += [x for x in m if x not in hit]
            if calls and not sent:
                silent += 1
            ident = n.isidentifier() and not keyword.iskeyword(n)
            op0 = ops[hit[0] - 1] if hit else None
            rel, got = name_relation(n, op0, doc["strategy"]) if op0 else ("na", "")
            methods.append(
                {
                    "name": n,
                    "ident": ident,
                    "why": "" if ident else ("keyword" if keyword.iskeyword(n) else "not_identifier"),
                    "ops": sorted(hit),
                    "sent": sent,
                    "rel": rel,
                    "got": got,
                    "idshape": op0["idshape"] if op0 else "",
                    "hasparam": bool(op0 and op0["hasparam"]),
                    "c": _side([d for d in cdefs if d["name"] == n], (rt or {}).get("methods", {}).get(n)),
                    "p": _side([d for d in pdefs if d["name"] == n], ((rt or {}).get("proto") or {}).get(n)),
                    "m": _side([d for d in mdefs if d["name"] == n], (rtm or {}).get(n)),
                    "mockcall": mock_outcome.get((mock_name, n), "na"),
                }
            )
        po = (rt or {}).get("proto_ok")
        mo = (rt_mocks.get("proto_ok") or {}).get(name)
        t["clients"].append(
            {
                "cls": name,
                "prop": prop,
                "key": fold(prop) if prop else fold(stem),
                "reachable": bool(rt),
                "silent": silent,
                "dupdefs": sorted(n for n, k in nonover.items() if k > 1),
                "proto": "no" if pc is None else ("yes" if pc["parse_ok"] else "unparsable"),
                "mock": "no" if (mc is None and rtm is None) else ("yes" if (mc is None or mc["parse_ok"]) else "unparsable"),
                "cproto_ok": "na" if po is None else ("yes" if po else "no"),
                "mproto_ok": "na" if not isinstance(mo, bool) else ("yes" if mo else "no"),
                "pextra": [n for n in _public(pdefs) if n not in names],
                "mextra": [n for n in _public(mdefs) if n not in names],
                "methods": methods,
            }
        )
    return t, notes


# ---------------------------------------------------------------------------------------------
# judging


def run_monitor(chk: Check, prop: str, traces: list[dict], label: str) -> dict[str, dict]:
    if not traces:
        return {}
    d = chk.scratch.sub("traces")
    tf = d / "traces.ndjson"
    with tf.open("w") as f:
        for t in traces:
            f.write(json.dumps(t) + "\n")
    cfg = f"SPECIFICATION Spec\nCONSTANTS\n Prop = {tla(prop)}\nCHECK_DEADLOCK FALSE\n"
    r = run_tlc(chk.scratch, "Trace_Surface", cfg, env={"TRACE_FILE": str(tf)}, timeout=1500)
    chk.add_tlc(f"Trace_Surface[{prop},{label}]", r)
    vs = {v["id"]: v for v in r.printed.get("VERDICT", [])}
    chk.require(len(vs) == len(traces), f"monitor produced {len(vs)} verdicts for {len(traces)} traces")
    return vs


def judge_all(chk: Check, prop: str, traces: list[dict], label: str) -> dict[str, dict]:
    out: dict[str, dict] = {}
    for start in range(0, len(traces), CHUNK):
        out.update(run_monitor(chk, prop, traces[start : start + CHUNK], f"{label}#{start // CHUNK}"))
    return out


def brief_client(c: dict) -> dict:
    return {
        "cls": c["cls"],
        "prop": c["prop"],
        "reachable": c["reachable"],
        "proto": c["proto"],
        "mock": c["mock"],
        "methods": [{"name": m["name"], "requests_operations": m["ops"], "protocol": m["p"]["has"], "mock": m["m"]["has"], "mockcall": m["mockcall"]} for m in c["methods"]],
    }


def brief_doc(doc: dict) -> dict:
    return {"id": doc["id"], "strategy": doc["strategy"], "rendering": doc["rendering"], "ops": [{k: op[k] for k in ("oid", "method", "path", "tags", "keys", "opid", "idshape", "kind", "decos") if k in op} for op in doc["ops"]]}


def observe_docs(chk: Check, docs: list[dict], label: str) -> tuple[list[dict], dict[str, Any]]:
    recs = generate_and_observe(chk, docs, label)
    traces = []
    stats: dict[str, Any] = {"documents": len(docs), "rejected": Counter(), "noimport": Counter(), "mocks_unimportable": Counter(), "unmatched_requests": Counter(), "warnings": Counter()}
    for r in recs:
        t, notes = build_trace(r["doc"], r["gen"], r["obs"])
        t["_doc"] = r["doc"]
        t["_notes"] = notes
        t["_warnings"] = (r["gen"].get("warnings") or [])[:6]
        traces.append(t)
        if t["status"] == "rejected":
            stats["rejected"][f"{r['gen']['errtype']}: {(r['gen']['err'] or '')[:80]}"] += 1
        elif t["status"].startswith("noimport"):
            stats["noimport"][re.sub(r"s[a-z0-9]+\.", "<pkg>.", notes["import_error"])[:140]] += 1
        if t["status"] != "rejected" and t["mockok"] == "no":
            stats["mocks_unimportable"][re.sub(r"line \d+", "line N", re.sub(r"'[^']*'", "'*'", notes["mock_error"]))[:120]] += 1
        for u in notes["unmatched"]:
            stats["unmatched_requests"][re.sub(r"\d+", "N", u)[:100]] += 1
        for w in r["gen"].get("warnings") or []:
            stats["warnings"][re.sub(r"for [A-Z]+ \S+:", "for <op>:", w)[:120]] += 1
    return traces, stats


def monitor_view(t: dict) -> dict:
    return {k: v for k, v in t.items() if not k.startswith("_")}


def stats_json(stats: dict[str, Any]) -> dict[str, Any]:
    return {k: (dict(v.most_common(8)) if isinstance(v, Counter) else v) for k, v in stats.items()}


# ---------------------------------------------------------------------------------------------
# negative traces: corrupted copies of clean recorded surfaces that the monitor must reject with the named clause


def _clone(t: dict) -> dict:
    return copy.deepcopy(monitor_view(t))


def _first_method(t: dict, pred=lambda c, m: True):
    for ci, c in enumerate(t["clients"]):
        for mi, m in enumerate(c["methods"]):
            if pred(c, m):
                return ci, mi
    return None


def negatives_c07(clean: list[dict]) -> list[dict]:
    out = []

    def add(name, expect, t):
        t["id"] = "neg-" + name
        out.append({"name": name, "expect": expect, "trace": t})

    def one_op(c, m):
        return c["reachable"] and len(m["ops"]) == 1 and m["rel"] != "other" and m["ident"]

    base = next((t for t in clean if len(t["ops"]) >= 2 and _first_method(t, one_op) and all(not o["warned"] for o in t["ops"]) and all(not c["dupdefs"] for c in t["clients"])), None)
    if base is None:
        return out
    add("control", None, _clone(base))
    t = _clone(base)
    ci, mi = _first_method(t, one_op)
    del t["clients"][ci]["methods"][mi]
    add("method_removed", "C07.op_unreachable", t)
    t = _clone(base)
    ci, mi = _first_method(t, one_op)
    dup = copy.deepcopy(t["clients"][ci]["methods"][mi])
    dup["name"] += "_again"
    t["clients"][ci]["methods"].append(dup)
    add("method_twice", "C07.op_duplicated", t)
    t = _clone(base)
    ci, mi = _first_method(t, one_op)
    other = next(o["oid"] for o in t["ops"] if o["oid"] not in t["clients"][ci]["methods"][mi]["ops"])
    t["clients"][ci]["methods"][mi]["ops"] = sorted(t["clients"][ci]["methods"][mi]["ops"] + [other])
    add("one_method_two_operations", "C07.ops_collapsed", t)
    t = _clone(base)
    ci, mi = _first_method(t, one_op)
    nm = t["clients"][ci]["methods"][mi]["name"]
    del t["clients"][ci]["methods"][mi]
    t["clients"][ci]["dupdefs"] = [nm]
    add("same_name_defs", "C07.ops_collapsed", t)
    t = _clone(base)
    ci, mi = _first_method(t, one_op)
    t["clients"][ci]["reachable"] = False
    add("client_not_exposed", "C07.client_unreachable", t)
    t = _clone(base)
    ci, mi = _first_method(t, one_op)
    t["clients"][ci]["methods"][mi].update({"ident": False, "why": "keyword"})
    add("name_is_keyword", "C07.name_invalid", t)
    t = _clone(base)
    ci, mi = _first_method(t, one_op)
    t["clients"][ci]["methods"][mi].update({"rel": "other", "got": "unrelated"})
    add("name_unrelated", "C07.name_strategy", t)
    t = _clone(base)
    ci, mi = _first_method(t, one_op)
    oid = t["clients"][ci]["methods"][mi]["ops"][0]
    for c in t["clients"]:
        c["methods"] = [m for m in c["methods"] if oid not in m["ops"]]
    t["ops"][oid - 1].update({"warned": True, "wclass": "synthetic"})
    add("dropped_with_warning", "C07.silent_drop", t)
    t = _clone(base)
    ci, mi = _first_method(t, one_op)
    foreign = copy.deepcopy(t["clients"][ci])
    foreign.update({"cls": "ZzClient", "prop": "zz", "key": "zz"})
    t["clients"].append(foreign)
    add("foreign_client", "C07.op_duplicated", t)
    return out


def negatives_c13(clean: list[dict]) -> list[dict]:
    out = []

    def add(name, expect, t, element=None):
        t["id"] = "neg-" + name
        out.append({"name": name, "expect": expect, "trace": t, "element": element})

    def full(c, m):
        return c["reachable"] and c["mock"] == "yes" and c["proto"] == "yes" and m["p"]["has"] and m["m"]["has"] and m["mockcall"] == "NotImplementedError"

    def with_params(c, m):
        return full(c, m) and len(m["c"]["defs"]) >= 1 and len(m["c"]["defs"][-1]["params"]) >= 2 and any(p[2] for p in m["c"]["defs"][-1]["params"])

    ok = [t for t in clean if t["mockok"] == "yes"]
    base = next((t for t in ok if _first_method(t, with_params)), None)
    if base is None:
        return out
    add("control", None, _clone(base))

    def mutate(name, expect, fn, element=None, pred=with_params, src=base):
        t = _clone(src)
        ci, mi = _first_method(t, pred)
        fn(t, t["clients"][ci], t["clients"][ci]["methods"][mi])
        add(name, expect, t, element)

    def no_mock(t, c, m):
        c["mock"] = "no"
        for x in c["methods"]:
            x["m"] = {"has": False, "nat": "na", "iter": False, "defs": [], "rt": {"has": False, "ret": "", "params": []}}

    mutate("mock_class_removed", "C13.mock_class_missing", no_mock)
    mutate("mock_method_removed", "C13.method_missing", lambda t, c, m: m.update({"m": {"has": False, "nat": "na", "iter": False, "defs": [], "rt": {"has": False, "ret": "", "params": []}}}))
    mutate("protocol_method_removed", "C13.method_missing", lambda t, c, m: m.update({"p": {"has": False, "nat": "na", "iter": False, "defs": [], "rt": {"has": False, "ret": "", "params": []}}}))
    mutate("protocol_extra_method", "C13.method_missing", lambda t, c, m: c.update({"pextra": ["zz"]}))

    def param_edit(side, idx, value, rt=False):
        def fn(t, c, m):
            target = m[side]["rt"]["params"] if rt else m[side]["defs"][-1]["params"]
            j = next(k for k, p in enumerate(target) if p[2]) if idx in (2, 3) else 0
            if idx == 2:
                target[j][2] = False
                target[j][3] = ""
            else:
                target[j][idx] = value
        return fn

    mutate("mock_param_renamed", "C13.signature_differs", param_edit("m", 0, "zz"), "name")
    mutate("mock_param_kind", "C13.signature_differs", param_edit("m", 1, "KEYWORD_ONLY"), "kind")
    mutate("mock_param_default_removed", "C13.signature_differs", param_edit("m", 2, None), "default")
    mutate("mock_param_default_changed", "C13.signature_differs", param_edit("m", 3, "0"), "default")
    mutate("protocol_param_annotation", "C13.signature_differs", param_edit("p", 4, "bytes"), "annotation")
    mutate("protocol_return", "C13.signature_differs", lambda t, c, m: m["p"]["defs"][-1].update({"ret": "None"}), "return")
    mutate("protocol_param_dropped", "C13.signature_differs", lambda t, c, m: m["p"]["defs"][-1]["params"].pop(), "count")
    mutate("mock_runtime_kind", "C13.signature_differs", param_edit("m", 1, "KEYWORD_ONLY", rt=True), "kind", pred=lambda c, m: with_params(c, m) and m["m"]["rt"]["has"] and m["c"]["rt"]["has"])
    mutate("mock_def_dropped", "C13.signature_differs", lambda t, c, m: m["m"]["defs"].clear(), "overloads")
    mutate("protocol_unparsable", "C13.signature_differs", lambda t, c, m: c.update({"proto": "unparsable"}), "unparsable")
    mutate("protocol_plain_for_coroutine", "C13.nature", lambda t, c, m: m["p"].update({"nat": "plain"}), pred=lambda c, m: full(c, m) and m["c"]["nat"] == "coro")
    mutate("mock_returns", "C13.mock_does_not_raise", lambda t, c, m: m.update({"mockcall": "return"}))
    mutate("mock_raises_other", "C13.mock_does_not_raise", lambda t, c, m: m.update({"mockcall": "ValueError"}))
    mutate("mock_property_removed", "C13.apiclient_property_missing", lambda t, c, m: t.update({"mockprops": [p for p in t["mockprops"] if p != c["prop"]]}))
    mutate("mock_property_extra", "C13.apiclient_property_missing", lambda t, c, m: t.update({"mockprops": t["mockprops"] + ["zz"]}))
    mutate("client_not_instance", "C13.protocol_unsatisfied", lambda t, c, m: c.update({"cproto_ok": "no"}))
    mutate("mock_not_instance", "C13.protocol_unsatisfied", lambda t, c, m: c.update({"mproto_ok": "no"}))
    stream = next((t for t in ok if _first_method(t, lambda c, m: full(c, m) and m["c"]["nat"] == "agen")), None)
    if stream is not None:
        agen = lambda c, m: full(c, m) and m["c"]["nat"] == "agen"  # noqa: E731
        mutate("mock_coroutine_for_generator", "C13.nature", lambda t, c, m: m["m"].update({"nat": "coro"}), pred=agen, src=stream)
        mutate("protocol_coroutine_for_generator", "C13.nature", lambda t, c, m: m["p"].update({"nat": "coro"}), pred=agen, src=stream)
        add("control_stream", None, _clone(stream))
    return out


NEG_C07 = ["control", "method_removed", "method_twice", "one_method_two_operations", "same_name_defs", "client_not_exposed", "name_is_keyword", "name_unrelated", "dropped_with_warning", "foreign_client"]
NEG_C13 = [
    "control", "mock_class_removed", "mock_method_removed", "protocol_method_removed", "protocol_extra_method", "mock_param_renamed", "mock_param_kind",
    "mock_param_default_removed", "mock_param_default_changed", "protocol_param_annotation", "protocol_return", "protocol_param_dropped", "mock_runtime_kind",
    "mock_def_dropped", "protocol_unparsable", "protocol_plain_for_coroutine", "mock_returns", "mock_raises_other", "mock_property_removed", "mock_property_extra",
    "client_not_instance", "mock_not_instance", "mock_coroutine_for_generator", "protocol_coroutine_for_generator", "control_stream",
]


def run_negatives(chk: Check, prop: str, clean: list[dict]) -> None:
    negs = negatives_c07(clean) if prop == "C07" else negatives_c13(clean)
    if not negs:
        return
    vs = run_monitor(chk, prop, [n["trace"] for n in negs], "negatives")
    for n in negs:
        fails = vs[n["trace"]["id"]]["fails"]
        got = [f["clause"] for f in fails]
        if n["expect"] is None:
            chk.require(not got, f"control trace {n['name']} was rejected: {got}")
        else:
            chk.require(n["expect"] in got, f"negative trace {n['name']} was not rejected with {n['expect']}: monitor said {got}")
            if n.get("element"):
                els = [f["locus"].get("element") for f in fails if f["clause"] == n["expect"]]
                chk.require(n["element"] in els, f"negative trace {n['name']}: expected element {n['element']}, monitor said {els}")
        chk.cov.setdefault("negative_traces_rejected", {})[n["name"]] = n["expect"] or "accepted (control)"


# ---------------------------------------------------------------------------------------------
# the check proper (shared by c07.py / c13.py)

_seen: dict[str, int] = {}


def evidence_of(t: dict, clause: str) -> dict:
    return {
        "warnings": t.get("_warnings", []),
        "apiclient_properties": t["apiprops"],
        "mockapiclient_properties": t["mockprops"],
        "mocks_importable": t["mockok"],
        "clients": [brief_client(c) for c in t["clients"]],
        "notes": {k: v for k, v in t.get("_notes", {}).items() if v},
    }


def account(chk: Check, prop: str, traces: list[dict], vs: dict[str, dict], verbose: bool = False) -> tuple[list[dict], Counter]:
    """Feed the monitor's verdicts into the check; returns the clean judged traces and a status counter."""
    clean = []
    status: Counter = Counter()
    for t in traces:
        v = vs[t["id"]]
        a = v["ante"]
        status[t["status"]] += 1
        chk.count(1)
        judged = t["status"] == "ok" or (prop == "C13" and t["status"] == "noimport")
        if judged:
            chk.cov["traces_validated_against_impl"] += 1
        if prop == "C07":
            for c in ("C07.op_unreachable", "C07.op_duplicated"):
                chk.clause(c, a["pairs"])
            chk.clause("C07.silent_drop", len(t["ops"]) if judged else 0)
            chk.clause("C07.client_unreachable", a["classes"])
            for c in ("C07.ops_collapsed", "C07.name_invalid", "C07.name_strategy"):
                chk.clause(c, a["methods"])
            chk.clause("count_equation_holds", 1 if a["count_ok"] else 0)
            chk.clause("operations_skipped_with_warning", a["warned"])
            chk.cov["methods_judged"] = chk.cov.get("methods_judged", 0) + a["methods"]
            chk.cov["operation_class_pairs"] = chk.cov.get("operation_class_pairs", 0) + a["pairs"]
            chk.cov["undetermined_pairs"] = chk.cov.get("undetermined_pairs", 0) + a["undetermined"]
            if judged and a["pairs"] >= 2:
                chk.nontrivial(t["id"])
        else:
            chk.clause("C13.method_missing", a["methods"])
            chk.clause("C13.signature_differs", a["defs"])
            chk.clause("C13.nature", a["methods"])
            chk.clause("C13.protocol_unsatisfied", a["clients"])
            chk.clause("C13.mock_class_missing", a["clients"] if a["mockjudged"] else 0)
            chk.clause("C13.apiclient_property_missing", a["clients"] if a["mockjudged"] else 0)
            chk.clause("C13.mock_does_not_raise", a["mockmethods"])
            chk.clause("streaming_methods", a["streaming"])
            chk.clause("overloaded_methods", a["overloaded"])
            chk.cov["methods_judged"] = chk.cov.get("methods_judged", 0) + a["methods"]
            chk.cov["defs_compared"] = chk.cov.get("defs_compared", 0) + a["defs"]
            chk.cov["mock_methods_called"] = chk.cov.get("mock_methods_called", 0) + a["mockmethods"]
            if judged and a["mockmethods"] > 0:
                chk.nontrivial(t["id"])
        fails = v.get("fails") or []
        if judged and not fails:
            clean.append(t)
        for f in fails:
            k = json.dumps([f["clause"], f["locus"]], sort_keys=True)
            _seen[k] = _seen.get(k, 0) + 1
            scen = brief_doc(t["_doc"])
            if _seen[k] <= 3:
                chk.fail(f["clause"], f["locus"], {**scen, "observed": evidence_of(t, f["clause"])}, "observed " + json.dumps(evidence_of(t, f["clause"]))[:700])
            else:
                chk.fail(f["clause"], f["locus"], scen, "")
        if verbose:
            print("DOCUMENT ", json.dumps(brief_doc(t["_doc"])))
            print("STATUS   ", t["status"], json.dumps(t.get("_notes", {})))
            print("OBSERVED ", json.dumps(evidence_of(t, "")))
            print("VERDICT  ", json.dumps({"fails": [[f["clause"], f["locus"]] for f in fails], "ante": a}))
    return clean, status


def rule_text(tier: str) -> str:
    return (
        "TLC (Gen_Surface.tla) enumerates abstract documents: <= 4 operations over <= 3 paths x tags per operation {none, one, two in both "
        "orders, spelling variants user-accounts / User Accounts / userAccounts / useraccounts and a / A alone, first and second, tags named "
        "request / close / config alone and second} x operationId shape {absent, unique, duplicate after sanitising, pre-suffixed family get / "
        "Get / get_2 / GET, FastAPI style (collapsed and as FastAPI writes it)} x strategy {operationId, clean, path} x rendering {json, yaml, "
        "yaml with bare int status keys} x kind per operation {plain, two request content types (@overload), sse, ndjson, octet (async "
        "generators), 6 optional parameters, 8 long-named parameters, 200 JSON + 206 octet-stream}; every two-content-type operation has its own JSON body model.  Deterministic stratified selection, exhaustive inside each stratum: A "
        "one operation x every tag list x id shapes x strategies; B every pair of tag lists; C triples with (t1+t2+t3) % m = 0; D four "
        "operations with an orthogonal array over tag lists; E every id shape x strategy x 5 tag patterns; F every pair (thorough: triple) of "
        "kinds; G a slice rendered with bare status keys; H multi-tag x colliding ids; P spellings of one tag that differ by punctuation "
        "other than space / hyphen / underscore (Billing/Invoices vs billing-invoices, v1.users, R&D, ops:admin) alone, in every ordered pair "
        "and in triples; V one path item carrying all eight OpenAPI 3 verbs; X one unusual-but-valid construct per document on one / all "
        "operations (responses keyed default only, 4XX/5XX, 4xx, 2XX, several statuses, 204, description only, $ref to components.responses, "
        "200 + default; parameters / requestBody by $ref; path-level parameters, summary, description, servers; x- extensions, deprecated, "
        "externalDocs; operation-level servers / security / empty lists), pairs in thorough; L LONG names (64..160 characters, thorough every 8 "
        "from 48 to 168) for what ends up in signatures - return-type / body models, a parameter name, the operationId + an inline response "
        "schema (promoted to <OperationId>200Response) - x kinds plain, multi, sse, ndjson, longsig, next to a short control operation; S two spellings of one tag inside ONE operation's tag list (every ordered pair of six case / "
        "separator variants) alone and next to an operation that uses one of them alone.  Every document is generated on the force path (the only path that writes output) "
        "and observed once; non-trivial = judged document with >= 2 (operation, tag class) pairs (C07) / with mock methods compared (C13)"
    )


ASSUMPTIONS = [
    "methods are identified with operations by the request they SEND (HTTP method + path template match against an httpx.MockTransport), never by name; a method that sends nothing in any of 3 argument plans leaves its client's missing operations undetermined (counted, not judged)",
    "a tag client belongs to a tag class when the lower-case alphanumerics of its APIClient property name equal the class key (plain string operations, not normalize_tag_key); failing that, an otherwise unexplained client that offers exactly the class's operations",
    "name_strategy compares lower-case alphanumerics: the method name must equal the expected stem (path: METHOD + path; operationId: the operationId; clean: the handler name when the id is name + path-with-non-word-characters-as-underscores (collapsed or not) + _method) optionally followed by digits (de-duplication suffix)",
    "a rejected document (generation raised) is a visible failure: counted, not judged; packages whose client module does not import are C01's domain: counted and skipped - except when client.py imports an endpoint module the endpoints emitter did not write (the tag-wiring mechanism of C07)",
    "C13 compares every `def` of the three emitted classes in source order from the ast of each top-level class chunk (overload stubs leave no runtime signature), plus inspect.signature / nature / isinstance from the imported classes; an exact textual repetition of a def counts once",
    "when <pkg>.mocks does not import (C01's findings: duplicate MockAPIClient arguments for spelling variants, empty MockAPIClient when every operation was dropped) the mock side is not judged (counted)",
    "Protocol stubs of async generators may be plain `def` returning AsyncIterator (the typing idiom the generator itself uses)",
]


def run_check(chk: Check, prop: str) -> None:
    from concurrent.futures import ThreadPoolExecutor

    tier = "thorough" if chk.tier == "thorough" else "quick"
    chk.cov["rule"] = rule_text(tier)
    chk.assumptions += ASSUMPTIONS
    side = SubScratch(chk, "side")
    with ThreadPoolExecutor(max_workers=1) as pool:
        fut = pool.submit(design_runs, side, tier)
        docs = family(chk, tier)
        traces, stats = observe_docs(chk, docs, "d")
        vs = judge_all(chk, prop, [monitor_view(t) for t in traces], tier)
        clean, status = account(chk, prop, traces, vs)
        run_negatives(chk, prop, clean)
        account_design(chk, prop, fut.result())
    chk.cov["documents"] = {"generated": len(docs), "by_status": dict(status), **stats_json(stats)}
    chk.cov["strata"] = dict(sorted(Counter(d["id"][0] for d in docs).items()))
    rep = Counter(x for t in traces for x in t["_notes"].get("repeated_defs", []))
    if rep:
        # not a disagreement with any model and no clause depends on it: an operation two of whose tags fold to the same
        # class is written twice (textually identical) into that class; recorded in the evidence only
        chk.cov["methods_emitted_twice_identically"] = {"count": sum(rep.values()), "example": sorted(rep)[0]}
    if stats["unmatched_requests"]:
        chk.note_drift(f"{sum(stats['unmatched_requests'].values())} request(s) matched no operation of their document, e.g. {next(iter(stats['unmatched_requests']))}")
    if chk.cov.get("undetermined_pairs"):
        chk.note_drift(f"{chk.cov['undetermined_pairs']} (operation, class) pair(s) undetermined: a method of the client sent no request")
    judged = sum(n for s, n in status.items() if s == "ok" or (prop == "C13" and s == "noimport"))
    chk.require(judged > 0.5 * len(docs) or any(f["clause"].endswith("client_unreachable") and f["locus"].get("cause") for f in chk.fails), f"only {judged} of {len(docs)} documents could be judged: {stats_json(stats)}")
    names = NEG_C07 if prop == "C07" else NEG_C13
    missing = [n for n in names if n not in chk.cov.get("negative_traces_rejected", {})]
    if missing:
        # the negatives are corrupted copies of CLEAN observations; a tree that violates the property almost everywhere may
        # leave none to start from - that must not turn its violations into a machinery failure
        findings = [f for f in core.load_findings() if f.get("property") == prop]
        unlisted = any(not any(core._match(e, f["clause"], f["locus"]) for e in findings) for f in chk.fails)
        chk.require(unlisted, f"negative traces never exercised: {missing}")
        chk.note_drift(f"{len(missing)} negative trace(s) not exercised: no clean observation to corrupt")
    for c in C07_CLAUSES if prop == "C07" else C13_CLAUSES:
        chk.require(chk.cov["clauses_checked"].get(c, 0) > 0, f"clause {c} was never evaluated")
    if traces:
        t = traces[len(traces) // 3]
        chk.sample({"document": brief_doc(t["_doc"]), "status": t["status"], "observed": evidence_of(t, ""), "verdict": vs[t["id"]]["fails"]})
    chk.cov["exhaustive"] = False  # a stratified selection of the document space, exhaustive inside each stratum


def replay_check(chk: Check, prop: str, path: str) -> None:
    rec = json.loads(open(path).read())
    s = rec["scenario"]
    if "ops" not in s:
        raise core.MachineryError("replay file carries no document (design-level records are re-run by the full check)")
    doc = {"id": s.get("id", "replay"), "strategy": s["strategy"], "rendering": s["rendering"], "ops": s["ops"]}
    traces, stats = observe_docs(chk, [doc], "r")
    vs = judge_all(chk, prop, [monitor_view(t) for t in traces], "replay")
    account(chk, prop, traces, vs, verbose=True)
    for f in chk.fails:
        print("REPLAY-FAIL", f["clause"], json.dumps(f["locus"], sort_keys=True))
