"""C08 - parsing cyclic and deep schema graphs terminates with balanced state.

(A) design model checking of CycleTracker (free + LIFO-disciplined use), several name sets;
(B) every edge of the dumped state graphs replayed on the real UnifiedCycleContext
    (conformance -> DRIFT; property-level rest/limit invariants on the REAL post-state -> violation);
(C) traces of the real parser on TLC-generated graph / chain / nesting documents validated by
    Trace_CycleTracker (total monitor).
"""

from __future__ import annotations

import json
import re
import sys
from typing import Any

from . import concretise, core, tlaval
from .core import Check, run_tlc, tla

LEVEL = "model_checking"

NAMESETS_MC = [["A", "B"], ["User", "UserGroup"], ["Node", "NodeItem"], ["Children", "ChildrenItem"]]
ALL_KINDS = ["ref", "arr", "inline", "arrInline", "map", "oneOf", "anyOf", "allOf", "alias"]
LEAF_KINDS = ["null", "empty", "bareobj", "barearr"]


def mc_module(names: list[str], max_depth: int) -> str:
    cfg = concretise.tracker_cfg(names, max_depth)
    nested = ", ".join(f'<<{tla(n)}, {tla(set(v))}>>' for n, v in cfg["nestedOf"].items())
    return f"""---- MODULE MC_CycleTracker ----
EXTENDS CycleTracker
MCNames == {tla(set(names))}
MCNested == {{{nested}}}
MCCfg == [maxDepth |-> {max_depth}, synthetic |-> {tla(set(cfg['synthetic']))}, hasChildren |-> {tla(set(cfg['hasChildren']))},
          hasChildItem |-> {tla(set(cfg['hasChildItem']))},
          nestedOf |-> [n \\in MCNames |-> (CHOOSE p \\in MCNested : p[1] = n)[2]]]
====
"""


def mc_cfg(disciplined: bool, cap: int) -> str:
    return f"""SPECIFICATION Spec
CONSTANTS
 Names <- MCNames
 Cfg <- MCCfg
 Disciplined = {tla(disciplined)}
 DepthCap = {cap}
CONSTRAINT Bound
INVARIANT TypeOK
INVARIANT NoDupOnStack
INVARIANT InProgressIsOnStack
INVARIANT StoredIsPlaceholder
INVARIANT RestWhenClosed
INVARIANT DepthIsOpenCalls
INVARIANT LimitRespected
PROPERTY TerminalAbsorbing
CHECK_DEADLOCK FALSE
"""


def design_and_replay(chk: Check) -> None:
    max_depth = 2
    cap = 3 if chk.tier == "quick" else 4
    namesets = NAMESETS_MC if chk.tier == "thorough" else NAMESETS_MC[:3]
    jobs = []
    for names in namesets:
        for disciplined in (True, False):
            r = run_tlc(
                chk.scratch,
                "MC_CycleTracker",
                mc_cfg(disciplined, cap),
                files={"MC_CycleTracker.tla": mc_module(names, max_depth)},
                coverage=True,
                workers=8,
                extra=["-dump", "dot,actionlabels", "graph.dot"],
                allow_violation=True,
            )
            tag = f"MC_CycleTracker[{'+'.join(names)},{'lifo' if disciplined else 'free'}]"
            chk.add_tlc(tag, r)
            if r.violated:
                # a design-level counterexample: the modelled tracker itself breaks a C08 invariant
                chk.fail("C08.design_invariant", {"invariant": r.violated[0], "names": names, "disciplined": disciplined}, {"names": names}, r.out[-1500:])
                continue
            for act in ("Enter", "Exit"):
                chk.require(r.coverage.get(act, (0, 0))[1] > 0, f"vacuous design run: action {act} never taken in {tag}")
            nodes, edges, _ = tlaval.parse_dot((r.workdir / "graph.dot").read_text())
            chk.require(len(edges) > 0, "empty state graph dump")
            ed = []
            for s, d, lab in edges:
                a, args = tlaval.parse_action(lab)
                ed.append([_plain(nodes[s]), a, args, _plain(nodes[d])])
            # split into chunks for parallel replay
            step = 4000
            for i in range(0, len(ed), step):
                jobs.append({"id": f"{tag}#{i}", "maxDepth": max_depth, "disciplined": disciplined, "edges": ed[i : i + step]})
    res = core.parallel_py(chk.scratch, "harness.w_tracker", jobs)
    total = 0
    for job, r in zip(jobs, res):
        total += r["edges"]
        chk.clause("tracker_edge_conformance", r["edges"])
        if job["disciplined"]:
            chk.clause("C08.tracker_rest", r["edges"])
        if r["mismatch_count"]:
            m = r["mismatches"][0]
            chk.note_drift(f"tracker deviates from CycleTracker.tla on {r['mismatch_count']} edge(s) of {r['id']}; first: {m['act']}{m['args']} from {m['src']} -> got {m['got']} ({m['got_o']}), spec {m['want']} ({m['want_o']})")
        for f in r["rest_fail"]:
            chk.fail(f["clause"], {"action": f["act"], "named": f["args"][0] != "__none__"}, {"edge": f}, json.dumps(f)[:400])
    chk.cov["edges_replayed"] = total
    chk.cov["traces_validated_against_impl"] += total
    chk.count(total)
    chk.sample({"kind": "edge replay", "example": jobs[0]["edges"][min(7, len(jobs[0]["edges"]) - 1)]})


def _plain(state: dict[str, Any]) -> dict[str, Any]:
    return {
        "stack": list(state["stack"]),
        "st": dict(state["st"]),
        "depth": state["depth"],
        "reg": sorted(state["reg"]),
        "frames": list(state["frames"]),
        "last": dict(state["last"]),
    }


# ---------------------------------------------------------------------------------------------
# scenario families


def gen_graphs(chk: Check, names: list[str], kinds: list[str], max_edges: int, orders: str = "all", req=(False,)) -> list[dict]:
    cfg = f"""SPECIFICATION Spec
CONSTANTS
 Names = {tla(set(names))}
 Kinds = {tla(set(kinds))}
 MaxEdges = {max_edges}
 ReqVals = {tla(set(req))}
 Orders = "{orders}"
CHECK_DEADLOCK FALSE
"""
    r = run_tlc(chk.scratch, "Gen_Graphs", cfg, workers=8)
    chk.add_tlc(f"Gen_Graphs[{'+'.join(names)},<={max_edges}]", r)
    docs = r.printed.get("SCEN", [])
    chk.require(len(docs) > 0, "Gen_Graphs produced no scenario")
    docs.sort(key=lambda d: json.dumps(d, sort_keys=True))
    return docs


def gen_chains(chk: Check, lengths: list[int], chain_kinds: list[str], nest_kinds: list[str]) -> list[dict]:
    cfg = f"""SPECIFICATION Spec
CONSTANTS
 Lengths = {tla(set(lengths))}
 ChainKinds = {tla(set(chain_kinds))}
 NestKinds = {tla(set(nest_kinds))}
CHECK_DEADLOCK FALSE
"""
    r = run_tlc(chk.scratch, "Gen_Chains", cfg, workers=4)
    chk.add_tlc("Gen_Chains", r)
    sc = r.printed.get("SCEN", [])
    sc.sort(key=lambda d: json.dumps(d, sort_keys=True))
    return sc


def chain_doc(sc: dict) -> tuple[dict, list[str]]:
    n = sc["n"]
    if sc["shape"] == "chain":
        names = [f"S{i:03d}" for i in range(1, n + 1)]
        schemas = {}
        for i, nm in enumerate(names):
            node = {"type": "object", "properties": {"id": {"type": "string"}}}
            tgt = names[i + 1] if i + 1 < n else (names[0] if sc["closed"] else None)
            if tgt:
                if sc["kind"] == "allOf":
                    node["allOf"] = [concretise.ref(tgt)]
                else:
                    node["properties"]["next"] = concretise.edge_property(sc["kind"], tgt)
            schemas[nm] = node
        order = list(reversed(names)) if sc["reverse"] else names
        return concretise.wrap({k: schemas[k] for k in order}), names
    # nest: one schema nesting n anonymous levels
    leaf: dict = {"type": "string"}
    node = leaf
    for _ in range(n):
        k = sc["kind"]
        if k == "inline":
            node = {"type": "object", "properties": {"x": node}}
        elif k == "arr":
            node = {"type": "array", "items": node}
        elif k == "oneOf":
            node = {"oneOf": [node, {"type": "integer"}]}
        elif k == "map":
            node = {"type": "object", "additionalProperties": node}
        elif k == "arrInline":
            node = {"type": "array", "items": {"type": "object", "properties": {"x": node}}}
        elif k == "allOf":
            node = {"allOf": [node, {"type": "object", "properties": {"y": {"type": "string"}}}]}
    return concretise.wrap({"Deep": {"type": "object", "properties": {"id": {"type": "string"}, "p": node}}}), ["Deep"]


def fold(name: str) -> str:
    return "".join(c for c in name.lower() if c.isalnum())


def all_names(spec: dict) -> list[str]:
    """Names the tracker may see: declared names plus promoted names (collected from the trace later)."""
    return list(spec["components"]["schemas"].keys())


def validate_traces(chk: Check, traces: list[dict], label: str) -> list[dict]:
    """Run the total monitor over recorded traces; returns verdict records (by trace id)."""
    d = chk.scratch.sub("traces")
    cfg = "SPECIFICATION Spec\nCHECK_DEADLOCK FALSE\n"
    vs: list[dict] = []
    CH = 8000   # traces per TLC run (the largest thorough family in one run passed the time limit on a busy machine)
    for k in range(0, len(traces), CH):
        tf = d / f"traces{k}.ndjson"
        with tf.open("w") as f:
            for t in traces[k : k + CH]:
                f.write(json.dumps(t) + "\n")
        r = run_tlc(chk.scratch, "Trace_CycleTracker", cfg, workers=8, env={"TRACE_FILE": str(tf)}, coverage=(k == 0), timeout=1800)
        chk.add_tlc(f"Trace_CycleTracker[{label}/{k // CH}]", r)
        vs += r.printed.get("VERDICT", [])
        tf.unlink()
    chk.require(len(vs) == len(traces), f"monitor produced {len(vs)} verdicts for {len(traces)} traces")
    chk.cov["traces_validated_against_impl"] += len(traces)
    return vs


def parse_and_judge(chk: Check, items: list[tuple[str, dict, list[str], Any]], max_depth: int | None, label: str, light: bool = False) -> None:
    """items: (id, openapi spec, declared names, scenario) -> run the real parser, validate traces."""
    if len(items) > 12000:
        # the recorded traces of a large family do not have to be in memory at once
        for k in range(0, len(items), 12000):
            parse_and_judge(chk, items[k : k + 12000], max_depth, label, light)
        return
    jobs = [{"id": i, "spec": spec, "declared": decl, "want": ["events"], "timeout": 60, "light": light} for i, spec, decl, _ in items]
    env = {"PYOPENAPI_MAX_DEPTH": str(max_depth)} if max_depth is not None else {}
    res = core.parallel_py(chk.scratch, "harness.w_parse", jobs, env=env)
    md = max_depth if max_depth is not None else 150
    traces = []
    scen = {}
    for (i, spec, decl, sc), r in zip(items, res):
        names = set(decl)
        for e in r["ev"]:
            if e["k"] in ("enter", "exit") and e["n"] != "__none__":
                names.add(e["n"])
        # presence is judged up to sanitisation of the name: fold = lower-case alphanumerics (plain string operation)
        for e in r["ev"]:
            if e["k"] == "end":
                e["present"] = sorted({fold(x) for x in e["present"]})
        traces.append({"id": i, "cfg": concretise.tracker_cfg([] if light else sorted(names), md), "declared": [fold(x) for x in decl], "ev": r["ev"]})
        scen[i] = (sc, spec, r)
    vs = validate_traces(chk, traces, label)
    chk.count(len(items))
    ndrift = 0
    for v in vs:
        sc, spec, r = scen[v["id"]]
        chk.clause("C08.rest", v["nrest"])
        chk.clause("C08.end", 1)
        if v["nev"] > 3:
            chk.nontrivial({"doc": sc, "md": md})
        if v["ndrift"]:
            ndrift += 1
            if ndrift <= 3:
                chk.note_drift(f"{label}: trace {v['id']} has {v['ndrift']} tracker step(s) not explained by CycleTracker.tla (first at event {v['firstdrift']}); scenario {json.dumps(sc)[:200]}")
        if v["clause"].startswith("diag."):
            # a valid document whose load RAISES has no result at all: "every declared schema name is present in the result" fails,
            # visibly.  The locus names the exception and whether the document declares a bare-$ref (alias) schema.
            chk.cov["load_raised"] = chk.cov.get("load_raised", 0) + 1
            etype, _, emsg = r["err"].partition(":")
            edges = sc.get("edges", []) if isinstance(sc, dict) else []
            loc = {"family": label.split("[")[0], "exctype": etype.strip(), "msgclass": re.sub(r"'[^']*'", "'*'", emsg.strip())[:60], "alias": any(e.get("kind") == "alias" for e in edges)}
            if isinstance(sc, dict) and "shape" in sc:
                loc.update({"shape": sc["shape"], "kind": sc["kind"]})
            chk.fail("C08.load_raised", loc, {"scenario": sc, "max_depth": md, "spec": spec}, f"err={r['err']}")
        elif v["clause"] != "ok":
            loc = dict(v["locus"])
            loc["family"] = label
            if isinstance(sc, dict) and "shape" in sc:
                loc.update({"shape": sc["shape"], "kind": sc["kind"]})
            chk.fail(v["clause"], loc, {"scenario": sc, "max_depth": md, "spec": spec}, f"err={r['err']}")
    if ndrift > 3:
        chk.note_drift(f"{label}: {ndrift} traces with tracker drift in total")
    if items:
        i, spec, decl, sc = items[len(items) // 2]
        chk.sample({"family": label, "scenario": sc, "trace_head": scen[i][2]["ev"][:4]})


def run(chk: Check) -> None:
    sys.setrecursionlimit(50000)  # this process only encodes / decodes the deeply nested documents (jobs, replay files)
    chk.cov["rule"] = (
        "TLC enumerates (a) the complete state graph of the tracker API for each name set (every edge replayed on the real "
        "UnifiedCycleContext), (b) every schema graph over 2 names with <=2 (quick) / <=3 (thorough) edges of 9 kinds in every "
        "declaration order for 3 name sets (prefix-related, 'Item'-synthetic), (c) chains / anonymous nestings around the depth "
        "limit for PYOPENAPI_MAX_DEPTH in {3,10,150}; non-trivial = document whose parse produced more than 3 tracker events, "
        "distinct by (scenario, limit)"
    )
    chk.assumptions += [
        "enter/exit events are observed by wrapping module attributes of unified_cycle_detection (looked up at call time)",
        "a 'rest' observation is taken whenever an outermost _parse_schema frame starts and when loading ends",
        "tracker-level disagreement with CycleTracker.tla is reported as DRIFT, only property-level clauses fail",
    ]
    design_and_replay(chk)
    thorough = chk.tier == "thorough"
    # (b) graph families
    fam = [(["A", "B"], 2 if not thorough else 3), (["User", "UserGroup"], 2), (["Node", "NodeItem"], 2)]
    if not thorough:
        # two-edge graphs for the 'Item'-synthetic names too (Order -> LineItem -> Order is a two-step cycle), plain reference kinds only
        fam = [(["A", "B"], 2), (["User", "UserGroup"], 1), (["Node", "NodeItem"], 2)]
    for names, k in fam:
        docs = gen_graphs(chk, names, ["ref", "arr", "inline", "allOf", "map"] if (names == ["Node", "NodeItem"] and k == 2 and not thorough) else ALL_KINDS + (LEAF_KINDS if names == ["A", "B"] else []), k)
        items = []
        for j, d in enumerate(docs):
            items.append((f"g{'_'.join(names)}_{j}", concretise.graph_doc(d, use_all=(j % 3 == 0)), list(d["order"]), {"order": d["order"], "edges": d["edges"]}))
        parse_and_judge(chk, items, None, f"graphs[{'+'.join(names)},<={k}]")
    # names that CHANGE under sanitisation (snake_case) forming cycles, with an outside referrer: plain references only
    docs = gen_graphs(chk, ["order_header", "order_line", "Invoice"], ["ref"] if not thorough else ["ref", "arr", "inline"], 3 if not thorough else 3, orders="all")
    items = [(f"gs_{j}", concretise.graph_doc(d), list(d["order"]), {"order": d["order"], "edges": d["edges"]}) for j, d in enumerate(docs)]
    parse_and_judge(chk, items, None, "graphs[snake_case,<=3]")
    if thorough:
        docs = gen_graphs(chk, ["A", "B", "C"], ["ref", "arr", "inline", "oneOf", "allOf"], 3, orders="all")
        items = [(f"g3_{j}", concretise.graph_doc(d), list(d["order"]), {"order": d["order"], "edges": d["edges"]}) for j, d in enumerate(docs)]
        parse_and_judge(chk, items, None, "graphs[A+B+C,<=3]")
    # (c) depth families
    for md in (3, 10, 150):
        # far beyond the limit as well: the descent must be cut by placeholders, whatever else walks the document (validation, copies)
        base = [md - 1, md, md + 1, md + 5] + ([3 * md] if md <= 10 or thorough else []) + ([300, 420] if md != 3 else [])
        lengths = sorted({x for x in base if x >= 1})
        sc = gen_chains(chk, lengths, ["ref", "arr", "inline", "oneOf", "allOf", "map"], ["inline", "arr", "oneOf", "map", "arrInline", "allOf"])
        items = []
        for j, s in enumerate(sc):
            spec, names = chain_doc(s)
            items.append((f"d{md}_{j}", spec, names, s))
        parse_and_judge(chk, items, md, f"depth[limit={md}]", light=True)
    chk.cov["exhaustive"] = True


def replay(chk: Check, path: str) -> None:
    sys.setrecursionlimit(50000)
    rec = json.loads(open(path).read())
    sc = rec["scenario"]
    if "spec" not in sc:
        raise core.MachineryError("replay file has no concrete document (tracker edge replays are re-run by the full check)")
    decl = list(sc["spec"]["components"]["schemas"].keys())
    parse_and_judge(chk, [("replay", sc["spec"], decl, sc.get("scenario"))], sc.get("max_depth"), "replay")
    for f in chk.fails:
        print("REPLAY-FAIL", f["clause"], json.dumps(f["locus"]))
