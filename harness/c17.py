"""C17 - the transport applies defaults, per-request headers and auth plug-ins as documented.

(A) design model checking of specs/Transport.tla (one request as a state machine) over the whole scenario space:
    the code path AS IT IS (clauses it violates are evaluated into a verdict and printed per scenario, the clauses it
    satisfies are real INVARIANTs) and the variant "fixed" (DesignOK as INVARIANT: the reference is satisfiable);
(B) the same run prints every scenario with its concretisation (SCEN lines); harness/w_transport.py builds the REAL
    HttpxTransport for each over an httpx.MockTransport and captures the request that leaves it;
(C) specs/Trace_Transport.tla (run by TLC) judges every captured request with TransportCore!Failures - the operator
    that judged the modelled wire - and says whether the implementation-shaped model predicted it (DRIFT otherwise).
"""

from __future__ import annotations

import json
from collections import Counter
from concurrent.futures import ThreadPoolExecutor
from typing import Any

from . import core
from .core import Check, run_tlc, tla

LEVEL = "model_checking"

KINDS = ["B", "KH", "KQ", "KC", "H", "O", "OR"]
ACTIONS = ["Defaults", "PerRequest", "Refresh", "Plugin", "Shortcut", "Send", "Judge"]
HOLDING = ["TypeOK", "MachineIsModel", "CallerArgsUntouched", "TokenFresh", "VerdictIsJudge"]
CLAUSES = [
    "C17.header_precedence",
    "C17.plugin_order",
    "C17.apikey_location",
    "C17.apikey_name",
    "C17.caller_params_changed",
    "C17.body_changed",
    "C17.token_stale",
]


def design_cfg(max_plugins: int, first: str, variant: str, tied: bool, emit: bool, invariants: list[str]) -> str:
    inv = "".join(f"INVARIANT {i}\n" for i in invariants)
    return f"""SPECIFICATION Spec
CONSTANTS
 MaxPlugins = {max_plugins}
 First = {tla(first)}
 Variant = {tla(variant)}
 BodyTied = {tla(tied)}
 Emit = {tla(emit)}
{inv}CHECK_DEADLOCK FALSE
"""


def clean_locus(l: dict[str, Any]) -> dict[str, Any]:
    return {k: v for k, v in l.items() if v != ""}


def fkey(f: dict[str, Any]) -> str:
    return json.dumps([f["clause"], clean_locus(f["locus"])], sort_keys=True)


def finding_for(findings: list[dict], clause: str, locus: dict[str, Any]) -> str:
    for e in findings:
        if e.get("status") == "finding" and e.get("clause") == clause:
            if all((locus.get(k) in v) if isinstance(v, list) else (locus.get(k) == v) for k, v in (e.get("match") or {}).items()):
                return e["id"]
    return ""


class _SubScratch:
    """A private numbering space inside the check's scratch directory, so that TLC runs started from helper threads do
    not share core.Scratch's counter."""

    def __init__(self, chk: Check, name: str):
        self.path = chk.scratch.path / name
        self.path.mkdir(parents=True, exist_ok=True)
        self._n = 0

    def sub(self, name: str):
        self._n += 1
        p = self.path / f"{self._n:03d}_{name}"
        p.mkdir(parents=True)
        return p


def coverage_run(sub: _SubScratch):
    """Small instance with -coverage: every action of the machine must fire (vacuity guard for the big runs, which
    run without -coverage because it costs 2-3x)."""
    r = run_tlc(sub, "Transport", design_cfg(1, "any", "as_is", True, False, HOLDING), coverage=True, allow_violation=True, workers=4)
    return "Transport[as_is,<=1,coverage]", r, {"variant": "as_is", "max_plugins": 1, "first": "any"}


def design_fixed(sub: _SubScratch, max_plugins: int, first: str, tied: bool):
    inv = ["TypeOK", "MachineIsModel", "SentEqualsFold", "KeyPlacement", "CallerArgsUntouched", "TokenFresh", "DesignOK"]
    r = run_tlc(sub, "Transport", design_cfg(max_plugins, first, "fixed", tied, False, inv), allow_violation=True, workers=8)
    return f"Transport[fixed,<={max_plugins},{first}]", r, {"variant": "fixed", "max_plugins": max_plugins, "first": first}


def account_side_run(chk: Check, name: str, r: core.TlcResult, what: dict, need_actions: bool) -> None:
    chk.add_tlc(name, r)
    chk.require(r.distinct > 0, f"{name} explored nothing")
    if r.violated:
        # as_is: a clause the code path is believed to satisfy fails in the model; fixed: the reference is not met by the
        # design that is meant to meet it
        chk.fail("C17.design_invariant", {"invariant": r.violated[0], "variant": what["variant"]}, what, r.out[-1500:])
    elif need_actions:
        for a in ACTIONS:
            chk.require(r.coverage.get(a, (0, 0))[1] > 0, f"vacuous design run: action {a} never taken")


def design_as_is(chk: Check, max_plugins: int, first: str, tied: bool) -> list[dict]:
    r = run_tlc(chk.scratch, "Transport", design_cfg(max_plugins, first, "as_is", tied, True, HOLDING), allow_violation=True)
    chk.add_tlc(f"Transport[as_is,<={max_plugins},{first}]", r)
    if r.violated:
        chk.fail("C17.design_invariant", {"invariant": r.violated[0], "variant": "as_is"}, {"max_plugins": max_plugins, "first": first}, r.out[-1500:])
        return []
    scen = r.printed.get("SCEN", [])
    chk.require(len(scen) > 0, "Transport.tla emitted no scenario")
    scen.sort(key=lambda s: (complexity(s["sc"]), json.dumps(s["sc"], sort_keys=True)))
    return scen


def complexity(sc: dict) -> int:
    """Number of features switched on: the first failing scenario of every (clause, locus) becomes the replay file."""
    n = 3 * len(sc["plugs"]) + (1 if sc["short"] else 0)
    n += sum(1 for k in ("dflt", "req", "ca") if sc[k] != "none") + sum(1 for k in ("kn", "hn") if sc[k] != "disjoint")
    n += sum(1 for k in ("params", "cookies", "body") if sc[k]) + (1 if sc["wrap"] in ("composite", "nestL", "nestR") else 0)
    return n


def _without(headers: list, lname: str) -> list:
    return [h for h in headers if h[1] != lname]


# corrupted copies of real observations the monitor must reject with the named clause (the binding of the judge itself):
# (name, scenario predicate, corruption of the observation, clause that must be reported)
NEGATIVES = [
    ("body_emptied", lambda sc: sc["body"] and not sc["plugs"], lambda o: {**o, "body": ""}, "C17.body_changed"),
    ("param_dropped", lambda sc: sc["params"] and not sc["plugs"], lambda o: {**o, "query": o["query"][1:]}, "C17.caller_params_changed"),
    ("cookie_dropped", lambda sc: sc["cookies"] and not sc["plugs"], lambda o: {**o, "cookies": []}, "C17.caller_params_changed"),
    ("default_dropped", lambda sc: sc["dflt"] == "tag" and not sc["plugs"], lambda o: {**o, "headers": _without(o["headers"], "x-def")}, "C17.header_precedence"),
    ("key_renamed", lambda sc: sc["plugs"] == ["KH"] and sc["kn"] == "disjoint",
     lambda o: {**o, "headers": [["X-API-Key", "x-api-key", h[2]] if h[1] == "x-custom-key" else h for h in o["headers"]]}, "C17.apikey_name"),
    ("key_dropped", lambda sc: sc["plugs"] == ["KH"] and sc["kn"] == "disjoint", lambda o: {**o, "headers": _without(o["headers"], "x-custom-key")}, "C17.apikey_location"),
    ("token_old", lambda sc: sc["plugs"] == ["OR"] and sc["ca"] == "none",
     lambda o: {**o, "headers": [[h[0], h[1], "Bearer tok-r0"] if h[1] == "authorization" else h for h in o["headers"]]}, "C17.token_stale"),
    ("first_plugin_wins", lambda sc: sc["plugs"] == ["B", "O"] and sc["ca"] == "none",
     lambda o: {**o, "headers": [[h[0], h[1], "Bearer tok-b"] if h[1] == "authorization" else h for h in o["headers"]]}, "C17.plugin_order"),
]


def replay_and_judge(chk: Check, scen: list[dict], label: str, design_dev: Counter, verbose: bool = False, negatives: bool = False) -> None:
    jobs = [{"id": f"{label}-{i}", "cfg": s["cfg"]} for i, s in enumerate(scen)]
    res = core.parallel_py(chk.scratch, "harness.w_transport", jobs)
    negs = []
    if negatives:
        for name, pred, corrupt, clause in NEGATIVES:
            for j, s, r in zip(jobs, scen, res):
                if pred(s["sc"]) and r["obs"]["err"] == "none":
                    negs.append({"id": f"neg-{label}-{name}", "base": j["id"], "sc": s["sc"], "obs": corrupt(r["obs"]), "expect": clause, "name": name})
                    break
    d = chk.scratch.sub("traces")
    tf = d / "traces.ndjson"
    with tf.open("w") as f:
        for j, s, r in zip(jobs, scen, res):
            f.write(json.dumps({"id": j["id"], "sc": s["sc"], "obs": r["obs"]}) + "\n")
        for n in negs:
            f.write(json.dumps({"id": n["id"], "sc": n["sc"], "obs": n["obs"]}) + "\n")
    r = run_tlc(chk.scratch, "Trace_Transport", "SPECIFICATION Spec\nCHECK_DEADLOCK FALSE\n", env={"TRACE_FILE": str(tf)}, coverage=len(scen) < 5000)
    chk.add_tlc(f"Trace_Transport[{label}]", r)
    vs = {v["id"]: v for v in r.printed.get("VERDICT", [])}
    chk.require(len(vs) == len(jobs) + len(negs), f"monitor produced {len(vs)} verdicts for {len(jobs) + len(negs)} traces")
    for n in negs:
        got = [f["clause"] for f in vs[n["id"]].get("fails") or []]
        if vs[n["base"]].get("fails"):
            # the real observation it was derived from is itself failing (a tree that violates C17 there): the corruption
            # is not meaningful, the violation is reported through the normal path
            chk.cov.setdefault("negative_traces_rejected", {})[n["name"]] = "skipped: base observation already failing"
            continue
        chk.require(n["expect"] in got, f"negative trace {n['name']} ({json.dumps(n['sc'])}) was not rejected with {n['expect']}: monitor said {got}")
        chk.cov.setdefault("negative_traces_rejected", {})[n["name"]] = n["expect"]
    chk.cov["traces_validated_against_impl"] += len(jobs)
    chk.count(len(jobs))
    ndrift = 0
    for j, s, o in zip(jobs, scen, res):
        v = vs[j["id"]]
        chk.require(v["wellformed"], f"scenario {j['id']} is outside the specified scenario space")
        sc, cfg = s["sc"], s["cfg"]
        a = v["ante"]
        chk.clause("C17.header_precedence", a["headers"])
        chk.clause("C17.plugin_order", a["plugin_headers"])
        chk.clause("C17.apikey_location", a["keys"])
        chk.clause("C17.apikey_name", a["keys"])
        chk.clause("C17.caller_params_changed", (1 if a["params"] else 0) + (1 if a["cookies"] else 0))
        chk.clause("C17.body_changed", a["body"])
        chk.clause("C17.token_stale", a["refresh"])
        if sc["plugs"] or sc["short"] or (cfg["defaults"] and cfg["reqHeaders"]):
            chk.nontrivial(sc)
        # the SCEN line's design verdict and the monitor's evaluation of the model are the same computation
        d_scen = sorted(fkey(f) for f in (s.get("design") or []))
        d_mon = sorted(fkey(f) for f in (v.get("model_fails") or []))
        chk.require(s.get("design") is None or d_scen == d_mon, f"design verdict of {j['id']} differs between Transport.tla and Trace_Transport.tla")
        for k in d_mon:
            design_dev[k] += 1
        if v["drift"]:
            ndrift += 1
            if ndrift <= 3:
                chk.note_drift(f"{label}: real request differs from the as-is model for {json.dumps(sc)}: observed {json.dumps(_brief(o['obs']))}")
        for f in v.get("fails") or []:
            # full detail for the first observations of every (clause, locus); later ones only carry the scenario
            k = fkey(f)
            _seen[k] = _seen.get(k, 0) + 1
            if _seen[k] <= 5:
                chk.fail(f["clause"], clean_locus(f["locus"]), {"sc": sc, "cfg": cfg}, "observed " + json.dumps(_brief(o["obs"])))
            else:
                chk.fail(f["clause"], clean_locus(f["locus"]), {"sc": sc}, "")
        if verbose:
            print("SCENARIO", json.dumps(sc))
            print("CONFIG  ", json.dumps(cfg))
            print("OBSERVED", json.dumps(o["obs"]))
            print("VERDICT ", json.dumps(v))
    if ndrift > 3:
        chk.note_drift(f"{label}: {ndrift} requests in total differ from the as-is model")
    if scen:
        i = (len(scen) * 2) // 3
        chk.sample({"family": label, "scenario": scen[i]["sc"], "observed": _brief(res[i]["obs"]), "failing": [f["clause"] for f in vs[jobs[i]["id"]].get("fails") or []]})


_seen: dict[str, int] = {}
HTTPX_OWN = {"host", "accept", "accept-encoding", "connection", "user-agent", "content-length", "content-type"}


def _brief(obs: dict) -> dict:
    o = dict(obs)
    o["headers"] = [[h[0], h[2]] for h in obs["headers"] if h[1] not in HTTPX_OWN]
    return o


def run(chk: Check) -> None:
    thorough = chk.tier == "thorough"
    chk.cov["rule"] = (
        "TLC enumerates every scenario of Transport.tla: ordered subsets of the 7 plug-in configurations (Bearer, ApiKey header/"
        "query/cookie, Headers, OAuth2 with/without refresh) of size <=2 (quick) / <=3 (thorough), every CompositeAuth wrapping "
        "(direct, flat, nested left/right), the bearer_token= shortcut alone and next to one plug-in, defaults x per-request "
        "header-name pattern {none, disjoint, equal, case variant}, a caller Authorization header {none, equal, case variant} x "
        "{defaults, per-request}, API-key header name and HeadersAuth name patterns {disjoint, equal, case variant}, caller params / "
        "cookies / body present or not (quick tier and three-plug-in sequences: body present iff cookies absent). Every scenario is replayed on the real "
        "HttpxTransport; non-trivial = at least one plug-in or the shortcut or defaults and per-request headers both present, "
        "distinct by scenario record"
    )
    chk.assumptions += [
        "the request is observed as the httpx.Request handed to an httpx.MockTransport injected by wrapping httpx.AsyncClient.__init__",
        "the effective value of a header is the ordered list of values sent under that name compared case-insensitively; the "
        "reference requires exactly one value",
        "per-request headers are passed as a dict (what generated clients do); non-dict header containers are outside the family",
        "httpx's own headers (host, accept, user-agent, content-length, ...) are not judged",
    ]
    design_dev: Counter = Counter()
    if thorough:
        # all sequences of <= 2 plug-ins with the body dimension free, then the 210 x 3 three-plug-in composites
        # partitioned by their first plug-in (body tied to the cookie dimension)
        chunks = [(2, "any", False)] + [(3, k, True) for k in KINDS]
    else:
        chunks = [(2, "any", True)]
    side = _SubScratch(chk, "side")
    with ThreadPoolExecutor(max_workers=1) as pool:
        # the side runs (coverage instance, "fixed" variant) proceed while the as-is pipeline of the same chunk runs
        futs = [(pool.submit(coverage_run, side), True)]
        for mp, first, tied in chunks:
            futs.append((pool.submit(design_fixed, side, mp, first, tied), False))
        for mp, first, tied in chunks:
            scen = design_as_is(chk, mp, first, tied)
            if scen:
                replay_and_judge(chk, scen, f"{mp}{first}", design_dev, negatives=True)
        for fut, need in futs:
            name, r, what = fut.result()
            account_side_run(chk, name, r, what, need)
    findings = [f for f in core.load_findings() if f.get("property") == chk.prop]
    dd = []
    for k, n in sorted(design_dev.items()):
        clause, locus = json.loads(k)
        dd.append({"clause": clause, "locus": locus, "scenarios": n, "finding": finding_for(findings, clause, locus)})
    chk.cov["design_deviations"] = dd
    if not chk.fails or all(f["clause"] != "C17.design_invariant" for f in chk.fails):
        missing = [n[0] for n in NEGATIVES if n[0] not in chk.cov.get("negative_traces_rejected", {})]
        chk.require(not missing, f"negative traces never exercised: {missing}")
    for c in CLAUSES:
        chk.require(chk.cov["clauses_checked"].get(c, 0) > 0, f"clause {c} was never evaluated")
    chk.cov["exhaustive"] = True


def replay(chk: Check, path: str) -> None:
    rec = json.loads(open(path).read())
    s = rec["scenario"]
    if "sc" not in s:
        raise core.MachineryError("replay file carries no scenario (design-level records are re-run by the full check)")
    replay_and_judge(chk, [{"sc": s["sc"], "cfg": s["cfg"], "design": None}], "replay", Counter(), verbose=True)
    for f in chk.fails:
        print("REPLAY-FAIL", f["clause"], json.dumps(f["locus"], sort_keys=True))
