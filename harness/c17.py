"""C17 - the transport applies defaults, per-request headers and auth plug-ins as documented.

(A) design model checking of specs/Transport.tla (a SESSION of requests through one transport as a state machine) over
    the whole scenario space: the code path AS IT IS (clauses it violates are evaluated into a verdict and printed per
    scenario, the clauses it satisfies are real INVARIANTs / an action PROPERTY), the variant "fixed" (DesignOK as
    INVARIANT: the reference is satisfiable) and the deliberately broken variant "aliased_defaults" (must violate the
    isolation properties: they bind);
(B) the same run prints every scenario with its concretisation (SCEN lines); harness/w_transport.py builds the REAL
    HttpxTransport for each over an httpx.MockTransport, sends the session's requests through that one transport and
    captures every request that leaves it;
(C) specs/Trace_Transport.tla (run by TLC) judges every captured request with TransportCore!SessionFailures - the
    operator that judged the modelled wires - and says whether the implementation-shaped model predicted them (DRIFT
    otherwise).

Three families: "single" (one request; all plug-in orders / wrappings / overlap patterns), "session" (2-3 requests over
one transport; per-request header pattern per position, refresh-callback answers new / same / "" / None per position) and
"nesting" (the auth configuration as a tree: every nesting of CompositeAuth over plug-ins that overlap in what they set).
"""

from __future__ import annotations

import json
from collections import Counter
from concurrent.futures import ThreadPoolExecutor
from dataclasses import dataclass
from typing import Any

from . import core
from .core import Check, run_tlc, tla

LEVEL = "model_checking"

KINDS = ["B", "KH", "KQ", "KC", "H", "O", "OR"]
ACTIONS = ["Defaults", "PerRequest", "Enter", "Exit", "Refresh", "Plugin", "Shortcut", "Send", "Judge"]
# hold for the code path as written
HOLDING = ["TypeOK", "MachineIsModel", "KeyPlacement", "CallerArgsUntouched", "TokenFresh", "DefaultsAsConfigured", "RequestIsolation"]
HOLDING_PROPS = ["DefaultsUnchanged"]
FIXED = HOLDING + ["SentEqualsFold", "DesignOK"]
# requests in flight together (TransportConc.tla)
ACTIONS_CONC = ["Start", "Enter", "Exit", "AwaitBegin", "AwaitEnd", "Plugin", "Send", "Judge"]
HOLDING_CONC = ["TypeOK", "MachineIsModel", "KeyPlacement", "CallerArgsUntouched", "TokenFresh", "RequestIsolation", "NothingForeign"]
CLAUSES = [
    "C17.header_precedence",
    "C17.plugin_order",
    "C17.apikey_location",
    "C17.apikey_name",
    "C17.caller_params_changed",
    "C17.body_changed",
    "C17.token_stale",
    "C17.defaults_mutated",
    "C17.request_isolation[later requests judged]",
    "C17.token_stale[no-op refresh answers]",
    "C17.request_isolation[requests in flight together]",
]


@dataclass(frozen=True)
class Chunk:
    family: str  # "single" | "session" | "nesting" | "conc" (requests in flight together: TransportConc.tla)
    max_plugins: int
    max_reqs: int
    first: str
    tied: bool
    max_tree: int = 9

    @property
    def label(self) -> str:
        return f"{self.family}:p{self.max_plugins}{self.first},r{self.max_reqs}"

    @property
    def module(self) -> str:
        return "TransportConc" if self.family == "conc" else "Transport"


def design_cfg(c: Chunk, variant: str, emit: bool, invariants: list[str], props: list[str]) -> str:
    inv = "".join(f"INVARIANT {i}\n" for i in invariants) + "".join(f"PROPERTY {i}\n" for i in props)
    if c.family == "conc":
        return f"""SPECIFICATION Spec
CONSTANTS
 MaxPlugins = {c.max_plugins}
 NReqs = {c.max_reqs}
 Variant = {tla(variant)}
 Emit = {tla(emit)}
{inv}CHECK_DEADLOCK FALSE
"""
    return f"""SPECIFICATION Spec
CONSTANTS
 MaxPlugins = {c.max_plugins}
 MaxReqs = {c.max_reqs}
 MaxTreeLen = {c.max_tree}
 Family = {tla(c.family)}
 First = {tla(c.first)}
 Variant = {tla(variant)}
 BodyTied = {tla(c.tied)}
 Emit = {tla(emit)}
{inv}CHECK_DEADLOCK FALSE
"""


def clean_locus(l: dict[str, Any]) -> dict[str, Any]:
    return {k: v for k, v in l.items() if v != ""}


def fkey(f: dict[str, Any]) -> str:
    return json.dumps([f["clause"], clean_locus(f["locus"])], sort_keys=True)


def finding_for(findings: list[dict], clause: str, locus: dict[str, Any]) -> str:
    for e in findings:
        if e.get("status") == "finding" and e.get("clause") == clause:
            if all((locus.get(k) in v) if isinstance(v, list) else (locus.get(k) == v) for k, v in (e.get("match") or {}).items()):
                return e["id"]
    return ""


class _SubScratch:
    """A private numbering space inside the check's scratch directory, so that TLC runs / workers started from helper
    threads do not share core.Scratch's counter."""

    def __init__(self, chk: Check, name: str):
        self.path = chk.scratch.path / name
        self.path.mkdir(parents=True, exist_ok=True)
        self._n = 0

    def sub(self, name: str):
        self._n += 1
        p = self.path / f"{self._n:03d}_{name}"
        p.mkdir(parents=True)
        return p


# ---------------------------------------------------------------------------------------------
# side runs (threads; results are accounted by the main thread)


def coverage_run(sub: _SubScratch):
    """Small instances with -coverage: every action of the machine must fire (vacuity guard for the big runs, which
    run without -coverage because it costs 2-3x)."""
    c = Chunk("single", 1, 1, "any", True)
    r = run_tlc(sub, "Transport", design_cfg(c, "as_is", False, HOLDING, HOLDING_PROPS), coverage=True, allow_violation=True, workers=4)
    return "Transport[as_is,coverage," + c.label + "]", r, {"variant": "as_is", "chunk": c.label}, "coverage"


def design_fixed(sub: _SubScratch, c: Chunk):
    r = run_tlc(sub, "Transport", design_cfg(c, "fixed", False, FIXED, HOLDING_PROPS), allow_violation=True, workers=8)
    return f"Transport[fixed,{c.label}]", r, {"variant": "fixed", "chunk": c.label}, "holds"


def design_broken(sub: _SubScratch):
    """The variant in which the prepared headers alias the transport's defaults dict must violate the isolation
    properties - otherwise DefaultsUnchanged / RequestIsolation / DefaultsAsConfigured would be vacuous."""
    c = Chunk("session", 0, 2, "any", True)
    r = run_tlc(sub, "Transport", design_cfg(c, "aliased_defaults", False, ["DefaultsAsConfigured", "RequestIsolation"], HOLDING_PROPS), allow_violation=True, workers=2)
    return f"Transport[aliased_defaults,{c.label}]", r, {"variant": "aliased_defaults", "chunk": c.label}, "must_fail"


def design_broken_conc(sub: _SubScratch, variant: str):
    """One dict per TRANSPORT for what the plug-ins are handed ("shared_scratch") / for the outgoing arguments
    ("shared_request_args") instead of one per request: with two requests in flight these designs must violate the
    per-request properties."""
    c = Chunk("conc", 1, 2, "any", True)
    inv = ["KeyPlacement", "CallerArgsUntouched", "TokenFresh", "RequestIsolation", "NothingForeign"]
    r = run_tlc(sub, "TransportConc", design_cfg(c, variant, False, inv, []), allow_violation=True, workers=2)
    return f"TransportConc[{variant},{c.label}]", r, {"variant": variant, "chunk": c.label}, "must_fail"


def account_side_run(chk: Check, name: str, r: core.TlcResult, what: dict, mode: str) -> None:
    chk.add_tlc(name, r)
    if mode == "must_fail":
        chk.require(bool(r.violated), f"the broken design {what['variant']} satisfies the isolation properties: they do not bind")
        chk.cov.setdefault("broken_designs_rejected_by", {})[what["variant"]] = r.violated[0]
        return
    chk.require(r.distinct > 0, f"{name} explored nothing")
    if r.violated:
        # as_is: a clause the code path is believed to satisfy fails in the model; fixed: the reference is not met by the
        # design that is meant to meet it
        chk.fail("C17.design_invariant", {"invariant": r.violated[0], "variant": what["variant"]}, what, r.out[-1500:])
    elif mode == "coverage":
        for a in ACTIONS:
            chk.require(r.coverage.get(a, (0, 0))[1] > 0, f"vacuous design run: action {a} never taken")


# ---------------------------------------------------------------------------------------------
# the pipeline of one chunk: design (as is) + generation -> replay on the real transport -> monitor


def complexity(sc: dict) -> int:
    """Number of features switched on: the first failing scenario of every (clause, locus) becomes the replay file."""
    n = 3 * len(sc["plugs"]) + (1 if sc["short"] else 0) + 4 * (len(sc["reqs"]) - 1) + len(sc["sched"])
    n += sum(1 for k in ("dflt", "ca") if sc[k] != "none") + sum(1 for k in ("kn", "hn") if sc[k] != "disjoint")
    n += sum(1 for r in sc["reqs"] if r != "none") + sum(1 for r in sc["rets"] if r != "new")
    n += sum(1 for k in ("params", "cookies", "body") if sc[k]) + sum(1 for t in sc["tree"] if t == "(")
    return n


def _without(headers: list, lname: str) -> list:
    return [h for h in headers if h[1] != lname]


def _set_header(headers: list, lname: str, value: str) -> list:
    return [[h[0], h[1], value] if h[1] == lname else h for h in headers]


def _at(i: int, f):
    """corrupt the i-th observation of a session"""
    return lambda obs: [f(o) if j == i else o for j, o in enumerate(obs)]


def _single(sc: dict) -> bool:
    return len(sc["reqs"]) == 1


# corrupted copies of real observations the monitor must reject with the named clause (the binding of the judge itself):
# (name, scenario predicate, corruption of the session's observations, clause that must be reported)
NEGATIVES = [
    ("body_emptied", lambda sc: _single(sc) and sc["body"] and not sc["plugs"], _at(0, lambda o: {**o, "body": ""}), "C17.body_changed"),
    ("param_dropped", lambda sc: _single(sc) and sc["params"] and not sc["plugs"], _at(0, lambda o: {**o, "query": o["query"][1:]}), "C17.caller_params_changed"),
    ("cookie_dropped", lambda sc: _single(sc) and sc["cookies"] and not sc["plugs"], _at(0, lambda o: {**o, "cookies": []}), "C17.caller_params_changed"),
    ("default_dropped", lambda sc: _single(sc) and sc["dflt"] == "tag" and not sc["plugs"], _at(0, lambda o: {**o, "headers": _without(o["headers"], "x-def")}), "C17.header_precedence"),
    ("key_renamed", lambda sc: _single(sc) and sc["plugs"] == ["KH"] and sc["kn"] == "disjoint",
     _at(0, lambda o: {**o, "headers": [["X-API-Key", "x-api-key", h[2]] if h[1] == "x-custom-key" else h for h in o["headers"]]}), "C17.apikey_name"),
    ("key_dropped", lambda sc: _single(sc) and sc["plugs"] == ["KH"] and sc["kn"] == "disjoint", _at(0, lambda o: {**o, "headers": _without(o["headers"], "x-custom-key")}), "C17.apikey_location"),
    ("token_old", lambda sc: _single(sc) and sc["plugs"] == ["OR"] and sc["ca"] == "none",
     _at(0, lambda o: {**o, "headers": _set_header(o["headers"], "authorization", "Bearer tok-r0")}), "C17.token_stale"),
    ("first_plugin_wins", lambda sc: _single(sc) and sc["plugs"] == ["B", "O"] and sc["ca"] == "none",
     _at(0, lambda o: {**o, "headers": _set_header(o["headers"], "authorization", "Bearer tok-b")}), "C17.plugin_order"),
    # sessions
    ("override_leaks", lambda sc: sc["reqs"] == ["equal", "none"] and not sc["plugs"] and not sc["short"] and sc["ca"] == "none",
     _at(1, lambda o: {**o, "headers": _set_header(o["headers"], "x-tag", "r1-tag")}), "C17.header_precedence"),
    ("extra_header_leaks", lambda sc: sc["reqs"] == ["disjoint", "none"] and sc["dflt"] == "tag" and not sc["plugs"] and not sc["short"] and sc["ca"] == "none",
     _at(1, lambda o: {**o, "headers": o["headers"] + [["X-Req", "x-req", "r1-only"]]}), "C17.header_precedence"),
    ("defaults_grew", lambda sc: sc["reqs"] == ["disjoint", "none"] and sc["dflt"] == "tag" and not sc["plugs"],
     _at(0, lambda o: {**o, "defaults": o["defaults"] + [["X-Req", "r1-only"]]}), "C17.defaults_mutated"),
    ("token_wiped", lambda sc: sc["plugs"] == ["OR"] and sc["rets"] == ["new", "empty"] and sc["ca"] == "none",
     _at(1, lambda o: {**o, "headers": _set_header(o["headers"], "authorization", "Bearer ")}), "C17.token_stale"),
    # nesting
    ("nested_member_order", lambda sc: sc["plugs"] == ["B", "H"] and sc["tree"] == ["(", "(", "*", "*", ")", ")"],
     _at(0, lambda o: {**o, "headers": _set_header(o["headers"], "authorization", "Bearer tok-b")}), "C17.plugin_order"),
    ("earlier_key_wins", lambda sc: sc["plugs"] == ["KQ", "KQ2"] and sc["tree"] == ["(", "(", "*", "*", ")", ")"],
     _at(0, lambda o: {**o, "query": [[k, "key-q" if v == "key-q2" else v] for k, v in o["query"]]}), "C17.plugin_order"),
    # requests in flight together
    ("other_requests_headers", lambda sc: bool(sc["sched"]) and sc["plugs"] == ["OR"] and sc["reqs"] == ["equal", "disjoint"],
     lambda obs: [{**obs[0], "headers": [h for h in obs[1]["headers"] if h[1] != "authorization"] + [h for h in obs[0]["headers"] if h[1] == "authorization"]}, obs[1]],
     "C17.header_precedence"),
    ("other_requests_body", lambda sc: bool(sc["sched"]) and sc["plugs"] == ["OR"], _at(0, lambda o: {**o, "body": "payload-2"}), "C17.body_changed"),
    ("other_requests_params", lambda sc: bool(sc["sched"]) and sc["plugs"] == ["OR"], _at(0, lambda o: {**o, "query": [["q", "2"], ["page", "2"]]}), "C17.caller_params_changed"),
    ("callback_shown_nothing", lambda sc: sc["plugs"] == ["OR"] and sc["rets"] == ["none", "new"] and sc["ca"] == "none",
     _at(1, lambda o: {**o, "refresh": ["<none>"]}), "C17.token_stale"),
]

HTTPX_OWN = {"host", "accept", "accept-encoding", "connection", "user-agent", "content-length", "content-type"}


def _brief(obs: list[dict]) -> list[dict]:
    out = []
    for ob in obs:
        o = {k: v for k, v in ob.items() if k not in ("defaults",)}
        o["headers"] = [[h[0], h[2]] for h in ob["headers"] if h[1] not in HTTPX_OWN]
        if ob.get("defaults"):
            o["defaults_after"] = ob["defaults"]
        out.append(o)
    return out


def pipeline(sub: _SubScratch, c: Chunk, scen_override: list[dict] | None = None, negatives: bool = True) -> dict:
    """Thread-safe part: TLC design + generation, replay on the real code, TLC monitor.  Returns a bundle for account()."""
    b: dict[str, Any] = {"chunk": c, "tlc": [], "violated": None, "scen": [], "res": [], "vs": {}, "negs": []}
    if scen_override is None:
        conc = c.family == "conc"
        r = run_tlc(sub, c.module, design_cfg(c, "as_is", True, HOLDING_CONC if conc else HOLDING, HOLDING_PROPS), allow_violation=True, workers=12, coverage=conc, timeout=2700)
        b["tlc"].append((f"{c.module}[as_is,{c.label}]", r))
        if conc and not r.violated:
            for a in ACTIONS_CONC:
                if r.coverage.get(a, (0, 0))[1] <= 0:
                    raise core.MachineryError(f"vacuous concurrent design run: action {a} never taken")
        if r.violated:
            b["violated"] = (r.violated[0], r.out[-1500:])
            return b
        scen = r.printed.get("SCEN", [])
        if not scen:
            raise core.MachineryError(f"Transport.tla emitted no scenario for {c.label}")
        scen.sort(key=lambda s: (complexity(s["sc"]), json.dumps(s["sc"], sort_keys=True)))
    else:
        scen = scen_override
    jobs = [{"id": f"{c.label}-{i}", "cfg": s["cfg"]} for i, s in enumerate(scen)]
    res = core.parallel_py(sub, "harness.w_transport", jobs, nproc=min(core.NCPU, 12, max(1, len(jobs))))
    negs = []
    if negatives:
        for name, pred, corrupt, clause in NEGATIVES:
            for j, s, r in zip(jobs, scen, res):
                if pred(s["sc"]) and all(o["err"] == "none" for o in r["obs"]):
                    negs.append({"id": f"neg-{c.label}-{name}", "base": j["id"], "sc": s["sc"], "obs": corrupt(r["obs"]), "expect": clause, "name": name})
                    break
    # the monitor: batches of <= MONITOR_BATCH traces per TLC run (bounded memory and run time)
    recs = [{"id": j["id"], "sc": s["sc"], "obs": r["obs"]} for j, s, r in zip(jobs, scen, res)]
    recs += [{"id": n["id"], "sc": n["sc"], "obs": n["obs"]} for n in negs]
    vs: dict[str, Any] = {}
    for k in range(0, len(recs), MONITOR_BATCH):
        d = sub.sub("traces")
        tf = d / "traces.ndjson"
        with tf.open("w") as f:
            for rec in recs[k : k + MONITOR_BATCH]:
                f.write(json.dumps(rec) + "\n")
        r = run_tlc(sub, "Trace_Transport", "SPECIFICATION Spec\nCHECK_DEADLOCK FALSE\n", env={"TRACE_FILE": str(tf)}, coverage=len(recs) < 2000, workers=12, timeout=2700)
        b["tlc"].append((f"Trace_Transport[{c.label}#{k // MONITOR_BATCH}]", r))
        for v in r.printed.get("VERDICT", []):
            vs[v["id"]] = v
    if len(vs) != len(recs):
        raise core.MachineryError(f"monitor produced {len(vs)} verdicts for {len(recs)} traces ({c.label})")
    b.update(scen=scen, res=res, vs=vs, negs=negs, jobs=jobs)
    return b


MONITOR_BATCH = 30000
_seen: dict[str, int] = {}


def account(chk: Check, b: dict, design_dev: Counter, verbose: bool = False) -> None:
    c: Chunk = b["chunk"]
    label = c.label
    for name, r in b["tlc"]:
        chk.add_tlc(name, r)
    if b["violated"]:
        chk.fail("C17.design_invariant", {"invariant": b["violated"][0], "variant": "as_is"}, {"chunk": label}, b["violated"][1])
        return
    scen, res, vs, jobs = b["scen"], b["res"], b["vs"], b["jobs"]
    for n in b["negs"]:
        got = [f["clause"] for f in vs[n["id"]].get("fails") or []]
        if vs[n["base"]].get("fails"):
            # the real observation it was derived from is itself failing (a tree that violates C17 there): the corruption
            # is not meaningful, the violation is reported through the normal path
            chk.cov.setdefault("negative_traces_rejected", {}).setdefault(n["name"], "skipped: base observation already failing")
            continue
        chk.require(n["expect"] in got, f"negative trace {n['name']} ({json.dumps(n['sc'])}) was not rejected with {n['expect']}: monitor said {got}")
        chk.cov.setdefault("negative_traces_rejected", {})[n["name"]] = n["expect"]
    nreq = sum(len(s["sc"]["reqs"]) for s in scen)
    chk.cov["traces_validated_against_impl"] += len(jobs)
    chk.cov["requests_replayed"] = chk.cov.get("requests_replayed", 0) + nreq
    chk.count(len(jobs))
    ndrift = 0
    for j, s, o in zip(jobs, scen, res):
        v = vs[j["id"]]
        chk.require(v["wellformed"], f"scenario {j['id']} is outside the specified scenario space")
        sc, cfg = s["sc"], s["cfg"]
        a = v["ante"]
        chk.clause("C17.header_precedence", a["headers"])
        chk.clause("C17.plugin_order", a["plugin_headers"])
        chk.clause("C17.apikey_location", a["keys"])
        chk.clause("C17.apikey_name", a["keys"])
        chk.clause("C17.caller_params_changed", (1 if a["params"] else 0) + (1 if a["cookies"] else 0))
        chk.clause("C17.body_changed", a["body"])
        chk.clause("C17.token_stale", a["refresh"])
        chk.clause("C17.defaults_mutated", a["defaults"])
        chk.clause("C17.request_isolation[later requests judged]", a["later"])
        chk.clause("C17.token_stale[no-op refresh answers]", a["noop_refresh"])
        chk.clause("C17.request_isolation[requests in flight together]", a["inflight"])
        if sc["plugs"] or sc["short"] or len(sc["reqs"]) > 1 or (cfg["defaults"] and cfg["requests"][0]):
            chk.nontrivial(sc)
        # the SCEN line's design verdict and the monitor's evaluation of the model are the same computation
        d_scen = sorted(fkey(f) for f in (s.get("design") or []))
        d_mon = sorted(fkey(f) for f in (v.get("model_fails") or []))
        chk.require(s.get("design") is None or d_scen == d_mon, f"design verdict of {j['id']} differs between Transport.tla and Trace_Transport.tla")
        for k in d_mon:
            design_dev[k] += 1
        if v["drift"]:
            ndrift += 1
            if ndrift <= 3:
                chk.note_drift(f"{label}: real requests differ from the as-is model for {json.dumps(sc)}: observed {json.dumps(_brief(o['obs']))}")
        for f in v.get("fails") or []:
            # full detail for the first observations of every (clause, locus); later ones only carry the scenario
            k = fkey(f)
            _seen[k] = _seen.get(k, 0) + 1
            if _seen[k] <= 5:
                chk.fail(f["clause"], clean_locus(f["locus"]), {"sc": sc, "cfg": cfg}, "observed " + json.dumps(_brief(o["obs"])))
            else:
                chk.fail(f["clause"], clean_locus(f["locus"]), {"sc": sc}, "")
        if verbose:
            print("SCENARIO", json.dumps(sc))
            print("CONFIG  ", json.dumps(cfg))
            for i, ob in enumerate(o["obs"]):
                print(f"OBSERVED request {i + 1}", json.dumps(ob))
            print("VERDICT ", json.dumps(v))
    if ndrift > 3:
        chk.note_drift(f"{label}: {ndrift} sessions in total differ from the as-is model")
    if scen:
        i = (len(scen) * 2) // 3
        chk.sample({"family": label, "scenario": scen[i]["sc"], "observed": _brief(res[i]["obs"]), "failing": [f["clause"] for f in vs[jobs[i]["id"]].get("fails") or []]})


def run(chk: Check) -> None:
    thorough = chk.tier == "thorough"
    chk.cov["rule"] = (
        "TLC enumerates every scenario of Transport.tla. Family 'single' (one request): ordered subsets of the 7 plug-in "
        "configurations (Bearer, ApiKey header/query/cookie, Headers, OAuth2 with/without refresh) of size <=2 (quick) / <=3 "
        "(thorough), every CompositeAuth wrapping (direct, flat, nested left/right), the bearer_token= shortcut alone and next to "
        "one plug-in, defaults x per-request header-name pattern {none, disjoint, equal, case variant}, a caller Authorization "
        "header {none, equal, case variant} x {defaults, per-request}, API-key header name and HeadersAuth name patterns "
        "{disjoint, equal, case variant}, caller params / cookies / body present or not (quick tier and three-plug-in sequences: "
        "body present iff cookies absent). Family 'session' (one transport, 2 requests; thorough also 3 requests and <=2 "
        "plug-ins): <=1 plug-in, every wrapping / shortcut, every combination of per-request header patterns per position, a "
        "per-request Authorization header on the first request {none, equal, case variant}, every script of refresh-callback "
        "answers per position {new token, same token, '', None}, params / cookies / body on every request. Family 'conc' (TransportConc.tla): 2 (thorough also 3) requests IN "
        "FLIGHT TOGETHER on one transport, every plug-in sequence of <=2 that contains OAuth2-with-refresh (the plug-in that "
        "suspends) in every wrapping, every combination of per-request header patterns, distinct params / cookies / body / path "
        "per request, and EVERY interleaving of start / resume events (TLC explores them; each behaviour is replayed with a "
        "refresh callback that waits for a future the harness resolves in the prescribed order). Family 'nesting' (one "
        "request): the auth configuration as a tree - EVERY nesting of CompositeAuth of <=9 tokens (thorough 11) and depth <=3, "
        "incl. singleton and empty nested groups at any position, over every sequence of 2-3 (thorough 4) distinct plug-ins "
        "that overlap in what they set ({Bearer, OAuth2, OAuth2+refresh, HeadersAuth(Authorization)}; two ApiKeyAuth of the same "
        "location and name for header / query / cookie). Every scenario is "
        "replayed on the real HttpxTransport and every request of it judged; non-trivial = at least one plug-in or the "
        "shortcut or >1 request or defaults and per-request headers both present, distinct by scenario record"
    )
    chk.assumptions += [
        "requests are observed as the httpx.Request handed to an httpx.MockTransport injected by wrapping httpx.AsyncClient.__init__",
        "the transport's default-headers configuration is observed through the dict object the caller passed as default_headers=",
        "the effective value of a header is the ordered list of values sent under that name compared case-insensitively; the "
        "reference requires exactly one value",
        "a refresh callback answering '' or None means 'nothing new': the token in force stays (OAuth2Auth's documented guard)",
        "per-request headers are passed as a dict (what generated clients do); non-dict header containers are outside the family",
        "httpx's own headers (host, accept, user-agent, content-length, ...) are not judged",
    ]
    design_dev: Counter = Counter()
    if thorough:
        # all sequences of <= 2 plug-ins with the body dimension free, then the 210 x 3 three-plug-in composites
        # partitioned by their first plug-in (body tied to the cookie dimension)
        singles = [Chunk("single", 2, 1, "any", False)] + [Chunk("single", 3, 1, k, True) for k in KINDS]
        nestings = [Chunk("nesting", 4, 1, "any", True, 11)]
        concs = [Chunk("conc", 2, 2, "any", True), Chunk("conc", 1, 3, "any", True)]
        sessions = [Chunk("session", 1, 2, "any", True), Chunk("session", 2, 2, "any", True), Chunk("session", 1, 3, "any", True)]
    else:
        singles = [Chunk("single", 2, 1, "any", True)]
        nestings = [Chunk("nesting", 3, 1, "any", True, 9)]
        concs = [Chunk("conc", 2, 2, "any", True)]
        sessions = [Chunk("session", 1, 2, "any", True)]
    side = _SubScratch(chk, "side")

    def lane(name: str, chunks: list[Chunk]) -> list[dict]:
        sub = _SubScratch(chk, name)
        return [pipeline(sub, c) for c in chunks]

    with ThreadPoolExecutor(max_workers=4) as pool:
        # the side runs (coverage instance, "fixed" variant, broken variant) and the session lane proceed while the
        # single-request lane runs; all accounting happens here in the main thread
        f_singles = pool.submit(lane, "singles", singles)
        f_sessions = pool.submit(lane, "sessions", sessions)
        f_nestings = pool.submit(lane, "nestings", nestings + concs)
        f_side = [pool.submit(coverage_run, side), pool.submit(design_broken, side)]
        f_side += [pool.submit(design_broken_conc, side, v) for v in ("shared_scratch", "shared_request_args")]
        f_side += [pool.submit(design_fixed, side, c) for c in nestings + sessions + singles]
        for b in f_singles.result():
            account(chk, b, design_dev)
        for b in f_sessions.result():
            account(chk, b, design_dev)
        for b in f_nestings.result():
            account(chk, b, design_dev)
        for fut in f_side:
            name, r, what, mode = fut.result()
            account_side_run(chk, name, r, what, mode)
    findings = [f for f in core.load_findings() if f.get("property") == chk.prop]
    dd = []
    for k, n in sorted(design_dev.items()):
        clause, locus = json.loads(k)
        dd.append({"clause": clause, "locus": locus, "scenarios": n, "finding": finding_for(findings, clause, locus)})
    chk.cov["design_deviations"] = dd
    if all(f["clause"] != "C17.design_invariant" for f in chk.fails):
        missing = [n[0] for n in NEGATIVES if n[0] not in chk.cov.get("negative_traces_rejected", {})]
        chk.require(not missing, f"negative traces never exercised: {missing}")
        for c in CLAUSES:
            chk.require(chk.cov["clauses_checked"].get(c, 0) > 0, f"clause {c} was never evaluated")
    chk.cov["exhaustive"] = True


def replay(chk: Check, path: str) -> None:
    rec = json.loads(open(path).read())
    s = rec["scenario"]
    if "sc" not in s:
        raise core.MachineryError("replay file carries no scenario (design-level records are re-run by the full check)")
    if "cfg" not in s:
        raise core.MachineryError("replay file carries the scenario only (a later observation of a (clause, locus) class); use the first replay file of that class")
    sub = _SubScratch(chk, "replay")
    b = pipeline(sub, Chunk("replay", 3, 3, "any", True), scen_override=[{"sc": s["sc"], "cfg": s["cfg"], "design": None}], negatives=False)
    account(chk, b, Counter(), verbose=True)
    for f in chk.fails:
        print("REPLAY-FAIL", f["clause"], json.dumps(f["locus"], sort_keys=True))
