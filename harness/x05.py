"""X05 (beyond the listed properties) - the operation loader: OpenAPI document -> IR of operations.

specs/OpLoad.tla describes documents as data (path items with their key order, shared `parameters`, non-method keys,
operations of all eight methods, parameters / request bodies / responses inline or by `$ref`, reference chains), states
independently of the loader what a document declares (Meaning: effective parameters after reference resolution and the
override rule of the OpenAPI specification, request content types, response table; Strict: validity) and names what every
emitter relies on: OneIROpPerDeclaredOp, EffectiveParams, RefTransparent, NoCrossTalk, ResponseTable, BodyContent, Total
(one operator, OpLoad!Judge).  TLC (MC_OpLoad) checks the statements on a reference loader, shows that the
implementation-shaped loader fails them exactly in a region stated on the document, and that a loader with a cache of
parsed component responses is caught.  Gen_OpLoad enumerates the documents AND the variants to load (the document, its
inlined twin, every operation alone, items / keys permuted); harness/w_opload.py concretises them, runs the REAL
`load_ir_from_spec` (Python warnings captured) and projects the IR; Trace_OpLoad (TLC) judges every document and
recomputes the implementation-shaped answer (disagreement = DRIFT)."""

from __future__ import annotations

import json
from typing import Any

from . import core
from .concretise import wrap

LEVEL = "model_checking"

CLAUSES = ("OneIROpPerDeclaredOp", "EffectiveParams", "RefTransparent", "NoCrossTalk", "ResponseTable", "BodyContent", "Total")
DESIGN_INVARIANTS = (
    "FamilyWellFormed", "MeaningOnePerKey", "EffectiveUnique", "EffectiveOverride", "MeaningRefTransparent", "MeaningLocal", "MeaningOrderFree",
    "VariantsWellFormed", *CLAUSES, "AsIsOnlyKnown", "AsIsCleanOutside", "AsIsKnownIsReal", "AsIsNoCrossTalk", "LeakyIsCaught",
)
# sampled parts of the family: parameter-list pairs of length <= 2, response-entry pairs, mixed documents (x4)
CHUNK = 3000  # documents per monitor run
SIZES = {"quick": (250, 250, 60), "thorough": (5000, 3000, 500)}


# ------------------------------------------------------------------------------------------------ concretisation
def c_schema(sc: dict[str, Any]) -> dict[str, Any] | None:
    k, a = sc["k"], sc["a"]
    if k == "prim":
        return {"type": a}
    if k == "ref":
        return {"$ref": "#/components/schemas/" + a}
    if k == "obj":
        return {"type": "object", "properties": {a: {"type": "string"}}}
    if k == "enumarr":
        return {"type": "array", "items": {"type": "string", "enum": ["a", "b"]}}
    if k == "none":
        return None
    raise ValueError(k)


def c_param(p: dict[str, Any]) -> dict[str, Any]:
    if p["ref"]:
        return {"$ref": "#/components/parameters/" + p["ref"]}
    d: dict[str, Any] = {"name": p["name"], "in": p["loc"]}
    if p["req"]:
        d["required"] = True
    if p["sch"]["k"] == "content":
        a = p["sch"]["a"]
        d["content"] = {"application/json": {"schema": {"$ref": "#/components/schemas/" + a} if a[0].isupper() else {"type": a}}}
        return d
    s = c_schema(p["sch"])
    if s is not None:
        d["schema"] = s
    return d


def c_media(cts: list[dict[str, Any]]) -> dict[str, Any]:
    out: dict[str, Any] = {}
    for c in cts:
        s = c_schema(c["sch"])
        out[c["ct"]] = {} if s is None else {"schema": s}
    return out


def c_body(b: dict[str, Any]) -> dict[str, Any] | None:
    if b["decl"] == "none":
        return None
    if b["decl"] == "ref":
        return {"$ref": "#/components/requestBodies/" + b["ref"]}
    d: dict[str, Any] = {"description": "a body", "content": c_media(b["cts"])}
    if b["req"] != "absent":
        d["required"] = b["req"] == "true"
    return d


def c_resp(r: dict[str, Any]) -> dict[str, Any]:
    if r["ref"]:
        return {"$ref": "#/components/responses/" + r["ref"]}
    d: dict[str, Any] = {"description": "a response"}
    if r["cts"]:
        d["content"] = c_media(r["cts"])
    return d


def c_op(op: dict[str, Any]) -> dict[str, Any]:
    d: dict[str, Any] = {"summary": "an operation"}
    if op["opid"]:
        d["operationId"] = op["opid"]
    if op["tags"]:
        d["tags"] = list(op["tags"])
    if op["dep"]:
        d["deprecated"] = True
    if op["params"]:
        d["parameters"] = [c_param(p) for p in op["params"]]
    b = c_body(op["body"])
    if b is not None:
        d["requestBody"] = b
    # a key the document spells as a YAML integer (`200:`) arrives as a Python int
    d["responses"] = {(int(e["key"]) if e["int"] else e["key"]): c_resp(e["r"]) for e in op["resps"]}
    if op["sec"]:
        d["security"] = [{}]
    return d


EXTRA_VALUES: dict[str, Any] = {
    "summary": "a path item",
    "description": "text that mentions get and post",
    "servers": [{"url": "https://x.test/v1"}],
    "x-meta": {"owner": "team", "responses": {"200": {"description": "not an operation"}}},
    "x-list": ["get", 1],
}


def c_item(it: dict[str, Any]) -> dict[str, Any]:
    ops = {o["m"]: o for o in it["ops"]}
    d: dict[str, Any] = {}
    for k in it["keys"]:
        if k == "parameters":
            d[k] = [c_param(p) for p in it["params"]]
        elif k in ops:
            d[k] = c_op(ops[k])
        else:
            d[k] = json.loads(json.dumps(EXTRA_VALUES[k]))
    return d


def concretise(doc: dict[str, Any], comps: dict[str, Any]) -> dict[str, Any]:
    """Abstract document (specs/OpLoad.tla vocabulary) + the component tables Gen_OpLoad printed -> OpenAPI document."""
    schemas = {n: {"type": "object", "properties": {p: {"type": "string"} for p in props.split(",")}} for n, props in comps["schemas"].items()}
    out = wrap(schemas, {it["path"]: c_item(it) for it in doc["items"]}, title="X05")
    out["components"]["parameters"] = {n: c_param(p) for n, p in comps["params"].items()}
    out["components"]["requestBodies"] = {n: c_body(b) for n, b in comps["bodies"].items()}
    out["components"]["responses"] = {n: c_resp(r) for n, r in comps["resps"].items()}
    return out


def tokens(doc: dict[str, Any]) -> list[str]:
    out: list[str] = []
    for it in doc["items"]:
        for o in it["ops"]:
            for t in [o["opid"]] + [e["key"] for e in o["resps"]]:
                if t and t not in out:
                    out.append(t)
    return out


def label(doc: dict[str, Any]) -> str:
    """Short printable form of a document."""
    parts = []
    for it in doc["items"]:
        def pl(ps: list[dict[str, Any]]) -> str:
            return ",".join(("$" + p["ref"]) if p["ref"] else f"{p['name']}@{p['loc']}" for p in ps)
        ops = []
        for o in it["ops"]:
            b = o["body"]
            body = "" if b["decl"] == "none" else " body=" + (("$" + b["ref"]) if b["decl"] == "ref" else "|".join(c["ct"].split("/")[-1] for c in b["cts"]) or "{}")
            rs = ",".join(("int:" if e["int"] else "") + e["key"] + ("=$" + e["r"]["ref"] if e["r"]["ref"] else "") for e in o["resps"])
            ops.append(f"{o['m']}[{o['opid'] or '-'}]({pl(o['params'])}){body} -> {rs}")
        parts.append(f"{it['path']} <{' '.join(it['keys'])}> params({pl(it['params'])}) " + "; ".join(ops))
    return " || ".join(parts)


# ------------------------------------------------------------------------------------------------ the check
def locus_of(f: dict[str, Any], s: dict[str, Any]) -> dict[str, Any]:
    loc: dict[str, Any] = {"what": f["what"]}
    for k in ("via", "kk", "msg"):
        if f[k] not in ("", "none"):
            loc[k] = f[k]
    # is the operation the failure was observed at one of those that share an operationId (OpLoad!Offending)?
    ids = [o["opid"] for it in s["doc"]["items"] if it["path"] == f["path"] for o in it["ops"] if o["m"] == f["m"]]
    if ids and ids[0] and ids[0] in (s.get("offending") or []):
        loc["operation_id_duplicated"] = True
    return loc


def run(chk: core.Check) -> None:
    tier = chk.tier
    nb, nd, nmix = SIZES[tier]
    # (A) design level
    mc = core.run_tlc(chk.scratch, "MC_OpLoad", f'SPECIFICATION Spec\nCONSTANTS Tier = "{tier}"\nWide = {"TRUE" if tier == "thorough" else "FALSE"}\n' + "".join(f"INVARIANT {i}\n" for i in DESIGN_INVARIANTS) + "CHECK_DEADLOCK FALSE\n",
                      workers=4, coverage=True, timeout=900)
    chk.add_tlc("MC_OpLoad[design]", mc)
    regs = mc.printed.get("REGION", [])
    chk.cov["design_documents"] = len(regs)
    chk.cov["design_regions"] = {k: sum(1 for r in regs if r[k] is True) for k in ("chainparam", "chainbody", "chainresp", "override", "contentparam", "leak", "strict")}
    chk.cov["design_regions"]["not_strict"] = sum(1 for r in regs if not r["strict"])
    chk.cov["design_regions"]["asis_failing_documents"] = sum(1 for r in regs if r["asis"] > 0)
    chk.cov["design_regions"]["leaky_failing_documents"] = sum(1 for r in regs if r["leaky"] > 0)
    chk.require(len(regs) > 300 and all(v > 0 for v in chk.cov["design_regions"].values()) and mc.coverage.get("JudgeDoc", (0, 0))[0] > 0,
                f"vacuous MC_OpLoad run: {chk.cov['design_regions']}")
    chk.cov["design_invariants"] = list(DESIGN_INVARIANTS)
    # (B) documents and their variants
    g = core.run_tlc(chk.scratch, "Gen_OpLoad", f'SPECIFICATION GSpec\nCONSTANTS Tier = "{tier}"\nNB = {nb}\nND = {nd}\nNMix = {nmix}\nCHECK_DEADLOCK FALSE\n',
                     workers=4, seed=chk.seed + 11, timeout=900)
    chk.add_tlc("Gen_OpLoad", g)
    comps = g.printed.get("COMPS", [])
    chk.require(len(comps) >= 1, "Gen_OpLoad printed no COMPS line")
    scen = sorted(g.printed.get("SCEN", []), key=lambda s: json.dumps(s["doc"], sort_keys=True))
    chk.require(len(scen) > 800, f"Gen_OpLoad emitted too few documents: {len(scen)}")
    judge(chk, comps[0], scen)
    chk.cov["rule"] = (f"every document of OpLoad!Core({tier}) (methods x key layouts, parameter lists at both levels incl. overrides / $ref / chains, request bodies, "
                       f"response tables incl. shared components, operationId / tags / deprecated / security) + {nb} sampled pairs of parameter lists, {nd} sampled pairs of "
                       f"response entries, {nmix}x4 sampled mixed documents; each with its inlined twin, every operation alone, items / keys permuted")
    chk.cov["exhaustive"] = True


def judge(chk: core.Check, comps: dict[str, Any], scen: list[dict[str, Any]]) -> None:
    jobs = [{"id": f"d{i}", "comps": comps, "variants": s["variants"], "tokens": tokens(s["doc"])} for i, s in enumerate(scen)]
    res = core.parallel_py(chk.scratch, "harness.w_opload", jobs, nproc=min(8, core.NCPU))
    chk.cov["documents"] = len(scen)
    chk.cov["loads"] = sum(len(s["variants"]) for s in scen)
    # the family's notion of validity against an independent validator
    disagree = [(label(s["doc"]), r["valid_real"]) for s, r in zip(scen, res) if r["valid_real"] != "unavailable" and s["strict"] is not None and (r["valid_real"] == "valid") != bool(s["strict"])]
    chk.require(not disagree, f"OpLoad!Strict disagrees with openapi-spec-validator on {len(disagree)} document(s), e.g. {disagree[:2]}")
    chk.cov["validity_cross_checked_with_openapi_spec_validator"] = sum(1 for r in res if r["valid_real"] != "unavailable")
    chk.cov["documents_not_strict"] = sum(1 for s in scen if not s["strict"])
    # (C) TLC judges every document
    verdicts: dict[str, Any] = {}
    tdir = chk.scratch.sub("traces")
    for c in range(0, len(jobs), CHUNK):
        tf = tdir / f"traces_{c}.ndjson"
        with open(tf, "w") as f:
            for j, s, r in list(zip(jobs, scen, res))[c:c + CHUNK]:
                runs = [{"kind": x["kind"], "arg": x["arg"], "obs": {k: v for k, v in x["obs"].items() if k not in ("excmsg", "warns")}} for x in r["runs"]]
                f.write(json.dumps({"id": j["id"], "doc": s["doc"], "runs": runs}) + "\n")
        m = core.run_tlc(chk.scratch, "Trace_OpLoad", "SPECIFICATION Spec\nCHECK_DEADLOCK FALSE\n", workers=8, env={"TRACE_FILE": str(tf)}, timeout=1800)
        chk.add_tlc(f"Trace_OpLoad[{c // CHUNK}]", m)
        verdicts.update({v["id"]: v for v in m.printed.get("VERDICT", [])})
    chk.require(len(verdicts) == len(jobs), f"monitor judged {len(verdicts)} of {len(jobs)} documents")
    chk.cov["traces_validated_against_impl"] += len(jobs)
    drift: dict[str, list[str]] = {}
    other_warnings: dict[str, int] = {}
    for j, s, r in zip(jobs, scen, res):
        v = verdicts[j["id"]]
        ev = v["ev"]
        doc = s["doc"]
        chk.count(len(s["variants"]))
        chk.nontrivial(json.dumps(doc, sort_keys=True))
        main = r["runs"][0]["obs"]
        chk.clause("X05.Total")
        if not main["exc"]:
            chk.clause("X05.OneIROpPerDeclaredOp", ev["ops"])
            chk.clause("X05.EffectiveParams", ev["ops"])
            chk.clause("X05.EffectiveParams[override]", ev["overrides"])
            chk.clause("X05.BodyContent", ev["bodies"])
            chk.clause("X05.ResponseTable", ev["resps"])
            chk.clause("X05.RefTransparent", ev["refops"] if ev["twin"] else 0)
            chk.clause("X05.NoCrossTalk", ev["alone"] + ev["perm"] * ev["ops"])
        elif not ev["strict"]:
            chk.clause("X05.Total[rejection]")
        for x in r["runs"]:
            for w in x["obs"]["warns"]:
                key = w.split(":")[0][:60]
                other_warnings[key] = other_warnings.get(key, 0) + 1
        for f in v["fails"]:
            scenario = {"doc": doc, "variants": s["variants"], "offending": s.get("offending") or [], "comps": comps, "label": label(doc), "at": f"{f['m']} {f['path']}".strip()}
            detail = json.dumps({"fail": f, "doc": label(doc), "main": {"exc": main["exc"], "excmsg": main["excmsg"], "skips": main["skips"],
                                                                        "ops": [o for o in main["ops"] if (o["path"], o["m"]) == (f["path"], f["m"])]}})
            chk.fail("X05." + f["clause"], locus_of(f, s), scenario, detail)
        if v["drift"] != "none":
            drift.setdefault(v["drift"], []).append(label(doc))
        nf = sum(1 for x in chk.cov["samples"] if x["failing"])
        if (v["fails"] and nf < 3) or (not v["fails"] and ev["ops"] > 1 and ev["twin"] and len(chk.cov["samples"]) - nf < 3):
            chk.sample({"doc": label(doc), "loads": [x["kind"] + ":" + "/".join(a for a in x["arg"] if a) for x in r["runs"]],
                        "ir": [f"{o['m']} {o['path']} id={o['opid']} params={[p['name'] + '@' + p['loc'] for p in o['params']]} body={[c['ct'] for c in o['bcts']]} "
                               f"responses={[x['code'] for x in o['resps']]}" for o in main["ops"]],
                        "skipped": main["skips"], "failing": sorted({"X05." + f["clause"] + ":" + f["what"] for f in v["fails"]})})
    chk.cov["other_python_warnings"] = dict(sorted(other_warnings.items()))
    for k, lst in sorted(drift.items()):
        chk.note_drift(f"as-is loader of OpLoad.tla disagrees with the code ({k}) on {len(lst)} document(s), e.g. {lst[0]}")


def replay(chk: core.Check, path: str) -> None:
    rp = json.load(open(path))
    sc = rp["scenario"]
    judge(chk, sc["comps"], [{"doc": sc["doc"], "variants": sc["variants"], "offending": sc.get("offending") or [], "strict": None}])
