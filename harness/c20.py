"""C20 - name derivation is total, valid and collision-safe.

(A) MC_Naming: design check of the allocator of specs/Naming.tla (total sanitiser + de-collision policy) for every
    allocation order; the "loop" policy must refine Naming!Derive, the "counter" policy (the shape of the operation
    de-duplication in EndpointsEmitter) must be refuted by TLC (Injective) - the invariants bite.
(B) Gen_Names: TLC enumerates every string <=4 (thorough <=5) over a 10-symbol alphabet plus keyword variants;
    Gen_Alloc: every allocation order <=3 (thorough <=4) of the colliding families, per namespace kind.
(C) Trace_Naming (total monitor, run by TLC) judges
    (i)  the identifiers returned by the derivations on the generation path (harness/w_naming.py), and
    (ii) the identifiers read back from generated packages (dataclasses.fields + Meta, signatures, Enum members,
         model classes / modules, client methods) against Naming!Derive / Injective / TotalFor.
"""

from __future__ import annotations

import json
import re
from typing import Any

from . import concretise, core
from .core import Check, run_tlc, tla

LEVEL = "model_checking"

ALPHABET = "aB1_- .$é名"
# second stratum (shorter strings): ASCII letter / digit / underscore plus one or two representatives of each Unicode class
#   \w but not XID (superscript two, one half, circled one) | XID_Continue but not XID_Start (combining acute, Arabic-Indic
#   digit three) | NFKC-compatibility letters (ligature fi, black-letter H, full-width f) | case mapping changes length (sharp s,
#   capital I with dot)
UALPHABET = "a1_" + "\u00b2\u00bd\u2460" + "\u0301\u0663" + "\ufb01\u210c\uff46" + "\u00df\u0130"
NS_KINDS = ["props", "params", "schemas", "enum", "ops"]
COMPONENT_NAME = re.compile(r"^[a-zA-Z0-9._-]+$")  # OpenAPI 3.0.3, Components Object keys
SUFFIXED = re.compile(r"(_|[A-Za-z])\d+$")
NAME_CLAUSES = ("C20.empty", "C20.invalid", "C20.keyword")


def cps(s: str) -> list[int]:
    return [ord(c) for c in s]


def txt(c: list[int]) -> str:
    return "".join(chr(x) for x in c)


def fold(s: str) -> str:
    """Case / separator folding with plain string operations (not the sanitiser under test)."""
    return "".join(ch for ch in s.lower() if ch.isalnum())


# ---------------------------------------------------------------------------------------------
# harness-supplied constants of Naming.tla


def py_accepts(s: str) -> bool:
    """Does the interpreter itself take `s` as a name?  (keywords are judged separately, by Keyword)"""
    import keyword

    if not s.isidentifier():
        return False
    if keyword.iskeyword(s):
        return True
    try:
        compile(f"{s} = 1\n", "<c20>", "exec")
        return True
    except (SyntaxError, ValueError):
        return False


def consts_module(nonascii: set[int], idents: set[str] = frozenset(), nfkc: bool = False) -> str:
    """NamingConsts.tla for the interpreter that runs the code under test: per-code-point XID classes for the
    non-ASCII code points that occur, the identifiers the interpreter refuses although every code point passes, and
    (nfkc=True) the NFKC normal form of the identifiers that differ from it."""
    import keyword
    import unicodedata

    nonascii = set(nonascii)
    pairs = []
    for s in sorted(idents):
        n = unicodedata.normalize("NFKC", s)
        if n != s:
            nonascii.update(ord(c) for c in n if ord(c) > 127)
            if nfkc:
                pairs.append((s, n))
    start = {c for c in nonascii if chr(c).isidentifier()}
    cont = {c for c in nonascii if ("a" + chr(c)).isidentifier()}
    kws = ", ".join(tla(cps(k)) for k in keyword.kwlist)

    def per_char(s: str) -> bool:
        def st(c: str) -> bool:
            return (c.isascii() and (c.isalpha() or c == "_")) or (not c.isascii() and ord(c) in start)

        def ct(c: str) -> bool:
            return (c.isascii() and (c.isalnum() or c == "_")) or (not c.isascii() and (ord(c) in start or ord(c) in cont))

        return bool(s) and st(s[0]) and all(ct(c) for c in s[1:])

    refused = []
    for s in sorted(idents):
        if s.isascii():
            continue
        a, b = per_char(s), py_accepts(s)
        if a and not b:
            refused.append(s)
        elif b and not a:
            raise core.MachineryError(f"Naming!Ident would reject {s!r} but the interpreter accepts it")

    def intset(s: set[int]) -> str:
        return "{" + ", ".join(str(x) for x in sorted(s)) + "}"

    return f"""---- MODULE NamingConsts ----
ConstXidStart == {intset(start)}
ConstXidContinue == {intset(cont)}
ConstKeywords == {{{kws}}}
ConstPyInvalid == {{{", ".join(tla(cps(s)) for s in refused)}}}
ConstNfkcPairs == {{{", ".join("<<" + tla(cps(a)) + ", " + tla(cps(b)) + ">>" for a, b in pairs)}}}
ConstDesignNames == {{{tla(cps('x'))}, {tla(cps('X'))}, {tla(cps('x_2'))}, {tla(cps('a-b'))}}}
====
"""


CONST_CFG = """ XidStart <- ConstXidStart
 XidContinue <- ConstXidContinue
 Keywords <- ConstKeywords
 PyInvalid <- ConstPyInvalid
 NfkcPairs <- ConstNfkcPairs
"""


# ---------------------------------------------------------------------------------------------
# (A) design


def design(chk: Check) -> None:
    files = {"NamingConsts.tla": consts_module({ord(c) for c in ALPHABET if ord(c) > 127})}
    for policy in ("loop", "counter"):
        cfg = f"""SPECIFICATION Spec
CONSTANTS
{CONST_CFG} Names <- ConstDesignNames
 NsIds = {{"n1", "n2"}}
 Policy = "{policy}"
 Alphabet = {{97, 66, 49, 95, 45, 36, 233}}
 MaxLen = 3
INVARIANT ValidIdent
INVARIANT Injective
PROPERTY Refines
PROPERTY Stable
PROPERTY Total
CHECK_DEADLOCK FALSE
"""
        r = run_tlc(chk.scratch, "MC_Naming", cfg, files=files, workers=4, coverage=True, allow_violation=True)
        chk.add_tlc(f"MC_Naming[{policy}]", r)
        chk.require(r.coverage.get("Allocate", (0, 0))[1] > 0, f"vacuous design run: Allocate never taken ({policy})")
        if policy == "loop":
            if r.violated:
                chk.fail("C20.design_invariant", {"invariant": r.violated[0], "policy": policy}, {"policy": policy}, r.out[-1500:])
            chk.clause("design.loop_refines_Derive", r.distinct)
        else:
            # negative control: the invariants must refute the unchecked-counter policy
            chk.require("Injective" in r.violated, "MC_Naming did not refute the 'counter' policy: Injective is vacuous")
            chk.cov["design_counterexample"] = "policy 'counter' (per-base counter, generated names not recorded) violates Injective for x, X, x_2"
            chk.clause("design.counter_refuted", 1)


# ---------------------------------------------------------------------------------------------
# (B) scenario generation


def gen_names(chk: Check, maxlen: int, umaxlen: int = 3) -> list[list[int]]:
    cfg = f"""SPECIFICATION Spec
CONSTANTS
 Alphabet = {{{", ".join(str(ord(c)) for c in ALPHABET)}}}
 MaxLen = {maxlen}
 UAlphabet = {{{", ".join(str(ord(c)) for c in UALPHABET)}}}
 UMaxLen = {umaxlen}
CHECK_DEADLOCK FALSE
"""
    r = run_tlc(chk.scratch, "Gen_Names", cfg, files={"NamingConsts.tla": consts_module(set())}, workers=8)
    chk.add_tlc(f"Gen_Names[<={maxlen},unicode<={umaxlen}]", r)
    out = sorted({tuple(x["s"]) for x in r.printed.get("SCEN", [])}, key=lambda t: (len(t), t))
    chk.require(len(out) >= (10 ** (maxlen + 1) - 1) // 9 + len(UALPHABET) ** umaxlen // 2, f"Gen_Names emitted only {len(out)} strings")
    return [list(t) for t in out]


def decode_name(n: str) -> str:
    """Gen_Alloc writes non-ASCII code points as {HEX}."""
    return re.sub(r"\{([0-9A-F]{4,6})\}", lambda m: chr(int(m.group(1), 16)), n)


def gen_alloc(chk: Check, maxlen: int, taglen: int | None = None) -> list[dict]:
    taglen = maxlen - 1 if taglen is None else taglen
    enumlen = maxlen - 1
    cfg = f"""SPECIFICATION Spec
CONSTANTS
 MaxLen = {maxlen}
 NsKinds = {tla(set(NS_KINDS))}
 TagLen = {taglen}
 EnumLen = {enumlen}
 EnumBig = {tla(maxlen > 3)}
CHECK_DEADLOCK FALSE
"""
    r = run_tlc(chk.scratch, "Gen_Alloc", cfg, workers=8)
    chk.add_tlc(f"Gen_Alloc[<={maxlen}]", r)
    sc = r.printed.get("SCEN", [])
    chk.require(len(sc) > 0, "Gen_Alloc produced no scenario")
    for s in sc:
        if s["ns"] != "enumvals":
            s["names"] = [decode_name(n) for n in s["names"]]
    sc.sort(key=lambda d: json.dumps(d, sort_keys=True))
    return sc


# ---------------------------------------------------------------------------------------------
# (C) monitor


def run_monitor(chk: Check, traces: list[dict], label: str) -> dict[str, dict]:
    """Run Trace_Naming over the traces (chunked); returns verdicts by trace id."""
    nonascii: set[int] = set()
    idents: set[str] = set()
    for t in traces:
        for e in t["ev"]:
            nonascii.update(c for c in e["spec"] if c > 127)
            nonascii.update(c for c in e["ident"] if c > 127)
            if e["st"] == "ok" and any(c > 127 for c in e["ident"]):
                idents.add(txt(e["ident"]))
        for lst in list(t["req"].values()) + list(t["present"].values()):
            for s in lst:
                nonascii.update(c for c in s if c > 127)
        for lst in t["back"].values():
            for a, b in lst:
                nonascii.update(c for c in a + b if c > 127)
    # the NFKC map is only needed where several names share a namespace (part ii)
    files = {"NamingConsts.tla": consts_module(nonascii, idents, nfkc=any(t["req"] for t in traces))}
    cfg = f"SPECIFICATION Spec\nCONSTANTS\n{CONST_CFG}CHECK_DEADLOCK FALSE\n"
    out: dict[str, dict] = {}
    step = 25000
    for k in range(0, len(traces), step):
        chunk = traces[k : k + step]
        d = chk.scratch.sub("naming_traces")
        tf = d / "traces.ndjson"
        with tf.open("w") as f:
            for t in chunk:
                f.write(json.dumps({x: t[x] for x in ("id", "ev", "req", "present", "back")}) + "\n")
        r = run_tlc(chk.scratch, "Trace_Naming", cfg, files=files, workers=8, env={"TRACE_FILE": str(tf)}, coverage=(k == 0))
        chk.add_tlc(f"Trace_Naming[{label}#{k // step}]", r)
        if k == 0:
            for act in ("Step", "Fin"):
                chk.require(r.coverage.get(act, (0, 0))[1] > 0, f"vacuous monitor run: {act} never taken ({label})")
        vs = r.printed.get("VERDICT", [])
        chk.require(len(vs) == len(chunk), f"monitor produced {len(vs)} verdicts for {len(chunk)} traces ({label})")
        for v in vs:
            out[v["id"]] = v
    chk.cov["traces_validated_against_impl"] += len(traces)
    return out


# ---------------------------------------------------------------------------------------------
# part (i): the derivation functions


def part_i(chk: Check, inputs: list[list[int]], label: str = "functions") -> None:
    step = max(50, min(500, len(inputs) // (2 * core.NCPU) + 1))
    jobs = [{"id": f"b{k}", "k": "derive", "inputs": inputs[k : k + step]} for k in range(0, len(inputs), step)]
    res = core.parallel_py(chk.scratch, "harness.w_naming", jobs)
    traces = []
    stat: dict[str, dict[str, int]] = {}
    idx = 0
    for job, r in zip(jobs, res):
        kinds = r["kinds"]
        for inp, row in zip(job["inputs"], r["out"]):
            ev = []
            for kind, (st, ident) in zip(kinds, row):
                ev.append({"ns": kind, "spec": inp, "ident": ident, "st": st})
                d = stat.setdefault(kind, {"ok": 0, "raised": 0, "na": 0})
                d[st] += 1
            traces.append({"id": f"s{idx}", "ev": ev, "req": {}, "present": {}, "back": {}})
            idx += 1
    chk.cov.setdefault("derivations", {})[label] = stat
    verdicts = run_monitor(chk, traces, label)
    per_kind_fail: dict[str, dict[str, int]] = {}
    for t in traces:
        v = verdicts[t["id"]]
        chk.count(v["njudged"])
        for c in NAME_CLAUSES:
            chk.clause(c, v["njudged"])
        s = txt(t["ev"][0]["spec"])
        if not s.isidentifier() or any(ord(c) > 127 for c in s) or not s:
            chk.nontrivial({"input": s})
        for f in v["fails"]:
            e = t["ev"][f["i"] - 1]
            ident = txt(e["ident"])
            if f["clause"] == "C20.unstable":
                chk.note_drift(f"{label}: {e['ns']} derived twice for {s!r}")
                continue
            loc = {"derivation": f["ns"], "input_class": f["cls"], "via": "function"}
            if f["clause"] == "C20.keyword":
                loc["ident"] = ident
            if f["clause"] == "C20.invalid":
                loc["why"] = f["why"]
            if f["clause"] == "C20.empty":
                # plain predicate on the input: does it contain anything a regex \\w would keep?
                loc["input_has_word_char"] = any(ch.isalnum() or ch == "_" for ch in s)
            d = per_kind_fail.setdefault(f["ns"], {})
            d[f["clause"]] = d.get(f["clause"], 0) + 1
            chk.fail(f["clause"], loc, {"part": "i", "input": s, "input_cps": e["spec"], "derivation": f["ns"], "output": ident}, f"{f['ns']}({s!r}) = {ident!r}")
    chk.cov.setdefault("failing_by_derivation", {})[label] = per_kind_fail
    mid = traces[len(traces) // 2]
    chk.sample({"part": "i", "input": txt(mid["ev"][0]["spec"]), "derived": {e["ns"]: (txt(e["ident"]) if e["st"] == "ok" else e["st"]) for e in mid["ev"]}})


# ---------------------------------------------------------------------------------------------
# part (ii): namespaces of generated packages


def build_doc(sc: dict) -> dict | None:
    names, kind = sc["names"], sc["ns"]
    if kind == "props":
        return concretise.wrap({"Holder": {"type": "object", "properties": {n: {"type": "string"} for n in names}, "required": [names[0]]}})
    if kind == "enum":
        return concretise.wrap({"Kind": {"type": "string", "enum": list(names)}})
    if kind == "schemas":
        if not all(COMPONENT_NAME.match(n) for n in names):
            return None  # not a legal Components key: the document is outside OpenAPI, never judged
        return concretise.wrap({n: {"type": "object", "properties": {f"mk{i}": {"type": "string"}}} for i, n in enumerate(names)})
    if kind == "params":
        params = [{"name": n, "in": "query", "required": i == 0, "schema": {"type": "string"}} for i, n in enumerate(names)]
        return concretise.wrap({}, {"/probe": {"get": {"operationId": "probe", "tags": ["P"], "summary": "OPTOK0", "parameters": params, "responses": {"204": {"description": "ok"}}}}})
    if kind == "ops":
        paths = {f"/o{i}": {"get": {"operationId": n, "tags": ["T"], "summary": f"OPTOK{i}", "responses": {"204": {"description": "ok"}}}} for i, n in enumerate(names)}
        return concretise.wrap({}, paths)
    if kind == "tags":
        paths = {f"/t{i}": {"get": {"operationId": f"zzop{i}", "tags": [n], "summary": f"OPTOK{i}", "responses": {"204": {"description": "ok"}}}} for i, n in enumerate(names)}
        return concretise.wrap({}, paths)
    if kind == "enumvals":
        return concretise.wrap({"Kind": {"type": sc["family"], "enum": [enum_value(n) for n in names]}})
    if kind == "tagops":
        # one operation per name, tagged as the scenario says; plus one single-tagged "beacon" operation per tag, so that
        # the client class of a tag is identified by the beacon it contains and not by a sanitiser
        paths = {f"/o{i}": {"get": {"operationId": n, "tags": list(sc["tags"][i]), "summary": f"OPTOK{i}", "responses": {"204": {"description": "ok"}}}} for i, n in enumerate(names)}
        for j, tag in enumerate(tags_of(sc)):
            paths[f"/beacon{j}"] = {"get": {"operationId": f"zzbeacon{j}", "tags": [tag], "summary": f"OPTOK9{j}", "responses": {"204": {"description": "ok"}}}}
        return concretise.wrap({}, paths)
    raise ValueError(kind)


def enum_value(tagged: str) -> Any:
    """Gen_Alloc writes a JSON value as "<type>:<text>"."""
    k, _, v = tagged.partition(":")
    return {"b": lambda: v == "true", "i": lambda: int(v), "n": lambda: float(v), "s": lambda: v, "z": lambda: None}[k]()


def member_forms(tagged: str, ty: str) -> set:
    """The member values under which a declared JSON value may legitimately appear in the generated Enum."""
    v = enum_value(tagged)
    if ty == "string":
        return {v} if isinstance(v, str) else {str(v), json.dumps(v)}
    try:
        return {int(v)}
    except (TypeError, ValueError):
        return set()


def tags_of(sc: dict) -> list[str]:
    return sorted({x for tl in sc["tags"] for x in tl})


def _ev(ns: str, spec: str, ident: str) -> dict:
    return {"ns": ns, "spec": cps(spec), "ident": cps(ident), "st": "ok"}


def observe(sc: dict, o: dict) -> tuple[dict | None, str]:
    """Package report -> trace of Derive events for the scenario's namespace.  Returns (trace | None, skip reason)."""
    names, kind = sc["names"], sc["ns"]
    models = o.get("models") or {}
    nam = o.get("naming") or {}
    if "observer_error" in models or "observer_error" in nam:
        raise core.MachineryError(f"observer crashed: {json.dumps(models.get('observer_error') or nam.get('observer_error'))}")
    # only the modules that hold the namespace are imported (models/*.py, <pkg>.models, endpoints/*.py)
    models_broken = bool(models.get("errors")) or bool(nam.get("model_errors"))
    ev: list[dict] = []
    req: dict[str, list] = {}
    present: dict[str, list] = {}
    back: dict[str, list] = {}
    via_ast = False
    if kind in ("props", "enum") and models_broken:
        # the module does not import (C01's domain) - but when it PARSES, the syntax tree still shows every definition,
        # duplicates included (a member defined twice is a TypeError at import time): judge the allocation from it
        recs = nam.get("model_ast") or []
        if not recs or not all(r["parse_ok"] for r in recs):
            return None, "unimportable"
        want = (lambda c: c["name"] == "Holder") if kind == "props" else (lambda c: "Enum" in c["bases"])
        cl = [c for r in recs for c in r["classes"] if want(c)]
        if len(cl) != 1:
            return None, "unimportable"
        c = cl[0]
        via_ast = True
        if kind == "props":
            for k, v in c["load"]:
                if k in names:
                    ev.append(_ev("props", k, v))
            present["props"] = [cps(p) for p in c["fields"]]
            back["props"] = [[cps(k), cps(v)] for k, v in c["dump"] if isinstance(k, str) and isinstance(v, str)]
        else:
            for nm, val in c["assigns"]:
                if val in names:
                    ev.append(_ev("enum", val, nm))
            present["enum"] = [cps(nm) for nm, _ in c["assigns"]]
            back["enum"] = [[cps(nm), cps(val)] for nm, val in c["assigns"] if isinstance(val, str)]
        req[kind] = [cps(n) for n in names]
    elif kind == "props":
        cl = [c for c in models.get("classes", []) if c["kind"] == "dataclass" and c["cls"] == "Holder"]
        if len(cl) != 1:
            return None, "unimportable" if not cl else "ambiguous"
        c = cl[0]
        pys = [f["py"] for f in c["fields"]]
        for n in names:
            if n in c["load"]:
                ev.append(_ev("props", n, c["load"][n]))
            elif n in pys and n not in c["dump"]:
                ev.append(_ev("props", n, n))  # no mapping emitted: the field carries the wire key itself
        req["props"] = [cps(n) for n in names]
        present["props"] = [cps(p) for p in pys]
        back["props"] = [[cps(p), cps(c["dump"].get(p, p))] for p in pys]
    elif kind == "enum":
        cl = [c for c in models.get("classes", []) if c["kind"] == "enum"]
        if len(cl) != 1:
            return None, "unimportable" if not cl else "ambiguous"
        mem = cl[0]["members"]
        for nm, val in mem:
            if val in names:
                ev.append(_ev("enum", val, nm))
        req["enum"] = [cps(n) for n in names]
        present["enum"] = [cps(nm) for nm, _ in mem]
        back["enum"] = [[cps(nm), cps(val)] for nm, val in mem if isinstance(val, str)]
    elif kind == "schemas":
        if models_broken or nam.get("model_errors") or not nam.get("models_pkg", {}).get("ok"):
            return None, "unimportable"
        marker = {f"mk{i}": n for i, n in enumerate(names)}
        found = []
        for c in nam.get("model_classes", []):
            for w in c["wires"]:
                if w in marker:
                    found.append((marker[w], c["name"], c["m"].rsplit(".", 1)[-1]))
        for n in names:  # declaration order
            for spec, cls, stem in found:
                if spec == n:
                    ev.append(_ev("schemas", spec, cls))
                    ev.append(_ev("modules", spec, stem))  # module stems: judged for validity and collisions only
        req["schemas"] = [cps(n) for n in names]
        exported = nam["models_pkg"]["names"]
        present["schemas"] = [cps(x) for x in exported]
        back["schemas"] = [[cps(x), cps(marker[w])] for x, info in exported.items() for w in info["wires"] if w in marker]
    elif kind in ("params", "ops"):
        eps = nam.get("endpoints", [])
        if not eps or not all(e["parse_ok"] for e in eps):
            return None, "unparseable"
        token = {f"OPTOK{i}": n for i, n in enumerate(names)}
        if kind == "params":
            ms = [m for e in eps for c in e["classes"] for m in c["methods"] if "OPTOK0" in m["tokens"]]
            if len(ms) != 1:
                return None, "method_not_found"
            m = ms[0]
            seen = [w for w, _ in m["wiremap"]]
            if any(n not in seen for n in names) and len(m["args"]) >= len(names):
                return None, "wiremap_unreadable"
            for w, py in m["wiremap"]:
                if w in names:
                    ev.append(_ev("params", w, py))
            req["params"] = [cps(n) for n in names]
            present["params"] = [cps(a) for a in m["args"]]
            back["params"] = [[cps(py), cps(w)] for w, py in m["wiremap"] if w in names]
        else:
            if not all(e["import_ok"] for e in eps):
                return None, "unimportable"
            for e in eps:
                for c in e["classes"]:
                    for m in c["methods"]:
                        for t in m["tokens"]:
                            if t in token:
                                ev.append(_ev("ops", token[t], m["name"]))
            live = [(fn, info) for e in eps for cn, fns in e["live"].items() for fn, info in fns.items() if any(i2["tokens"] for i2 in fns.values())]
            req["ops"] = [cps(n) for n in names]
            present["ops"] = [cps(fn) for fn, _ in live]
            back["ops"] = [[cps(fn), cps(token[t])] for fn, info in live for t in info["tokens"] if t in token]
    elif kind == "enumvals":
        if models_broken:
            return None, "unimportable"
        cl = [c for c in models.get("classes", []) if c["kind"] == "enum"]
        if len(cl) != 1:
            return None, "unimportable" if not cl else "ambiguous"
        declared = list(dict.fromkeys(names))  # distinct JSON values (type AND value): the tagged texts differ
        forms = {n: member_forms(n, sc["family"]) for n in declared}
        if any(not f for f in forms.values()):
            return None, "value_not_of_the_declared_type"
        if any(forms[a] & forms[b] for i, a in enumerate(declared) for b in declared[i + 1 :]):
            return None, "values_share_a_wire_form"  # e.g. true and "True" in a string enum: one member may stand for both
        mem = cl[0]["members"]
        for n in declared:
            for nm, val in mem:
                if any(type(val) is type(f) and val == f for f in forms[n]):
                    ev.append(_ev("enumvals", n, nm))
        req["enumvals"] = [cps(n) for n in declared]
        present["enumvals"] = [cps(nm) for nm, _ in mem]
        back["enumvals"] = [[cps(nm), cps(n)] for n in declared for nm, val in mem if any(type(val) is type(f) and val == f for f in forms[n])]
    elif kind == "tags":
        eps = nam.get("endpoints", [])
        if not eps or not all(e["parse_ok"] for e in eps):
            return None, "unparseable"
        if not all(e["import_ok"] for e in eps):
            return None, "unimportable"
        # one namespace per tag (sharing a client class is by design): the client class that holds the tag's operation
        for i, n in enumerate(names):
            nsid = f"tags:{i}"
            holders = [c["name"] for e in eps for c in e["classes"] if any(f"OPTOK{i}" in m["tokens"] for m in c["methods"])]
            live = [cn for e in eps for cn, fns in e["live"].items() if any(f"OPTOK{i}" in info["tokens"] for info in fns.values())]
            for h in holders[:1]:
                ev.append(_ev(nsid, n, h))
            req[nsid] = [cps(n)]
            present[nsid] = [cps(x) for x in live]
            back[nsid] = [[cps(x), cps(n)] for x in live]
    elif kind == "tagops":
        eps = nam.get("endpoints", [])
        if not eps or not all(e["parse_ok"] for e in eps):
            return None, "unparseable"
        if not all(e["import_ok"] for e in eps):
            return None, "unimportable"
        token = {f"OPTOK{i}": n for i, n in enumerate(names)}
        for j, tag in enumerate(tags_of(sc)):
            beacon = f"OPTOK9{j}"
            nsid = f"tagops:{tag}"
            hits = [(e, c) for e in eps for c in e["classes"] if any(beacon in m["tokens"] for m in c["methods"])]
            if len(hits) != 1:
                return None, "client_class_not_found"
            e, c = hits[0]
            for m in c["methods"]:  # every `def` of the client class, in source order, duplicates kept
                for tk in m["tokens"]:
                    if tk in token:
                        ev.append(_ev(nsid, token[tk], m["name"]))
            live = e["live"].get(c["name"], {})
            req[nsid] = [cps(n) for i, n in enumerate(names) if tag in sc["tags"][i]]
            present[nsid] = [cps(fn) for fn in live]
            back[nsid] = [[cps(fn), cps(token[tk])] for fn, info in live.items() for tk in info["tokens"] if tk in token]
    return {"ev": ev, "req": req, "present": present, "back": back, "_ast": via_ast}, ""


def partner(t: dict, f: dict) -> list[str]:
    """The spec names involved in a failing verdict (computed from the observed events)."""
    ns = f["ns"]
    if f["clause"] == "C20.collision":
        e = t["ev"][f["i"] - 1]
        return [txt(e["spec"])] + [txt(x["spec"]) for x in t["ev"][: f["i"] - 1] if x["ns"] == ns and x["ident"] == e["ident"] and x["spec"] != e["spec"]]
    spec = t["req"][ns][f["i"] - 1]
    out = [txt(spec)]
    if f["clause"] == "C20.merged":
        ident = [x["ident"] for x in t["ev"] if x["ns"] == ns and x["spec"] == spec][-1]
        out += [txt(s) for i, s in t["back"][ns] if i == ident and s != spec]
    return out


def part_ii(chk: Check, scens: list[dict], label: str = "packages") -> None:
    docs = []
    skipped: dict[str, int] = {}
    for sc in scens:
        d = build_doc(sc)
        if d is None:
            skipped["invalid_component_name"] = skipped.get("invalid_component_name", 0) + 1
            continue
        docs.append((sc, d))
    # independent validation of the concretised documents
    step = max(1, len(docs) // core.NCPU + 1)
    vjobs = [{"id": f"v{k}", "k": "validate", "docs": [d for _, d in docs[k : k + step]]} for k in range(0, len(docs), step)]
    valid: list[bool] = []
    for r in core.parallel_py(chk.scratch, "harness.w_naming", vjobs):
        valid += r["valid"]
    kept = []
    for (sc, d), ok in zip(docs, valid):
        if ok:
            kept.append((sc, d))
        else:
            skipped["rejected_by_validator"] = skipped.get("rejected_by_validator", 0) + 1
    root = chk.scratch.sub("gen_c20")
    jobs = [{"id": f"{label}_{j}", "root": str(root), "spec": d, "pkg": f"n{j}.client", "force": True, "nopp": True} for j, (sc, d) in enumerate(kept)]
    gres = core.parallel_py(chk.scratch, "harness.w_gen", jobs) if jobs else []
    ojobs = []
    for j, g in zip(jobs, gres):
        if g["ok"]:
            ojobs.append({"id": j["id"], "root": j["root"], "pkg": j["pkg"], "want": ["models", "naming"]})
        else:
            skipped["generation_fails_visibly"] = skipped.get("generation_fails_visibly", 0) + 1
    ores = {r["id"]: r for r in core.parallel_py(chk.scratch, "harness.w_obs", ojobs, env={"VERIF_OBS_EXTRA": "harness.obs_c20", "PYTHONDONTWRITEBYTECODE": "1"})} if ojobs else {}
    chk.cov["packages_generated"] = chk.cov.get("packages_generated", 0) + len(ojobs)
    traces = []
    meta: dict[str, tuple[dict, dict]] = {}
    per_ns: dict[str, int] = {}
    for (sc, d), j in zip(kept, jobs):
        o = ores.get(j["id"])
        if o is None:
            continue
        t, why = observe(sc, o)
        if t is None:
            key = f"{why}[{sc['ns']}]"
            skipped[key] = skipped.get(key, 0) + 1
            if why in ("wiremap_unreadable", "method_not_found", "ambiguous", "client_class_not_found"):
                chk.note_drift(f"{label}: observer could not read the {sc['ns']} namespace of {sc['names']} ({why})")
            continue
        t["id"] = j["id"]
        if t.pop("_ast", False):
            key = f"judged_from_syntax_tree[{sc['ns']}]"
            chk.cov[key] = chk.cov.get(key, 0) + 1
        traces.append(t)
        meta[j["id"]] = (sc, d)
        per_ns[sc["ns"]] = per_ns.get(sc["ns"], 0) + 1
    for k, v in skipped.items():
        chk.cov.setdefault("skipped", {})[k] = chk.cov.get("skipped", {}).get(k, 0) + v
    for k, v in per_ns.items():
        chk.cov.setdefault("namespaces_judged", {})[k] = chk.cov.get("namespaces_judged", {}).get(k, 0) + v
    if not traces:
        return
    verdicts = run_monitor(chk, traces, label)
    for t in traces:
        v = verdicts[t["id"]]
        sc, d = meta[t["id"]]
        chk.count(v["njudged"])
        for c in NAME_CLAUSES + ("C20.collision",):
            chk.clause(c, v["njudged"])
        nreq = sum(len(x) for x in t["req"].values())
        chk.clause("C20.dropped", nreq)
        chk.clause("C20.merged", nreq)
        if len(sc["names"]) >= 2:
            chk.nontrivial({"ns": sc["ns"], "names": sc["names"], "tags": sc.get("tags", [])})
        for f in v["fails"]:
            scen = {"part": "ii", "scenario": sc, "spec": d}
            if f["clause"] == "C20.unstable":
                chk.note_drift(f"{label}: a name of {sc} was derived twice with different identifiers")
                continue
            if f["clause"] in NAME_CLAUSES:
                e = t["ev"][f["i"] - 1]
                loc = {"derivation": f["ns"], "input_class": f["cls"], "via": "artifact"}
                if f["clause"] == "C20.keyword":
                    loc["ident"] = txt(e["ident"])
                if f["clause"] == "C20.invalid":
                    loc["why"] = f["why"]
                chk.fail(f["clause"], loc, scen, f"{f['ns']}: {txt(e['spec'])!r} -> {txt(e['ident'])!r}")
                continue
            who = partner(t, f)
            loc = {"ns": f["ns"].split(":")[0], "names_suffixed": any(SUFFIXED.search(n) for n in who)}
            if sc["ns"] == "tagops":
                # through which tag positions the names involved reach this client class (first tag = 1)
                tag = f["ns"].split(":")[1]
                loc["tag_positions"] = sorted({sc["tags"][sc["names"].index(n)].index(tag) + 1 for n in who if n in sc["names"] and tag in sc["tags"][sc["names"].index(n)]})
            if f["clause"] in ("C20.collision", "C20.merged"):
                # how many numeric suffixes the identifier that is shared / taken over carries (v_2 -> 1, v_2_2 -> 2)
                if f["clause"] == "C20.collision":
                    shared = txt(t["ev"][f["i"] - 1]["ident"])
                else:
                    spec0 = t["req"][f["ns"]][f["i"] - 1]
                    shared = txt([x["ident"] for x in t["ev"] if x["ns"] == f["ns"] and x["spec"] == spec0][-1])
                m = re.search(r"(?:_\d+)+$", shared)
                loc["ident_suffix_depth"] = len(re.findall(r"_\d+", m.group(0))) if m else 0
            if f["clause"] == "C20.dropped" and sc["ns"] == "enumvals":
                # plain predicates on the declared values: JSON type of the value without a member, and whether the host
                # language considers it equal to another declared value of a different JSON type / spelling
                v0 = enum_value(who[0])
                loc["value_type"] = who[0].partition(":")[0]
                loc["host_equal_to_other"] = any(n != who[0] and type(enum_value(n)) is not str and type(v0) is not str and enum_value(n) is not None and v0 is not None and enum_value(n) == v0 for n in sc["names"])
                chk.fail(f["clause"], loc, scen, f"enum values {sc['names']} ({sc['family']}): no member for {who[0]}; members {[txt(p) for p in t['present'].get(f['ns'], [])]}")
                continue
            if f["clause"] == "C20.dropped":
                loc["input_class"] = f["cls"]
                got = {txt(e["spec"]) for e in t["ev"] if e["ns"] == f["ns"]}
                loc["folds_with_allocated"] = any(fold(n) == fold(who[0]) for n in got if n != who[0])
            obs = {n: sorted({txt(e["ident"]) for e in t["ev"] if e["ns"] == f["ns"] and txt(e["spec"]) == n}) for n in sc["names"]}
            chk.fail(f["clause"], loc, scen, f"{f['ns']} of {sc['names']}: names {who}; allocated {obs}; present {[txt(p) for p in t['present'].get(f['ns'], [])]}")
    mid = traces[len(traces) // 2]
    chk.sample({"part": "ii", "scenario": meta[mid["id"]][0], "allocated": [[e["ns"], txt(e["spec"]), txt(e["ident"])] for e in mid["ev"]]})


# ---------------------------------------------------------------------------------------------


def run(chk: Check) -> None:
    thorough = chk.tier == "thorough"
    k1, k2 = (5, 4) if thorough else (4, 3)
    ku = 3 if thorough else 2
    chk.cov["rule"] = (
        f"(i) every string of length <={k1} over the alphabet {{a,B,1,_,-,space,.,$,U+00E9,U+540D}} plus 10 case/separator variants of every "
        f"keyword, plus every string of length <={ku} over 13 symbols representing Unicode classes (\\w-not-XID, XID_Continue-not-Start, NFKC-compatibility, length-changing case), through the 10 derivations on the generation path; (ii) every allocation order (sequence without repetition) of "
        f"length <={k2} from 6 colliding families (one of NFKC-equivalent names) in each of 5 namespace kinds, plus tags (<=2 names per family and the suffix triple; totality only), plus enum value lists (<={k2 - 1} values, repetition allowed) that mix JSON types whose Python values compare equal, plus colliding operationIds (2..{k2 - 1} of them) reaching one client class through different tag positions (tag lists [T], [U,T], [T,U], [V,T]), generated + imported; non-trivial = input that is not "
        f"already an ASCII identifier (i) / namespace with >=2 names (ii)"
    )
    chk.assumptions += [
        "XidStart / XidContinue / Keywords are supplied by the harness from the interpreter (str.isidentifier, keyword.kwlist); NFKC normalisation of identifiers is not modelled (the alphabet is NFKC-stable)",
        "derivations that raise, and documents whose generation raises, fail visibly and are not judged; packages whose relevant module does not import are C01's domain (counted under 'skipped'), except that parameter names are read from the AST, which exists even when the compiler rejects a duplicate argument",
        "schema names that are not legal OpenAPI component keys are not placed in the schemas namespace",
        "spec name <-> identifier is read from the artefact (Meta maps, dict literals of the method body, docstring tokens, marker properties), never recomputed with a sanitiser",
    ]
    design(chk)
    part_i(chk, gen_names(chk, k1, ku))
    part_ii(chk, gen_alloc(chk, k2))
    chk.cov["exhaustive"] = True


def replay(chk: Check, path: str) -> None:
    rec = json.loads(open(path).read())
    sc = rec["scenario"]
    if sc.get("part") == "i":
        part_i(chk, [sc["input_cps"]], "replay")
    else:
        part_ii(chk, [sc["scenario"]], "replay")
    for f in chk.fails:
        print("REPLAY-FAIL", f["clause"], json.dumps(f["locus"]), f["detail"][:300])
