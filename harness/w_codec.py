"""Worker for C16: drives the bundled cattrs converter and DataclassSerializer of the tree under test.

stdin: JSON list of jobs, stdout: one JSON line per job (carrying the job id).

  {"id", "kind": "rt",   "classes", "top", "inst": [{"j", "v"}], "bad": [{"j", "what", "p", "steps"}]}
  {"id", "kind": "hist", "classes", "calls": [{"id","op","ty","arg"}], "hists": [[call ids]]}
  {"id", "kind": "ser",  "graphs": [{"gid", "n", "root", "edges": [{"from","kind","to"}]}], "timeout"}
  {"id", "kind": "diag"}                         unsupported leaf types (uuid / time): recorded, never judged

Classes are built from the abstract class table with dataclasses.make_dataclass (+ an inner `Meta` carrying
key_transform_with_load / key_transform_with_dump).  JSON values cross as tagged trees, python values as value
trees (see specs/Codec.tla).  Nothing is judged here: the worker only records what the code did.

Fresh state: the module-global `converter` is the state under test.  "rt" jobs re-execute the module
(importlib.reload => a new cattrs.Converter()) per scenario; every history and every serialiser graph runs in
a forked child of a process that has imported the module but never called it.
"""

from __future__ import annotations

import base64
import dataclasses
import importlib
import json
import logging
import os
import re
import select
import signal
import sys
import warnings
from datetime import date, datetime, timezone
from typing import Any, Dict, List, Optional, Tuple

logging.disable(logging.CRITICAL)
warnings.simplefilter("ignore")

from harness import core  # noqa: E402

core.install_tree_under_test()

import pyopenapi_gen.core.cattrs_converter as cc  # noqa: E402
import pyopenapi_gen.core.utils as cu  # noqa: E402

LEAF_PY = {"str": str, "int": int, "float": float, "bool": bool, "bytes": bytes, "date": date, "datetime": datetime}
WORD = re.compile(r"[A-Za-z_][A-Za-z0-9_]*")


# ---------------------------------------------------------------------------------------------
# tagged trees <-> JSON, value trees <-> python values  (the harness' own, independent, leaf codec)


def untag(j: dict) -> Any:
    t = j["t"]
    if t == "n":
        return None
    if t == "s":
        return j["v"]
    if t == "i":
        return int(j["v"])
    if t == "f":
        return float(j["v"])
    if t == "b":
        return j["v"] == "true"
    if t == "l":
        return [untag(x) for x in j["items"]]
    if t == "o":
        f = j["f"]
        if isinstance(f, list):  # TLC prints the empty function as []
            f = {}
        return {k: untag(v) for k, v in f.items()}
    raise ValueError(f"cannot untag {j!r}")


def tag(x: Any) -> dict:
    if x is None:
        return {"t": "n"}
    if isinstance(x, bool):
        return {"t": "b", "v": "true" if x else "false"}
    if isinstance(x, int):
        return {"t": "i", "v": str(x)}
    if isinstance(x, float):
        return {"t": "f", "v": repr(x)}
    if isinstance(x, str):
        return {"t": "s", "v": x}
    if isinstance(x, list):
        return {"t": "l", "items": [tag(v) for v in x]}
    if isinstance(x, dict):
        if all(isinstance(k, str) for k in x):
            return {"t": "o", "f": {k: tag(v) for k, v in x.items()} or []}  # empty function = <<>> in TLA+
        return {"t": "x", "v": "dict with non-string keys"}
    return {"t": "x", "v": type(x).__name__}


def norm_leaf(x: Any) -> tuple[str, str]:
    """python leaf value -> (class name, normal form); datetimes as UTC instants, bytes as base64."""
    if isinstance(x, bool):
        return "bool", "true" if x else "false"
    if isinstance(x, int):
        return "int", str(x)
    if isinstance(x, float):
        return "float", repr(x)
    if isinstance(x, str):
        return "str", x
    if isinstance(x, (bytes, bytearray)):
        return type(x).__name__, base64.b64encode(bytes(x)).decode("ascii")
    if isinstance(x, datetime):
        if x.tzinfo is not None:
            u = x.astimezone(timezone.utc)
            s = u.strftime("%Y-%m-%dT%H:%M:%S") + (f".{u.microsecond:06d}" if u.microsecond else "") + "Z"
            return "datetime", s
        return "datetime", x.isoformat()
    if isinstance(x, date):
        return "date", x.isoformat()
    return type(x).__name__, repr(x)[:80]


def parse_leaf(c: str, w: str) -> Any:
    if c == "str":
        return w
    if c == "int":
        return int(w)
    if c == "float":
        return float(w)
    if c == "bool":
        return w == "true"
    if c == "bytes":
        return base64.b64decode(w)
    if c == "date":
        return date.fromisoformat(w)
    if c == "datetime":
        return datetime.fromisoformat(w.replace("Z", "+00:00"))
    raise ValueError(f"unknown leaf class {c}")


# class object -> key of the abstract class table (distinct classes may share their python name)
KEYOF: dict[int, str] = {}


def abs_val(x: Any, depth: int = 0) -> dict:
    if depth > 12:
        return {"t": "leaf", "c": "toodeep", "w": ""}
    if x is None:
        return {"t": "none"}
    if dataclasses.is_dataclass(x) and not isinstance(x, type):
        return {"t": "obj", "cls": KEYOF.get(id(type(x)), type(x).__name__), "f": {f.name: abs_val(getattr(x, f.name), depth + 1) for f in dataclasses.fields(x)} or []}
    if isinstance(x, list):
        return {"t": "list", "items": [abs_val(v, depth + 1) for v in x]}
    if isinstance(x, dict):
        return {"t": "dict", "f": {str(k): abs_val(v, depth + 1) for k, v in x.items()} or []}
    c, w = norm_leaf(x)
    return {"t": "leaf", "c": c, "w": w}


def build_val(v: dict, classes: dict[str, type]) -> Any:
    t = v["t"]
    if t == "none":
        return None
    if t == "leaf":
        return parse_leaf(v["c"], v["w"])
    if t == "list":
        return [build_val(x, classes) for x in v["items"]]
    if t == "dict":
        f = v["f"] if isinstance(v["f"], dict) else {}
        return {k: build_val(x, classes) for k, x in f.items()}
    if t == "obj":
        f = v["f"] if isinstance(v["f"], dict) else {}
        return classes[v["cls"]](**{k: build_val(x, classes) for k, x in f.items()})
    raise ValueError(f"cannot build {v!r}")


def exc_rec(e: BaseException) -> dict:
    msg = str(e)
    return {
        "t": "exc",
        "exc": type(e).__name__,
        "isvalue": isinstance(e, ValueError),
        "msg": msg[:600],
        "words": sorted(set(WORD.findall(msg))),
    }


# ---------------------------------------------------------------------------------------------
# abstract class table -> dataclasses


def py_type(ty: dict, classes: dict[str, type]) -> Any:
    k = ty["k"]
    if k == "leaf":
        return LEAF_PY[ty["p"]]
    if k == "list":
        return List[py_type(ty["of"], classes)]
    if k == "dict":
        return Dict[str, py_type(ty["of"], classes)]
    if k == "opt":
        return Optional[py_type(ty["of"], classes)]
    if k == "cls":
        return classes[ty["name"]]
    raise ValueError(k)


def class_refs(ty: dict) -> set[str]:
    if ty["k"] == "cls":
        return {ty["name"]}
    if ty["k"] == "leaf":
        return set()
    return class_refs(ty["of"])


def _make(name: str, cd: dict, classes: dict[str, type], placeholder: bool) -> tuple[type, dict[str, dict]]:
    """One dataclass from its abstract definition.  placeholder=True: fields that mention a class are created with a
    placeholder annotation and resolved afterwards (mutually recursive classes)."""
    req, opt = [], []
    later: dict[str, dict] = {}
    for f in cd["fields"]:
        if placeholder and class_refs(f["ty"]):
            t: Any = Any
            later[f["py"]] = f
        else:
            t = py_type(f["ty"], classes)
            if not f["req"] and f["ty"]["k"] != "opt":
                t = Optional[t]
        if f["req"]:
            req.append((f["py"], t))
        else:
            opt.append((f["py"], t, dataclasses.field(default=None)))
    ns: dict[str, Any] = {}
    if "build" in cd:  # the specification says what the inner Meta contains (Codec!MetaPairs)
        if cd["build"]["hasmeta"]:
            pairs = [(w, p) for w, p in cd["build"]["pairs"]]
            ns["Meta"] = type("Meta", (), {"key_transform_with_load": {w: p for w, p in pairs}, "key_transform_with_dump": {p: w for w, p in pairs}})
    elif cd["meta"] != "none":
        pairs = [(f["wire"], f["py"]) for f in cd["fields"] if cd["meta"] == "full" or f["wire"] != f["py"]]
        ns["Meta"] = type(
            "Meta",
            (),
            {"key_transform_with_load": {w: p for w, p in pairs}, "key_transform_with_dump": {p: w for w, p in pairs}},
        )
    # `pyname`: the class's __qualname__ (same module for all) - two table entries may share it
    pyname = cd.get("pyname") or name
    def placed(c: type) -> type:
        # WHERE the class is declared (module level / inside a class / inside a function) shows in its qualified name
        if "build" in cd and cd["build"].get("qualname"):
            c.__qualname__ = cd["build"]["qualname"]
        return c

    if cd.get("extends"):
        # a subclass: OWN fields only (a field named like an inherited one overrides it), keyword-only so that a
        # required field may follow inherited defaults; optionally a field-less mixin among the bases
        bases: tuple = (classes[cd["extends"]],)
        if cd.get("mixin"):
            bases = (type("Mixin", (), {"describe": lambda self: type(self).__name__}),) + bases
        return placed(dataclasses.make_dataclass(pyname, req + opt, bases=bases, namespace=ns, kw_only=True)), later
    return placed(dataclasses.make_dataclass(pyname, req + opt, namespace=ns)), later


def build_classes(table: dict) -> dict[str, type]:
    """Acyclic part in dependency order; classes on a cycle of the class graph are created first and their
    annotations resolved to the real classes afterwards (what a module-level definition with PEP 563 / forward
    references resolves to: get_type_hints and dataclasses.fields both see the classes themselves)."""
    KEYOF.clear()
    classes: dict[str, type] = {}
    pending = dict(table)
    while pending:
        progressed = False
        for name, cd in list(pending.items()):
            deps = {cd["extends"]} if cd.get("extends") else set()
            for f in cd["fields"]:
                deps |= class_refs(f["ty"])
            if deps - set(classes):
                continue
            classes[name], _ = _make(name, cd, classes, False)
            del pending[name]
            progressed = True
        if not progressed:
            todo = {}
            for name, cd in pending.items():
                classes[name], todo[name] = _make(name, cd, classes, True)
            for name, later in todo.items():
                for py, f in later.items():
                    t = py_type(f["ty"], classes)
                    if not f["req"] and f["ty"]["k"] != "opt":
                        t = Optional[t]
                    classes[name].__dataclass_fields__[py].type = t
                    classes[name].__annotations__[py] = t
            pending = {}
    for name, c in classes.items():
        KEYOF[id(c)] = name
    return classes


def fresh_converter() -> None:
    """New module-global converter: re-execute the module under test (utils looks it up at call time)."""
    importlib.reload(cc)


def call(fn, *a):
    try:
        return True, fn(*a)
    except RecursionError as e:
        return False, exc_rec(e)
    except Exception as e:  # noqa: BLE001
        return False, exc_rec(e)


# ---------------------------------------------------------------------------------------------
# jobs


def job_rt(job: dict) -> dict:
    """fresh_each: EVERY instance is first decoded in a fresh converter state (nothing structured before);
    otherwise the converter is fresh per class table and the largest instance is decoded first.  `dec2` = the same
    decode repeated in the then warm state (same call after a different prefix)."""
    fresh_converter()
    classes = build_classes(job["classes"])
    top = py_type(job["top"], classes)
    ev = []
    inst = sorted(job["inst"], key=lambda it: -len(json.dumps(it["j"])))
    for n, it in enumerate(inst):
        if job.get("fresh_each") and n > 0:
            fresh_converter()
            classes = build_classes(job["classes"])
            top = py_type(job["top"], classes)
        e: dict[str, Any] = {"k": "rt", "j": it["j"]}
        data = untag(it["j"])
        ok, v = call(cc.structure_from_dict, data, top)
        if not ok:
            e["dec"] = v
            e["out"] = {"t": "skip"}
        else:
            e["dec"] = abs_val(v)
            ok2, out = call(cc.unstructure_to_dict, v)
            e["out"] = tag(out) if ok2 else out
        if job.get("fresh_each") or n == 0:
            ok, v = call(cc.structure_from_dict, untag(it["j"]), top)
            e["dec2"] = abs_val(v) if ok else v
        # encode-then-decode of an instance built by the harness from the specification's value
        inst = build_val(it["v"], classes)
        e["v"] = abs_val(inst)
        ok, enc = call(cc.unstructure_to_dict, inst)
        if not ok:
            e["enc"] = enc
            e["v2"] = {"t": "skip"}
        else:
            e["enc"] = tag(enc)
            ok2, v2 = call(cc.structure_from_dict, enc, top)
            e["v2"] = abs_val(v2) if ok2 else v2
        # the convenience serialiser on the same (acyclic) instance
        ok, ser = call(cu.DataclassSerializer.serialize, build_val(it["v"], classes))
        if not ok:
            e["ser"] = ser
            e["serjson"] = True
        else:
            e["ser"] = tag(ser)
            try:
                json.dumps(ser)
                e["serjson"] = True
            except Exception:  # noqa: BLE001
                e["serjson"] = False
        ev.append(e)
    for m in job["bad"]:
        e = {"k": "bad", "j": m["j"], "what": m["what"], "p": m["p"], "steps": m["steps"]}
        ok, v = call(cc.structure_from_dict, untag(m["j"]), top)
        e["res"] = {"t": "ok", "val": abs_val(v)} if ok else v
        ev.append(e)
    return {"id": job["id"], "ev": ev}


def in_fork(fn, timeout: float) -> dict:
    """Run fn() in a forked child (fresh copy of this interpreter's state); returns its JSON result."""
    r, w = os.pipe()
    pid = os.fork()
    if pid == 0:
        code = 0
        try:
            os.close(r)
            try:
                res = fn()
            except BaseException as e:  # noqa: BLE001
                res = {"t": "exc", "exc": type(e).__name__, "isvalue": False, "msg": str(e)[:300], "words": []}
            data = json.dumps(res).encode()
            with os.fdopen(w, "wb") as f:
                f.write(data)
        except BaseException:  # noqa: BLE001
            code = 3
        finally:
            os._exit(code)
    os.close(w)
    chunks = []
    timed_out = False
    import time

    deadline = time.time() + timeout
    with os.fdopen(r, "rb") as f:
        while True:
            left = deadline - time.time()
            if left <= 0:
                timed_out = True
                break
            ready, _, _ = select.select([f], [], [], left)
            if not ready:
                timed_out = True
                break
            b = os.read(f.fileno(), 1 << 16)
            if not b:
                break
            chunks.append(b)
    if timed_out:
        try:
            os.kill(pid, signal.SIGKILL)
        except ProcessLookupError:
            pass
    _, status = os.waitpid(pid, 0)
    if timed_out:
        return {"t": "exc", "exc": "Timeout", "isvalue": False, "msg": f"no result within {timeout}s", "words": []}
    if not chunks:
        sig = os.WTERMSIG(status) if os.WIFSIGNALED(status) else 0
        return {"t": "exc", "exc": "Crashed", "isvalue": False, "msg": f"child died (signal {sig}, status {status})", "words": []}
    return json.loads(b"".join(chunks))


def run_history(table: dict, calls: dict[int, dict], h: list[int]) -> list[dict]:
    classes = build_classes(table)
    out = []
    for cid in h:
        c = calls[cid]
        ty = py_type(c["ty"], classes)
        if c["op"] == "S":
            ok, v = call(cc.structure_from_dict, untag(c["arg"]), ty)
            out.append(abs_val(v) if ok else v)
        else:
            ok, v = call(cc.unstructure_to_dict, build_val(c["arg"], classes))
            out.append(tag(v) if ok else v)
    return out


def job_hist(job: dict) -> dict:
    calls = {c["id"]: c for c in job["calls"]}
    res = []
    for h in job["hists"]:
        r = in_fork(lambda h=h: {"res": run_history(job["classes"], calls, h)}, 60)
        res.append(r["res"] if "res" in r else [r] * len(h))
    return {"id": job["id"], "res": res}


NODE_FIELDS = ["nf", "nr", "kf", "kr", "mr", "av"]


def node_class() -> type:
    """class Node with forward references cattrs cannot resolve (..f: `Optional["Node"]` where no name `Node`
    is importable, as for a function-local class) and resolved self references (..r)."""
    nd = lambda: dataclasses.field(default=None)  # noqa: E731
    Node = dataclasses.make_dataclass(
        "Node",
        [
            ("name", str),
            ("nf", Optional["Node"], nd()),
            ("nr", Optional["Node"], nd()),
            ("kf", Optional[List["Node"]], nd()),
            ("kr", Optional[List["Node"]], nd()),
            ("mr", Optional[Dict[str, "Node"]], nd()),
            ("av", Any, nd()),
            ("ll", Optional[List[List["Node"]]], nd()),
            ("llr", Optional[List[List["Node"]]], nd()),
            ("dl", Optional[Dict[str, List["Node"]]], nd()),
            ("ldl", Optional[List[Dict[str, List["Node"]]]], nd()),
            ("tu", Optional[Tuple["Node", ...]], nd()),
        ],
    )
    res = {"nr": Optional[Node], "kr": Optional[List[Node]], "mr": Optional[Dict[str, Node]], "llr": Optional[List[List[Node]]]}
    for k, t in res.items():
        Node.__dataclass_fields__[k].type = t
        Node.__annotations__[k] = t
    return Node


def run_graph(g: dict, reclimit: int = 1000) -> dict:
    sys.setrecursionlimit(reclimit)
    Node = node_class()
    nodes = {i: Node(name=f"n{i}") for i in range(1, g["n"] + 1)}
    for e in sorted(g["edges"], key=lambda e: (e["from"], e["kind"], e["to"])):
        src, dst, k = nodes[e["from"]], nodes[e["to"]], e["kind"]
        if k in ("nf", "nr", "av"):
            setattr(src, k, dst)
        elif k in ("kf", "kr"):
            if getattr(src, k) is None:
                setattr(src, k, [])
            getattr(src, k).append(dst)
        elif k == "mr":
            if src.mr is None:
                src.mr = {}
            src.mr[f"n{e['to']}"] = dst
        elif k in ("ll", "llr"):  # list of lists: one inner list holding the targets
            if getattr(src, k) is None:
                setattr(src, k, [[]])
            getattr(src, k)[0].append(dst)
        elif k == "dl":  # dict of lists
            if src.dl is None:
                src.dl = {"k": []}
            src.dl["k"].append(dst)
        elif k == "ldl":  # list of dicts of lists
            if src.ldl is None:
                src.ldl = [{"k": []}]
            src.ldl[0]["k"].append(dst)
        elif k == "tu":  # tuple
            src.tu = (src.tu or ()) + (dst,)
        else:
            raise ValueError(f"unknown edge kind {k}")
    root: Any = nodes[1] if g["root"] == "node" else [nodes[i] for i in range(1, g["n"] + 1)] + [nodes[1]]
    ok, out = call(cu.DataclassSerializer.serialize, root)
    if not ok:
        return {"res": out, "json": True}
    try:
        json.dumps(out)
        js = True
    except Exception:  # noqa: BLE001
        js = False
    return {"res": tag(out), "json": js}


def job_ser(job: dict) -> dict:
    out = []
    for g in job["graphs"]:
        r = in_fork(lambda g=g: run_graph(g, job.get("reclimit", 1000)), job.get("timeout", 20))
        if "res" not in r:
            r = {"res": r, "json": True}
        out.append({"gid": g["gid"], "res": r["res"], "json": r["json"]})
    return {"id": job["id"], "out": out}


def job_diag(job: dict) -> dict:
    import uuid
    from datetime import time as dtime

    fresh_converter()
    out = {}
    for name, t, wire in (("uuid", uuid.UUID, "12345678-1234-5678-1234-567812345678"), ("time", dtime, "03:04:05")):
        C = dataclasses.make_dataclass("U", [("val", t)])
        ok, v = call(cc.structure_from_dict, {"val": wire}, C)
        if ok:
            ok2, o = call(cc.unstructure_to_dict, v)
            out[name] = {"structured": type(v.val).__name__, "out": tag(o) if ok2 else o}
        else:
            out[name] = {"structured": None, "err": v}
    return {"id": job["id"], "diag": out}


def main() -> None:
    jobs = json.load(sys.stdin)
    sys.setrecursionlimit(1000)
    for job in jobs:
        k = job["kind"]
        fn = {"rt": job_rt, "hist": job_hist, "ser": job_ser, "diag": job_diag}[k]
        print(json.dumps(fn(job)), flush=True)


if __name__ == "__main__":
    main()
