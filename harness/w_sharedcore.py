"""Worker for C11: replay a TREE of generate-histories with real `generate_client` calls into sandbox projects.

Job (stdin: JSON list):
  {"id", "root": dir, "depth": 0..4, "layout": "sib"|"api"|"far", "naming": "plain"|"n1"|"n2", "hists": [[[client, [codes], force], ...], ...],
   "spawn_every": N}
A step may have a 4th element: an environment step ("conflict", "empty", "truncated", "bom", "list", "reg-deleted",
"aliases-deleted", "aliases-emptied": the world edits the shared core's registry / alias file; "int-registry",
"int-aliases": a forced generation of that client killed right after open(<file>, "w")).
`hists` are the nodes (histories) of one sub-tree of the history tree; every proper prefix needed to reach them
is executed too (and reported).  The tree is walked depth first; the project directory of a node is copied
for every child, so each edge of the tree costs exactly one real generation.

After EVERY generation a fresh interpreter in which the generator cannot be imported looks at the project:
it imports every module of every client generated so far, resolves every name those modules import from the
core package, and reads `.exception_registry.json` and the class list of `exception_aliases.py`.
The fresh interpreter is a `fork()` of a zygote `/venv/bin/python` process that has only third-party libraries
(httpx, cattrs) loaded and never imports generated code itself; every `spawn_every`-th step and the first step
of a job where something is broken are observed a second time from a newly exec'ed `/venv/bin/python` and both
observations must agree.

Result (one JSON line per job): {"id", "obs": [ {"h": history, "gen": {...}, "applied": bool, "existed": bool,
   "regfile": bool, "registry": {pkg: [codes]}, "aliases": [class names], "probes": [...]} ], "spawned": n}

Modes: (default) job worker;  --zygote  fork server;  --probe  one probe request on stdin, answer on stdout.
Only the default mode may import the generator.
"""

from __future__ import annotations

import ast
import importlib
import importlib.util
import json
import os
import shutil
import subprocess
import sys
from pathlib import Path
from typing import Any

PY = os.environ.get("VERIF_PY", "/venv/bin/python")

OPS = [("items", "get", "/items", "list_items"), ("orders", "post", "/orders", "create_order")]

PRE = {0: [], 1: [], 2: ["a"], 3: ["a", "b"], 4: ["a", "b", "c"]}

# How the abstract name atoms of a layout are spelled.  "plain": unrelated names.  The other namings make one package
# name a STRING prefix of another without being its parent package ("n1": the first client's name is a prefix of the
# core's, of its parent's and of the other clients' names; "n2": the core's name is a prefix of the clients' names and
# the clients' names are prefixes of each other).  SharedCore.tla treats names as atoms: the spelling must not matter.
NAMINGS = {
    "plain": {},
    "n1": {"c1": "shop", "c2": "shop2", "c3": "shop2b", "core": "shop_core", "a": "shop_shared", "b": "shop_sharedb", "c": "sh"},
    "n2": {"core": "api", "c1": "api_v2", "c2": "api_v21", "c3": "api_v3", "a": "ap", "b": "api_", "c": "a"},
}


# ---------------------------------------------------------------------------------------------
# layout: abstract (client id, core depth, layout) -> package paths (lists of name atoms) -> package names


def abstract_paths(cid: str, depth: int, layout: str) -> tuple[list[str], list[str]]:
    """-> (path of the client package, path of the shared core package or [] for the embedded layout).
    sib: client is a sibling of the core; api: client one package below a sibling of the core;
    far: client top-level, core in an unrelated branch (depth >= 2)."""
    if depth == 0:
        return ([cid] if layout == "sib" else ["a", cid, "api"]), []
    pre = PRE[depth]
    core = pre + ["core"]
    if layout == "sib":
        return pre + [cid], core
    if layout == "api":
        return pre + [cid, "api"], core
    if layout == "far":
        return [cid], core
    raise ValueError(layout)


def packages(cid: str, depth: int, layout: str, naming: str = "plain") -> tuple[str, str | None]:
    """-> (client package, core_package argument or None for the embedded layout)"""
    m = NAMINGS[naming]
    cp, core = abstract_paths(cid, depth, layout)
    return ".".join(m.get(x, x) for x in cp), (".".join(m.get(x, x) for x in core) if core else None)


def core_of(pkg: str, core_arg: str | None) -> str:
    return core_arg if core_arg else pkg + ".core"


def spec_for(cid: str, codes: list[int]) -> dict[str, Any]:
    """One document per (client, declared error statuses): two tagged operations, the statuses dealt over them."""
    from harness import concretise

    paths: dict[str, Any] = {}
    for i, (tag, method, path, opid) in enumerate(OPS):
        resp: dict[str, Any] = {"204": {"description": "done"}}
        mine = [c for j, c in enumerate(sorted(codes)) if j % len(OPS) == i]
        for c in mine:
            resp[str(c)] = {"description": f"error {c}"}
        if i == 0 or mine:
            paths[path] = {method: {"operationId": opid, "tags": [tag], "responses": resp}}
    return concretise.wrap({}, paths, title=f"Client {cid}")


# ---------------------------------------------------------------------------------------------
# the probe (runs where the generator is blocked)


def _pkg_dir(root: str, pkg: str) -> Path:
    return Path(root).joinpath(*pkg.split("."))


def _modname(root: str, p: Path) -> str:
    parts = list(p.relative_to(root).with_suffix("").parts)
    if parts[-1] == "__init__":
        parts = parts[:-1]
    return ".".join(parts)


def _explicit_names(init_py: Path) -> set[str]:
    """Names core/__init__.py binds explicitly (everything else a client takes from the core root comes through
    the star import of exception_aliases)."""
    out: set[str] = set()
    try:
        tree = ast.parse(init_py.read_text())
    except Exception:  # noqa: BLE001
        return out
    for node in tree.body:
        if isinstance(node, ast.ImportFrom):
            for a in node.names:
                if a.name != "*":
                    out.add(a.asname or a.name)
        elif isinstance(node, (ast.ClassDef, ast.FunctionDef)):
            out.add(node.name)
    return out


def _alias_classes(core_dir: Path) -> tuple[bool, list[str]]:
    f = core_dir / "exception_aliases.py"
    if not f.exists():
        return False, []
    try:
        tree = ast.parse(f.read_text())
    except Exception:  # noqa: BLE001
        return True, []
    return True, sorted(n.name for n in tree.body if isinstance(n, ast.ClassDef))


def probe(req: dict) -> dict:
    root = req["root"]
    sys.dont_write_bytecode = True
    sys.path.insert(0, root)
    importlib.invalidate_caches()
    out = []
    for cl in req["clients"]:
        pkg, core = cl["pkg"], cl["core"]
        pdir, cdir = _pkg_dir(root, pkg), _pkg_dir(root, core)
        files = sorted(pdir.rglob("*.py")) if pdir.exists() else []
        mods = sorted({_modname(root, p) for p in files}, key=lambda m: (m != pkg, m.count("."), m))
        failed = []
        for m in mods:
            try:
                importlib.import_module(m)
            except BaseException as e:  # noqa: BLE001
                if isinstance(e, KeyboardInterrupt):
                    raise
                failed.append({"m": m, "type": type(e).__name__, "msg": str(e)[:200]})
        explicit = _explicit_names(cdir / "__init__.py")
        needs: set[str] = set()
        missing: set[str] = set()
        nresolved = 0
        for p in files:
            if cdir in p.parents:  # the embedded core itself
                continue
            try:
                tree = ast.parse(p.read_text())
            except Exception:  # noqa: BLE001
                continue
            this = _modname(root, p)
            thispkg = this if p.name == "__init__.py" else this.rpartition(".")[0]
            for node in ast.walk(tree):
                if not isinstance(node, ast.ImportFrom):
                    continue
                try:
                    target = importlib.util.resolve_name("." * node.level + (node.module or ""), thispkg) if node.level else node.module
                except Exception:  # noqa: BLE001
                    continue
                if not target or not (target == core or target.startswith(core + ".")):
                    continue
                for a in node.names:
                    if a.name == "*":
                        continue
                    nresolved += 1
                    ok = False
                    try:
                        mod = importlib.import_module(target)
                        if hasattr(mod, a.name):
                            ok = True
                        else:
                            importlib.import_module(target + "." + a.name)
                            ok = True
                    except BaseException as e:  # noqa: BLE001
                        if isinstance(e, KeyboardInterrupt):
                            raise
                    if not ok:
                        missing.add(a.name)
                    if target in (core, core + ".exception_aliases") and a.name not in explicit:
                        needs.add(a.name)
        has_file, visible = _alias_classes(cdir)
        out.append(
            {
                "client": cl["id"],
                "pkg": pkg,
                "exists": pdir.exists(),
                "modules": len(mods),
                "imports": not failed,
                "failed": failed[:4],
                "exc": failed[0]["type"] if failed else "none",
                "resolved": nresolved,
                "missing": sorted(missing),
                "needs": sorted(needs),
                "alias_file": has_file,
                "visible": visible,
            }
        )
    res: dict[str, Any] = {"probes": out, "regfile": False, "regstate": "absent", "registry": {}, "aliases": [], "generator_imported": False}
    res["generator_imported"] = any(m == "pyopenapi_gen" or m.startswith("pyopenapi_gen.") for m in sys.modules)
    sc = req.get("shared_core")
    if sc:
        cdir = _pkg_dir(root, sc)
        rf = cdir / ".exception_registry.json"
        if rf.exists():
            res["regfile"] = True
            res["regstate"] = "file"
            try:
                reg = json.loads(rf.read_text())
                if isinstance(reg, dict):
                    res["registry"] = {str(k): sorted(int(x) for x in v) for k, v in reg.items()}
                else:
                    res["regstate"] = "list" if isinstance(reg, list) else "unreadable"
            except Exception as e:  # noqa: BLE001
                res["regstate"] = "unreadable"
                res["registry_error"] = f"{type(e).__name__}: {e}"[:200]
        res["aliases"] = _alias_classes(cdir)[1]
    return res


def _blocked_start() -> None:
    from harness.w_obs import install_blocker

    install_blocker()
    sys.dont_write_bytecode = True


def zygote_main() -> None:
    _blocked_start()
    for lib in ("httpx", "cattrs", "attrs", "dateutil"):
        try:
            importlib.import_module(lib)
        except Exception:  # noqa: BLE001
            pass
    for line in sys.stdin:
        line = line.strip()
        if not line:
            continue
        r, w = os.pipe()
        pid = os.fork()
        if pid == 0:
            code = 0
            try:
                os.close(r)
                dn = os.open(os.devnull, os.O_WRONLY)
                os.dup2(dn, 1)  # nothing an imported module prints may reach the protocol stream
                try:
                    payload = json.dumps(probe(json.loads(line)))
                except BaseException as e:  # noqa: BLE001
                    payload = json.dumps({"probe_error": f"{type(e).__name__}: {e}"[:300]})
                with os.fdopen(w, "w") as f:
                    f.write(payload)
            except BaseException:  # noqa: BLE001
                code = 1
            os._exit(code)
        os.close(w)
        with os.fdopen(r) as f:
            data = f.read()
        os.waitpid(pid, 0)
        sys.stdout.write((data or json.dumps({"probe_error": "no answer from forked probe"})) + "\n")
        sys.stdout.flush()


def probe_main() -> None:
    _blocked_start()
    req = json.loads(sys.stdin.read())
    print(json.dumps(probe(req)))


class Prober:
    def __init__(self) -> None:
        env = dict(os.environ)
        env["PYTHONDONTWRITEBYTECODE"] = "1"
        self.env = env
        self.z = subprocess.Popen([PY, "-m", "harness.w_sharedcore", "--zygote"], stdin=subprocess.PIPE, stdout=subprocess.PIPE, text=True, env=env)
        self.spawned = 0

    def fork(self, req: dict) -> dict:
        assert self.z.stdin and self.z.stdout
        self.z.stdin.write(json.dumps(req) + "\n")
        self.z.stdin.flush()
        line = self.z.stdout.readline()
        if not line:
            raise RuntimeError("probe zygote died")
        return json.loads(line)

    def spawn(self, req: dict) -> dict:
        self.spawned += 1
        p = subprocess.run([PY, "-m", "harness.w_sharedcore", "--probe"], input=json.dumps(req), capture_output=True, text=True, env=self.env, timeout=120)
        if p.returncode != 0:
            raise RuntimeError(f"spawned probe failed: {p.stderr[-500:]}")
        return json.loads(p.stdout.strip().splitlines()[-1])

    def close(self) -> None:
        try:
            assert self.z.stdin
            self.z.stdin.close()
            self.z.wait(timeout=10)
        except Exception:  # noqa: BLE001
            self.z.kill()


# ---------------------------------------------------------------------------------------------
# the job worker


class Killed(BaseException):
    """Stands for the process being killed in the middle of a generation (InterruptedRun)."""


def corrupt(core_dir: Path, kind: str) -> bool:
    """Environment step: what the world may do to the shared core between two generations.  -> whether it applied"""
    reg = core_dir / ".exception_registry.json"
    ali = core_dir / "exception_aliases.py"
    if kind in ("aliases-deleted", "aliases-emptied"):
        if not ali.exists():
            return False
        if kind == "aliases-deleted":
            ali.unlink()
        else:
            ali.write_text("")
        return True
    if not reg.exists():
        return False
    text = reg.read_text()
    if kind == "conflict":
        reg.write_text("<<<<<<< HEAD\n" + text + "\n=======\n" + text.replace("[", "[\n    418,", 1) + "\n>>>>>>> feature/other-client\n")
    elif kind == "empty":
        reg.write_text("")
    elif kind == "truncated":
        reg.write_text(text[: max(1, len(text) // 2)])
    elif kind == "bom":
        reg.write_bytes(b"\xef\xbb\xbf" + text.encode())
    elif kind == "list":
        reg.write_text(json.dumps(sorted(json.loads(text).items())))
    elif kind == "reg-deleted":
        reg.unlink()
    else:
        raise ValueError(kind)
    return True


def interrupted_generate(generate: Any, job: dict, target: str) -> dict:
    """Run one real generation that dies right after it opened `target` (a file name) for writing inside the project."""
    import builtins

    real_open = builtins.open
    root = os.path.realpath(job["root"])

    def dying_open(file: Any, mode: str = "r", *a: Any, **kw: Any) -> Any:
        f = real_open(file, mode, *a, **kw)
        try:
            if "w" in mode and isinstance(file, (str, os.PathLike)) and os.path.basename(os.fspath(file)) == target and os.path.realpath(os.fspath(file)).startswith(root + os.sep):
                f.close()
                raise Killed(f"killed after open({os.path.basename(os.fspath(file))!r}, 'w')")
        except Killed:
            raise
        return f

    builtins.open = dying_open
    try:
        return generate(job)
    finally:
        builtins.open = real_open


def _is_broken(ob: dict) -> bool:
    return any((not p["imports"]) or p["missing"] for p in ob["probes"])


def run_job(job: dict, prober: Prober) -> dict:
    from harness.w_gen import run_job as generate

    depth, layout, naming = job["depth"], job["layout"], job.get("naming", "plain")
    base = Path(job["root"])
    shutil.rmtree(base, ignore_errors=True)
    base.mkdir(parents=True)
    # history tree of this job
    tree: dict = {}
    for h in job["hists"]:
        node = tree
        for step in h:
            node = node.setdefault(json.dumps(step), {})
    obs: list[dict] = []
    counter = [0]
    confirmed = [False]  # the first broken observation of a job is confirmed from a newly exec'ed interpreter
    spawn_every = int(job.get("spawn_every") or 0)
    shared_core = packages("c1", depth, layout, naming)[1]

    def walk(node: dict, ndir: Path, hist: list, gen_clients: list[str]) -> None:
        for key in sorted(node):
            step = json.loads(key)
            cid, codes, force = step[:3]
            env = step[3] if len(step) > 3 else "gen"
            counter[0] += 1
            d = base / f"n{counter[0]}"
            shutil.copytree(ndir, d, symlinks=True)
            if env in ("gen", "int-registry", "int-aliases"):
                pkg, core_arg = packages(cid, depth, layout, naming)
                existed = _pkg_dir(str(d), pkg).exists()
                gjob = {"id": f"s{counter[0]}", "root": str(d), "spec": spec_for(cid, codes), "pkg": pkg, "core": core_arg, "force": force, "nopp": True}
                if env == "gen":
                    g = generate(gjob)
                else:
                    g = interrupted_generate(generate, gjob, ".exception_registry.json" if env == "int-registry" else "exception_aliases.py")
                    g["env_applied"] = g["errtype"] == "Killed"
                clients_now = gen_clients if cid in gen_clients else gen_clients + [cid]
            else:
                existed = False
                done = bool(shared_core) and corrupt(_pkg_dir(str(d), shared_core), env)
                g = {"ok": False, "errtype": "none", "err": "", "env_applied": done}
                clients_now = gen_clients
            req = {
                "root": str(d),
                "shared_core": shared_core,
                "clients": [
                    {"id": c, "pkg": packages(c, depth, layout, naming)[0], "core": core_of(*packages(c, depth, layout, naming))}
                    for c in clients_now
                    if _pkg_dir(str(d), packages(c, depth, layout, naming)[0]).exists()
                ],
            }
            ob = prober.fork(req)
            if "probe_error" in ob:
                raise RuntimeError(f"probe failed: {ob['probe_error']}")
            broken = _is_broken(ob)
            if (spawn_every and counter[0] % spawn_every == 0) or (broken and not confirmed[0]):
                confirmed[0] = confirmed[0] or broken
                ob2 = prober.spawn(req)
                if ob2 != ob:
                    raise RuntimeError(f"forked and spawned interpreters observe different things:\n{json.dumps(ob)[:800]}\n{json.dumps(ob2)[:800]}")
                ob["confirmed_by_spawn"] = True
            h2 = hist + [step]
            ob.update(
                {
                    "h": h2,
                    "env": env,
                    "env_applied": bool(g.get("env_applied", False)),
                    "gen": {"ok": g["ok"], "errtype": g["errtype"] or "none", "err": (g["err"] or "")[:200]},
                    "existed": existed,
                    "applied": bool(env == "gen" and g["ok"] and (force or not existed)),
                }
            )
            obs.append(ob)
            walk(node[key], d, h2, [c["id"] for c in req["clients"]])
            shutil.rmtree(d, ignore_errors=True)

    root0 = base / "n0"
    root0.mkdir()
    walk(tree, root0, [], [])
    shutil.rmtree(base, ignore_errors=True)
    return {"id": job["id"], "obs": obs, "spawned": prober.spawned}


def main() -> None:
    if "--zygote" in sys.argv:
        zygote_main()
        return
    if "--probe" in sys.argv:
        probe_main()
        return
    jobs = json.load(sys.stdin)
    prober = Prober()
    try:
        for job in jobs:
            before = prober.spawned
            r = run_job(job, prober)
            r["spawned"] = prober.spawned - before
            print(json.dumps(r), flush=True)
    finally:
        prober.close()


if __name__ == "__main__":
    main()
