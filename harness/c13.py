"""C13 - endpoint clients, their Protocols and their mocks have identical surfaces.

(A) specs/MC_Surface.tla: the three grouping rules as the code has them (endpoints and APIClient group by every folded
    tag - the tag properties are overwritten by APIClient's own `request` / `close` - mocks group by first raw tag) over all
    tag assignments of <= 3 operations; the fixed design satisfies the reference meaning as real invariants, the as-is
    design's deviations are printed through a verdict and must each be listed as a finding;
(B) specs/Gen_Surface.tla (TLC) enumerates the document family (tags x operationId shapes x strategies x renderings x
    kinds); every document goes through the real generator on the force path (harness/w_gen.py);
(C) the emitted package is observed in a generator-less interpreter (`surface`, `wire`, `mockcall`, `surfacex`, `wirex`) and
    specs/Trace_Surface.tla (run by TLC) judges the recorded surface with Surface!JudgeC13 (Parity): per method every
    `def` of client / Protocol / mock in source order (overload stubs from the ast), runtime signature, nature, what the
    mock raises, isinstance against the Protocol, MockAPIClient vs. APIClient properties.
The machinery is shared with C07 (harness/surfacepipe.py)."""

from __future__ import annotations

from . import surfacepipe
from .core import Check

LEVEL = "model_checking"


def run(chk: Check) -> None:
    surfacepipe.run_check(chk, "C13")


def replay(chk: Check, path: str) -> None:
    surfacepipe.replay_check(chk, "C13", path)
